import Proofs.BinObj
import Proofs.BinObjSky
/-!
# C02 — packing objectives agree with bin count, definitions and bounds

Property theorems only (helper lemmas: `Proofs/BinObj.lean`, `Proofs/BinObjSky.lean`, shared area
lemma: `Proofs/Area.lean`).  Model and executable specification: `Model/BinObj.lean`.

Throughout: `I` is an instance the constructor accepts (`I.Valid`), `rows` a packing in ANY row
order, `k` its number of bins, `Pack.Feasible I rows k` the shared feasibility specification,
`temp` the scratch array with ARBITRARY prior content, `lbBins` the instance's `lower_bound_bins`
(modelled by property C03; here a parameter).
-/
namespace BinObj
open Pack ListLemmas

variable {I : Inst} {rows : List Row} {k : Int}

/-! ## the specification vocabulary is what the documentation says -/

/-- `sky rows b x` is the highest top edge among the rectangles of bin `b` whose horizontal extent
contains column `x`, and `0` if there is none: it is non-negative, an upper bound of all those top
edges, and it is `0` or attained. -/
theorem sky_spec (rows : List Row) (b x : Int) :
    0 ≤ sky rows b x ∧
    (∀ a ∈ rows, a.bin = b → a.l ≤ x → x < a.r → a.t ≤ sky rows b x) ∧
    (sky rows b x = 0 ∨ ∃ a ∈ rows, a.bin = b ∧ a.l ≤ x ∧ x < a.r ∧ a.t = sky rows b x) := by
  refine ⟨sky_nonneg rows b x, fun a ha h1 h2 h3 => le_sky rows b x a ha ⟨h1, h2, h3⟩, ?_⟩
  rcases sky_attained rows b x with h | ⟨a, ha, hc, ht⟩
  · exact Or.inl h
  · exact Or.inr ⟨a, ha, hc.1, hc.2.1, hc.2.2, ht⟩

/-- `minOver f k` is the minimum of `f 1, …, f k`: attained at some bin and a lower bound of all. -/
theorem minOver_spec (f : Int → Int) (k : Int) (hk : 1 ≤ k) :
    (∃ b, 1 ≤ b ∧ b ≤ k ∧ f b = minOver f k) ∧ ∀ b, 1 ≤ b → b ≤ k → minOver f k ≤ f b :=
  minOver_isMin f k hk

/-! ## each kernel returns its documented value (any row order, any scratch content) -/

/-- `BinCount.evaluate` returns the number of bins. -/
theorem binCount_eq_spec (hv : I.Valid) (hf : Feasible I rows k) : binCount rows = .ok k :=
  binCount_feasible hv hf

/-- `bin_count_and_last_empty` = `(bins - 1) * n_items + (number of items in the last bin)`. -/
theorem lastEmpty_eq_spec (hv : I.Valid) (hf : Feasible I rows k) :
    binCountAndLastEmpty rows = (k - 1) * I.nItems + countIn rows k := lastEmpty_feasible hv hf

/-- `bin_count_and_empty` = `(bins - 1) * n_items + (fewest items in any bin)`. -/
theorem empty_eq_spec (hv : I.Valid) (hf : Feasible I rows k) (temp : List Int)
    (ht : I.nItems ≤ temp.length) :
    binCountAndEmpty rows temp = .ok ((k - 1) * I.nItems + minOver (countIn rows) k) :=
  empty_feasible hv hf temp ht

/-- `bin_count_and_last_small` = `(bins - 1) * bin_area + (area covered in the last bin)`. -/
theorem lastSmall_eq_spec (hv : I.Valid) (hf : Feasible I rows k) :
    binCountAndLastSmall rows (I.W * I.H) = (k - 1) * (I.W * I.H) + areaIn rows k :=
  lastSmall_feasible hv hf _

/-- `bin_count_and_small` = `(bins - 1) * bin_area + (smallest covered area of any bin)`. -/
theorem small_eq_spec (hv : I.Valid) (hf : Feasible I rows k) (temp : List Int)
    (ht : I.nItems ≤ temp.length) :
    binCountAndSmall rows (I.W * I.H) temp = .ok ((k - 1) * (I.W * I.H) + minOver (areaIn rows) k) :=
  small_feasible hv hf _ temp ht

/-- the sweep over left edges returns the area under the skyline `Σ_{0 ≤ x < W} sky x` — for EVERY
list of rows (feasible or not), every bin id and every width.  (Termination of the `while` loop is
part of the definition of `sweep`: each round advances `cur_left` strictly, `Model.BinObj.inner_gt`.) -/
theorem sweep_eq_skyArea (rows : List Row) (b W : Int) : sweep rows b W 0 0 = skyArea rows b W :=
  sweep_skyArea rows b W

/-- `bin_count_and_last_skyline` = `(bins - 1) * bin_area + (area under the skyline of the last bin)`. -/
theorem lastSkyline_eq_spec (hv : I.Valid) (hf : Feasible I rows k) :
    binCountAndLastSkyline rows I.W I.H = .ok ((k - 1) * (I.W * I.H) + skyArea rows k I.W) :=
  lastSkyline_feasible hv hf

/-- `bin_count_and_lowest_skyline` = `(bins - 1) * bin_area + (smallest area under a skyline of any bin)`. -/
theorem lowestSkyline_eq_spec (hv : I.Valid) (hf : Feasible I rows k) :
    binCountAndLowestSkyline rows I.W I.H =
      .ok ((k - 1) * (I.W * I.H) + minOver (fun b => skyArea rows b I.W) k) :=
  lowestSkyline_feasible hv hf

/-- **all seven**: `Objective.evaluate` returns `(k - 1) * scale + tie`, the documented value. -/
theorem obj_eq_spec (o : Obj) (hv : I.Valid) (hf : Feasible I rows k) (temp : List Int)
    (ht : I.nItems ≤ temp.length) : eval o I rows temp = .ok (spec o I rows k) := by
  cases o <;> simp only [eval, spec, scale, tie]
  · rw [binCount_eq_spec hv hf]; congr 1; omega
  · rw [lastEmpty_eq_spec hv hf]
  · exact empty_eq_spec hv hf temp ht
  · rw [lastSmall_eq_spec hv hf]
  · exact small_eq_spec hv hf temp ht
  · exact lastSkyline_eq_spec hv hf
  · exact lowestSkyline_eq_spec hv hf

/-- the result does not depend on what the scratch array contained before — for every input,
feasible or not, including the error cases -/
theorem scratch_irrelevant (o : Obj) (I : Inst) (rows : List Row) (t1 t2 : List Int)
    (h : t1.length = t2.length) : eval o I rows t1 = eval o I rows t2 := by
  cases o <;> simp only [eval, binCountAndEmpty, binCountAndSmall, fill0_eq_of_length t1 t2 h]

/-! ## no access outside the arrays (the C13 clause for these kernels) -/

/-- on a feasible packing no kernel leaves the scratch array or takes the minimum/maximum of an
empty array: `bin - 1 < n_items` etc. follow from feasibility -/
theorem noOOB (o : Obj) (hv : I.Valid) (hf : Feasible I rows k) (temp : List Int)
    (ht : I.nItems ≤ temp.length) : ∃ v, eval o I rows temp = .ok v :=
  ⟨_, obj_eq_spec o hv hf temp ht⟩

/-- what the kernels need when the packing is merely well-shaped (the optimisers only evaluate
decoder outputs): at least one row and all bin ids in `1..len(temp)`.  No geometric condition. -/
theorem noOOB_inSpace (o : Obj) (I : Inst) (rows : List Row) (temp : List Int)
    (h : InSpace temp.length rows) : ∃ v, eval o I rows temp = .ok v := by
  obtain ⟨hne, hb⟩ := h
  have hcm : ∃ m, colMaxBin rows = .ok m := by
    cases rows with
    | nil => exact absurd rfl hne
    | cons a t => exact ⟨_, rfl⟩
  obtain ⟨m, hm⟩ := hcm
  cases o <;> simp only [eval]
  · exact ⟨m, hm⟩
  · exact ⟨_, rfl⟩
  · exact ⟨_, binCountAndEmpty_closed rows temp hne hb⟩
  · exact ⟨_, rfl⟩
  · exact ⟨_, binCountAndSmall_closed rows _ temp hne hb⟩
  · simp only [binCountAndLastSkyline, hm]; exact ⟨_, rfl⟩
  · simp only [binCountAndLowestSkyline, hm]; exact ⟨_, rfl⟩

/-- exactly which inputs leave the scratch array: `bin_count_and_empty` / `bin_count_and_small` fail
with an out-of-bounds access iff some row's `bin - 1` lies outside `[-len(temp), len(temp))`
(numba wraps negative indices); no other kernel indexes anything but existing rows -/
theorem oob_iff (rows : List Row) (binArea : Int) (temp : List Int) :
    (binCountAndEmpty rows temp = .error .oob ↔
      ∃ a ∈ rows, ¬ (-(temp.length : Int) ≤ a.bin - 1 ∧ a.bin - 1 < temp.length)) ∧
    (binCountAndSmall rows binArea temp = .error .oob ↔
      ∃ a ∈ rows, ¬ (-(temp.length : Int) ≤ a.bin - 1 ∧ a.bin - 1 < temp.length)) :=
  ⟨binCountAndEmpty_oob_iff rows temp, binCountAndSmall_oob_iff rows binArea temp⟩

/-! ## bin count, tie-breaker range, conversion, bounds, dominance -/

/-- a feasible packing never uses more bins than there are items (every bin is non-empty) -/
theorem bins_le_nItems (hv : I.Valid) (hf : Feasible I rows k) : 1 ≤ k ∧ k ≤ I.nItems := by
  have := bins_le_len hv hf
  have := feas_len hf
  have := feas_k_pos hv hf
  omega

/-- the tie-breaking part lies in `[1, scale]`: between one item and `n_items`, resp. between one
cell and the bin area (non-overlap inside a bin: `Pack.area_sum_le`; skyline ≤ bin height) -/
theorem tie_in_range (o : Obj) (hv : I.Valid) (hf : Feasible I rows k) :
    1 ≤ tie o I rows k ∧ tie o I rows k ≤ scale o I := by
  have hk := feas_k_pos hv hf
  cases o <;> simp only [tie, scale]
  · omega
  · exact countIn_range hv hf k hk (by omega)
  · exact minOver_bounds _ k 1 _ hk (fun b h1 h2 => countIn_range hv hf b h1 h2)
  · exact areaIn_range hv hf k hk (by omega)
  · exact minOver_bounds _ k 1 _ hk (fun b h1 h2 => areaIn_range hv hf b h1 h2)
  · exact skyArea_range hv hf k hk (by omega)
  · exact minOver_bounds _ k 1 _ hk (fun b h1 h2 => skyArea_range hv hf b h1 h2)

/-- **`to_bin_count` inverts every objective**: converting the value of a feasible packing back
yields its true number of bins -/
theorem to_bin_count_obj (o : Obj) (hv : I.Valid) (hf : Feasible I rows k) (temp : List Int)
    (ht : I.nItems ≤ temp.length) :
    ∃ v, eval o I rows temp = .ok v ∧ toBinCount o I v = k := by
  refine ⟨_, obj_eq_spec o hv hf temp ht, ?_⟩
  obtain ⟨h1, h2⟩ := tie_in_range o hv hf
  cases o <;> simp only [toBinCount, spec, scale, tie] at h1 h2 ⊢
  · omega
  all_goals exact ceilDiv_scale k _ _ h1 h2

/-- hence the cross-objective agreement that `packing_result.py:from_packing_and_end_result`
enforces (it raises "found bin count disagreement" otherwise) always holds for a feasible packing:
any two objectives convert their values to the same bin count -/
theorem bin_counts_agree (o o' : Obj) (hv : I.Valid) (hf : Feasible I rows k) (t t' : List Int)
    (ht : I.nItems ≤ t.length) (ht' : I.nItems ≤ t'.length) :
    ∃ v v', eval o I rows t = .ok v ∧ eval o' I rows t' = .ok v' ∧
      toBinCount o I v = toBinCount o' I v' := by
  obtain ⟨v, h1, h2⟩ := to_bin_count_obj o hv hf t ht
  obtain ⟨v', h1', h2'⟩ := to_bin_count_obj o' hv hf t' ht'
  exact ⟨v, v', h1, h1', by rw [h2, h2']⟩

/-- the geometric part of `lower_bound_bins` is what `instance.py` documents: the least number of
bins whose total area accommodates all items -/
theorem lbGeo_spec (hv : I.Valid) : I.totalArea ≤ lbGeo I * (I.W * I.H) := by
  have hA := binArea_pos hv
  unfold lbGeo
  simp only []
  rw [Int.mul_comm I.H I.W]
  have h1 := Int.mul_ediv_add_emod I.totalArea (I.W * I.H)
  have h2 := Int.emod_lt_of_pos I.totalArea (show 0 < I.W * I.H by omega)
  have h3 := Int.emod_nonneg I.totalArea (show I.W * I.H ≠ 0 by omega)
  rw [Int.mul_comm] at h1
  split
  · rw [Int.add_mul]; omega
  · omega

/-- the geometric bound never exceeds the bins of a feasible packing (area argument) -/
theorem lbGeo_le_bins (hv : I.Valid) (hf : Feasible I rows k) : lbGeo I ≤ k := by
  have hA := binArea_pos hv
  have h0 := feasible_area_le I rows k hv hf
  unfold lbGeo
  simp only []
  rw [Int.mul_comm I.H I.W]
  have h1 := Int.ediv_le_of_le_mul (show 0 < I.W * I.H by omega) h0
  split
  · rename_i hlt
    have h2 : I.totalArea / (I.W * I.H) * (I.W * I.H) < k * (I.W * I.H) := by omega
    have := Int.lt_of_mul_lt_mul_right h2 (by omega)
    omega
  · exact h1

/-- the tie-breaking part when everything is in one bin: all items resp. all item area -/
def oneBin (o : Obj) (I : Inst) : Int :=
  match o with
  | .binCount => 1
  | .lastEmpty | .empty => I.nItems
  | .lastSmall | .small | .lastSkyline | .lowestSkyline => I.totalArea

/-- the least conceivable tie-breaking part: one item resp. the area of the smallest item -/
def smallTie (o : Obj) (I : Inst) : Int :=
  match o with
  | .binCount | .lastEmpty | .empty => 1
  | .lastSmall | .small | .lastSkyline | .lowestSkyline => smallestArea I

/-- with a single bin the tie-breaking part is "everything": all items resp. (at least) all item area -/
theorem tie_one_bin (o : Obj) (hv : I.Valid) (hf : Feasible I rows 1) :
    oneBin o I ≤ tie o I rows 1 := by
  cases o <;> simp only [tie, oneBin]
  · omega
  · exact Int.le_of_eq (countIn_one hf).symm
  · rw [minOver_one]; exact Int.le_of_eq (countIn_one hf).symm
  · exact Int.le_of_eq (areaIn_one hf).symm
  · rw [minOver_one]; exact Int.le_of_eq (areaIn_one hf).symm
  · exact totalArea_le_skyArea_one hv hf
  · rw [minOver_one]; exact totalArea_le_skyArea_one hv hf

/-- the tie-breaking part of the area-type objectives is at least the area of the smallest item -/
theorem tie_ge_smallest (o : Obj) (hv : I.Valid) (hf : Feasible I rows k) :
    smallTie o I ≤ tie o I rows k := by
  have hk := feas_k_pos hv hf
  cases o <;> simp only [smallTie]
  · exact (tie_in_range .binCount hv hf).1
  · exact (tie_in_range .lastEmpty hv hf).1
  · exact (tie_in_range .empty hv hf).1
  · exact smallestArea_le_areaIn hv hf k hk (by omega)
  · exact (minOver_bounds _ k _ _ hk (fun b h1 h2 =>
      ⟨smallestArea_le_areaIn hv hf b h1 h2, (areaIn_range hv hf b h1 h2).2⟩)).1
  · exact smallestArea_le_skyArea hv hf k hk (by omega)
  · exact (minOver_bounds _ k _ _ hk (fun b h1 h2 =>
      ⟨smallestArea_le_skyArea hv hf b h1 h2, (skyArea_range hv hf b h1 h2).2⟩)).1

/-- **bounds**: the value of every feasible packing lies within `[lower_bound(), upper_bound()]`,
where `lbBins` is the instance's `lower_bound_bins`, assumed to be at least the geometric bound
(`instance.py`: `max(lower_bound_damv, lower_bound_geo)`) and at most the bins of this packing
(that is property C03).  `k ≤ n_items` is not assumed: it follows from feasibility. -/
theorem obj_within_bounds (o : Obj) (lbBins : Int) (hv : I.Valid) (hf : Feasible I rows k)
    (hgeo : lbGeo I ≤ lbBins) (hlb : lbBins ≤ k) :
    lower o I lbBins ≤ spec o I rows k ∧ spec o I rows k ≤ upper o I := by
  obtain ⟨hk1, hkn⟩ := bins_le_nItems hv hf
  obtain ⟨ht1, ht2⟩ := tie_in_range o hv hf
  have hS := scale_pos o hv
  have hn := Inst.nItems_pos I hv
  have hA := binArea_pos hv
  have hup : spec o I rows k ≤ I.nItems * scale o I :=
    scale_upper k I.nItems (scale o I) (tie o I rows k) hkn (by omega) ht2
  have hsm := tie_ge_smallest o hv hf
  -- the value is at least "everything in one bin"
  have hone : oneBin o I ≤ spec o I rows k ∨ (2 ≤ k ∧ scale o I + 1 ≤ spec o I rows k) := by
    by_cases h1 : k = 1
    · left
      subst h1
      have := tie_one_bin o hv hf
      unfold spec
      simp only [Int.sub_self, Int.zero_mul, Int.zero_add]
      exact this
    · right
      refine ⟨by omega, ?_⟩
      have := scale_lower 2 k (scale o I) 1 (tie o I rows k) (by omega) (by omega) ht1
      unfold spec
      omega
  have hgeoA : I.totalArea ≤ lbBins * (I.W * I.H) := by
    have h1 := lbGeo_spec hv
    have h2 : lbGeo I * (I.W * I.H) ≤ lbBins * (I.W * I.H) :=
      Int.mul_le_mul_of_nonneg_right hgeo (by omega)
    omega
  have hlow1 : (lbBins - 1) * scale o I + 1 ≤ spec o I rows k :=
    scale_lower lbBins k (scale o I) 1 (tie o I rows k) hlb (by omega) ht1
  have hlow2 : (lbBins - 1) * scale o I + smallTie o I ≤ spec o I rows k :=
    scale_lower lbBins k (scale o I) _ (tie o I rows k) hlb (by omega) hsm
  have hspec : spec o I rows k = (k - 1) * scale o I + tie o I rows k := rfl
  cases o <;> simp only [lower, upper, scale, oneBin, smallTie] at hup hone hlow1 hlow2 hspec ht1 ht2 ⊢
  · omega
  · rcases hone with h | ⟨_, h⟩ <;> omega
  · rcases hone with h | ⟨_, h⟩ <;> omega
  all_goals
    refine ⟨?_, by rw [Int.mul_assoc, Int.mul_comm I.H I.W]; exact hup⟩
    split
    · rename_i h1
      subst h1
      rcases hone with h | ⟨_, h⟩ <;> omega
    · rw [Int.mul_assoc, Int.mul_comm I.H I.W]
      exact hlow2

/-- the bounds clause without any assumption about `lower_bound_bins`, for an instance whose
bound is the geometric one (`lbBins = lbGeo I`; e.g. whenever the Dell'Amico bound is not larger) -/
theorem obj_within_bounds_geo (o : Obj) (hv : I.Valid) (hf : Feasible I rows k) :
    lower o I (lbGeo I) ≤ spec o I rows k ∧ spec o I rows k ≤ upper o I :=
  obj_within_bounds o (lbGeo I) hv hf (Int.le_refl _) (lbGeo_le_bins hv hf)

/-- **fewer bins are strictly better** under every one of the seven objectives: for two feasible
packings of the same instance, the one with fewer bins has the strictly smaller value (whatever the
row orders and scratch contents) -/
theorem fewer_bins_strictly_better (o : Obj) {p q : List Row} {k k' : Int} (hv : I.Valid)
    (hp : Feasible I p k) (hq : Feasible I q k') (hk : k < k') (t1 t2 : List Int)
    (ht1 : I.nItems ≤ t1.length) (ht2 : I.nItems ≤ t2.length) :
    ∃ v v', eval o I p t1 = .ok v ∧ eval o I q t2 = .ok v' ∧ v < v' := by
  refine ⟨_, _, obj_eq_spec o hv hp t1 ht1, obj_eq_spec o hv hq t2 ht2, ?_⟩
  have h1 := (tie_in_range o hv hp).2
  have h2 := (tie_in_range o hv hq).1
  have hS := scale_pos o hv
  exact scale_dominates k k' (scale o I) _ _ hk (by omega) h1 h2

/-- **covered area ≤ area under the skyline** in every bin of a feasible packing (column counting
with the shared area lemma on a one-column bin) — the inequality that makes the skyline objectives
at least as large as the area objectives, and that the bound `total_item_area` needs for one bin -/
theorem areaIn_le_skyArea (hv : I.Valid) (hf : Feasible I rows k) (b : Int) :
    areaIn rows b ≤ skyArea rows b I.W := areaIn_le_skyArea' hv hf b

/-- **range**: the documented value and its two summands lie in `[0, n_items * scale]`
(`scale` = 1, `n_items`, `W*H`); hence whenever `n_items * W * H < 2^63` (and `n_items^2 < 2^63`)
the int64 kernels cannot wrap around on the result -/
theorem spec_range (o : Obj) (hv : I.Valid) (hf : Feasible I rows k) :
    0 ≤ (k - 1) * scale o I ∧ 1 ≤ tie o I rows k ∧ tie o I rows k ≤ scale o I ∧
    1 ≤ spec o I rows k ∧ spec o I rows k ≤ I.nItems * scale o I ∧
    (I.nItems * scale o I < 2 ^ 63 → -(2 ^ 63) ≤ spec o I rows k ∧ spec o I rows k < 2 ^ 63) := by
  obtain ⟨hk1, hkn⟩ := bins_le_nItems hv hf
  obtain ⟨ht1, ht2⟩ := tie_in_range o hv hf
  have hS := scale_pos o hv
  have h0 : 0 ≤ (k - 1) * scale o I := Int.mul_nonneg (by omega) (by omega)
  have hup : spec o I rows k ≤ I.nItems * scale o I :=
    scale_upper k I.nItems (scale o I) (tie o I rows k) hkn (by omega) ht2
  refine ⟨h0, ht1, ht2, by unfold spec; omega, hup, fun h => ⟨by unfold spec; omega, by omega⟩⟩

/-! ## non-vacuity and the known int64 wrap-around -/

/-- a concrete instance (10×10 bin, two item types) with a feasible 2-bin packing in shuffled row
order and a feasible 3-bin packing: all hypotheses of the theorems above are satisfiable -/
def exI : Inst := ⟨10, 10, [⟨6, 5, 2⟩, ⟨4, 10, 1⟩]⟩
def exP : List Row := [⟨2, 1, 6, 0, 10, 10⟩, ⟨1, 2, 0, 0, 5, 6⟩, ⟨1, 1, 0, 0, 6, 5⟩]
def exQ : List Row := [⟨1, 3, 0, 2, 6, 7⟩, ⟨2, 1, 0, 0, 4, 10⟩, ⟨1, 2, 2, 3, 8, 8⟩]
example : exI.Valid := by decide
example : Feasible exI exP 2 := by decide
example : Feasible exI exQ 3 := by decide
example : [Obj.binCount, .lastEmpty, .empty, .lastSmall, .small].map (fun o => eval o exI exP [7, -3, 99]) =
    [.ok 2, .ok 4, .ok 4, .ok 130, .ok 130] := by decide
example : [Obj.binCount, .lastEmpty, .empty, .lastSmall, .small].map (fun o => eval o exI exQ [0, 0, 0]) =
    [.ok 3, .ok 7, .ok 7, .ok 230, .ok 230] := by decide
example : Obj.all.map (fun o => spec o exI exP 2) = [2, 4, 4, 130, 130, 130, 130] := by decide
example : Obj.all.map (fun o => spec o exI exQ 3) = [3, 7, 7, 230, 230, 242, 240] := by decide
example : InSpace 3 [⟨1, 3, 0, 0, 9, 9⟩, ⟨1, 3, 2, 2, 7, 7⟩] := by decide

/-- **the known finding `int64-wrap`**: `Instance` accepts bins of 10^12 × 10^6; twelve unit items
in twelve bins are a feasible packing whose documented `BinCountAndLastSmall` value
`11·10^18 + 1` exceeds `2^63 - 1`, so no int64 kernel can return it (the real kernels wrap to
`-7446744073709551615`).  The theorems above are about the documented integer value. -/
theorem int64_wrap_witness :
    let I0 : Inst := ⟨1000000000000, 1000000, [⟨1, 1, 12⟩]⟩
    let rows0 : List Row := (List.range 12).map (fun i => ⟨1, (i : Int) + 1, 0, 0, 1, 1⟩)
    I0.Valid ∧ Feasible I0 rows0 12 ∧ (2 : Int) ^ 63 ≤ spec .lastSmall I0 rows0 12 := by
  decide +kernel

end BinObj
