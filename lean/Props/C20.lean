import Proofs.Order1d
import Proofs.Order1dSwap
/-!
# C20 — one-dimensional ordering instances encode neighbour ranks faithfully; swap distance

Property theorems only (helper lemmas live in `Proofs/Order1d.lean`).
-/
namespace Order1d

/-! ## de-duplication (`from_sequence_and_distance`, first half) -/

/-- The purge loop never indexes outside its lists and never exceeds its iteration bound: it
either raises the distance guard's `ValueError` or returns; it returns whenever every distance
the code can ask for (earlier object first) passes the guard `0 ≤ d ≤ 1e100`. -/
theorem dedupe_total (dist : Nat → Nat → Int) (N : Nat) :
    (dedupe dist N = .err ∨ ∃ s, dedupe dist N = .ok s) ∧
    ((∀ a b, a < b → validDist (dist a b) = true) → ∃ s, dedupe dist N = .ok s) := by
  have hp : ([] ++ List.range N).Pairwise (· < ·) := by simpa using List.pairwise_lt_range
  constructor
  · have := outer_total dist N [] (List.range N) [] (by simp) hp
    simpa [dedupe, matOf] using this
  · intro hv
    have := outer_ok_of_valid dist hv N [] (List.range N) [] (by simp) hp
    simpa [dedupe, matOf] using this

/-- **merging clause.** Every original object occurs exactly once in `mappings`; it is mapped to a
kept object which is itself or an *earlier* object at distance zero from it (and then it is not
kept), namely the *first* kept object at distance zero: all kept objects before its
representative are at positive distance.  Kept objects keep their original order and every kept
object is at positive distance from every earlier kept one (distance evaluated with the earlier
object as first argument — the only orientation the code ever evaluates; nothing is guaranteed
about `dist later earlier`, nor about distances between two dropped objects). -/
theorem dedupe_representatives (dist : Nat → Nat → Int) (N : Nat) (s : SeqOut)
    (h : dedupe dist N = .ok s) : DedupeSpec dist N s.kept s.maps := by
  have hp : ([] ++ List.range N).Pairwise (· < ·) := by simpa using List.pairwise_lt_range
  have h' : outer dist N [] (List.range N) (matOf dist [] ([] ++ List.range N)) [] = .ok s := by
    simpa [dedupe, matOf] using h
  obtain ⟨K, M, hk, hm, _, hsub, hpos, hperm, hmaps⟩ :=
    outer_spec dist N [] (List.range N) [] s (by simp) hp (by simp) (by simp) h'
  simp only [List.nil_append] at hk hm hpos hmaps
  rw [hk, hm]
  refine ⟨hperm, ?_, ?_, ?_, ?_⟩
  · exact List.pairwise_lt_range.sublist hsub
  · intro k hk'
    simpa using hsub.subset hk'
  · intro m hm'
    obtain ⟨k, h1, _, h3, h4⟩ := hmaps m hm'
    exact ⟨k, h1, h3, h4⟩
  · intro a ha b hb hab
    have := List.pairwise_iff_getElem.mp hpos a b ha hb hab
    simpa [List.getD_eq_getElem?_getD, List.getElem?_eq_getElem ha, List.getElem?_eq_getElem hb]
      using this

/-- the matrix handed to the constructor is square over the kept objects and holds their
distances, symmetrised by evaluating the earlier object first; the diagonal is zero -/
theorem dedupe_matrix (dist : Nat → Nat → Int) (N : Nat) (s : SeqOut)
    (h : dedupe dist N = .ok s) : MatrixSpec dist s.kept s.rows := by
  have hp : ([] ++ List.range N).Pairwise (· < ·) := by simpa using List.pairwise_lt_range
  have h' : outer dist N [] (List.range N) (matOf dist [] ([] ++ List.range N)) [] = .ok s := by
    simpa [dedupe, matOf] using h
  obtain ⟨K, M, _, _, hr, _⟩ :=
    outer_spec dist N [] (List.range N) [] s (by simp) hp (by simp) (by simp) h'
  rw [hr]
  refine ⟨by simp [matOf], ?_, ?_⟩
  · intro r hr'
    simp only [matOf, List.mem_map] at hr'
    obtain ⟨k, _, rfl⟩ := hr'
    simp
  · intro a ha b hb
    simp [entry, matOf, List.getD_eq_getElem?_getD, List.getElem?_eq_getElem ha,
      List.getElem?_eq_getElem hb]


/-! ## the constructor: positional distances, ranks, flows (integer flow power)

`D` is the matrix of original distances handed to `Instance.__init__`; the theorems hold for
*every* square integer matrix (zeros off the diagonal and asymmetric matrices included), in
particular for the matrix `from_sequence_and_distance` builds (`dedupe_matrix`). -/

/-- **positional distances**: the stored distance matrix is `|i − j|` -/
theorem distances_abs (D : Matrix) (p h : Int) (I : Inst) (hI : mkInstance D p h = .ok I) :
    I.n = D.length ∧ PosDist I.n I.dist ∧
    ∀ i, i < I.n → ∀ j, j < I.n → entry I.dist i j = (((i : Int) - (j : Int)).natAbs : Int) := by
  obtain ⟨_, _, _, hn, _, _, hd, _⟩ := mkInstance_ok D p h I hI
  have key : PosDist I.n I.dist := by
    intro i hi j hj
    rw [hn] at hi hj
    rw [hd]
    simp [entry, List.getD_eq_getElem?_getD, hi, hj]
  refine ⟨hn, key, ?_⟩
  intro i hi j hj
  rw [key i hi j hj]
  split <;> omega

/-- **zero diagonal** -/
theorem flows_diag_zero (D : Matrix) (p h : Int) (I : Inst) (hI : mkInstance D p h = .ok I)
    (hsq : Square D) : DiagZero D.length I.flows := by
  intro i hi
  rw [flows_entry D p h I hI hsq i i hi hi]
  simp

/-- **zero beyond the horizon**: a neighbour whose zero-based average distance rank exceeds the
horizon gets flow zero -/
theorem flows_beyond_horizon_zero (D : Matrix) (p h : Int) (I : Inst)
    (hI : mkInstance D p h = .ok I) (hsq : Square D) : BeyondZero D h I.flows := by
  intro i hi j hj hij hb
  rw [flows_entry D p h I hI hsq i j hi hj]
  have := (beyond_iff D h i j).mp hb
  simp [hij, this]

/-- **equal flows for equally distant neighbours** -/
theorem flows_equal_on_ties (D : Matrix) (p h : Int) (I : Inst)
    (hI : mkInstance D p h = .ok I) (hsq : Square D) : TiesEqual D I.flows := by
  intro i hi j hj k hk ⟨hij, hik, he⟩
  rw [flows_entry D p h I hI hsq i j hi hj, flows_entry D p h I hI hsq i k hi hk,
    r2_eq_of_eq D i j k he]
  simp [hij, hik]

/-- **a nearer neighbour never has a smaller flow than a farther one** -/
theorem flows_antitone (D : Matrix) (p h : Int) (I : Inst)
    (hI : mkInstance D p h = .ok I) (hsq : Square D) : Antitone D I.flows := by
  intro i hi j hj k hk ⟨hij, hik, hle⟩
  have hr := r2_le_of_le D i j k hj hle
  by_cases hbk : 2 * h < r2 D i k
  · -- the farther one lies beyond the horizon: its flow is zero, flows are never negative
    have hk0 : entry I.flows i k = 0 := by
      rw [flows_entry D p h I hI hsq i k hi hk]; simp [hik, hbk]
    rw [hk0]
    by_cases hbj : 2 * h < r2 D i j
    · rw [flows_entry D p h I hI hsq i j hi hj]; simp [hij, hbj]
    · obtain ⟨e, hM⟩ := flow_inside D p h I hI hsq i j hi hj hij hbj
      have := (flowVal_antitone I.doubled I.horizon p.toNat _ _ (Int.le_refl _) hM).2
      omega
  · have hbj : ¬ 2 * h < r2 D i j := by omega
    obtain ⟨ej, _⟩ := flow_inside D p h I hI hsq i j hi hj hij hbj
    obtain ⟨ek, hMk⟩ := flow_inside D p h I hI hsq i k hi hk hik hbk
    rw [ej, ek]
    exact (flowVal_antitone I.doubled I.horizon p.toNat _ _ hr hMk).1

/-- (beyond the statement) flows inside the horizon are positive, so that "zero" means exactly
"beyond the horizon" off the diagonal -/
theorem flows_inside_positive (D : Matrix) (p h : Int) (I : Inst)
    (hI : mkInstance D p h = .ok I) (hsq : Square D) : InsidePos D h I.flows := by
  intro i hi j hj hij hnb
  have hin : ¬ 2 * h < r2 D i j := fun c => hnb ((beyond_iff D h i j).mpr c)
  obtain ⟨e, hM⟩ := flow_inside D p h I hI hsq i j hi hj hij hin
  have := (flowVal_antitone I.doubled I.horizon p.toNat _ _ (Int.le_refl _) hM).2
  omega

/-- (beyond the statement) a strictly nearer neighbour inside the horizon has a strictly larger
flow -/
theorem flows_strict_inside (D : Matrix) (p h : Int) (I : Inst)
    (hI : mkInstance D p h = .ok I) (hsq : Square D) : StrictInside D h I.flows := by
  intro i hi j hj k hk ⟨hij, hik, hlt, hnb⟩
  obtain ⟨hp0, _, _, _, _, hdb, _⟩ := mkInstance_ok D p h I hI
  have hin : ¬ 2 * h < r2 D i j := fun c => hnb ((beyond_iff D h i j).mpr c)
  have hr := r2_lt_of_lt D i j k hj hlt
  obtain ⟨ej, hMj⟩ := flow_inside D p h I hI hsq i j hi hj hij hin
  by_cases hbk : 2 * h < r2 D i k
  · have hk0 : entry I.flows i k = 0 := by
      rw [flows_entry D p h I hI hsq i k hi hk]; simp [hik, hbk]
    rw [hk0]
    have := (flowVal_antitone I.doubled I.horizon p.toNat _ _ (Int.le_refl _) hMj).2
    omega
  · obtain ⟨ek, hMk⟩ := flow_inside D p h I hI hsq i k hi hk hik hbk
    rw [ej, ek]
    apply flowVal_strict I.doubled I.horizon p.toNat (by omega) _ _ hr hMk
    intro hd
    rw [hdb] at hd
    exact ⟨needDouble_false D h hsq hd i j hi hj hij (by omega),
      needDouble_false D h hsq hd i k hi hk hik (by omega)⟩

/-- **end to end**: whatever `from_sequence_and_distance` returns for an integer flow power
satisfies the merging clause, holds the kept objects' distances, and its matrices satisfy every
flow clause of the property with respect to those distances. -/
theorem fromSequence_spec (dist : Nat → Nat → Int) (N : Nat) (p h : Int) (R : Full)
    (hR : fromSequence dist N p h = .ok R) :
    DedupeSpec dist N R.kept R.tags ∧ MatrixSpec dist R.kept R.D ∧
    R.inst.n = R.kept.length ∧ PosDist R.inst.n R.inst.dist ∧
    DiagZero R.D.length R.inst.flows ∧ BeyondZero R.D h R.inst.flows ∧
    TiesEqual R.D R.inst.flows ∧ Antitone R.D R.inst.flows := by
  unfold fromSequence at hR
  split at hR
  · rename_i s hs
    split at hR
    · rename_i I hI
      simp at hR
      subst hR
      simp only []
      have hm := dedupe_matrix dist N s hs
      have hsq : Square s.rows := by
        intro r hr; rw [hm.2.1 r hr, hm.1]
      obtain ⟨hn, hpd, _⟩ := distances_abs s.rows p h I hI
      exact ⟨dedupe_representatives dist N s hs, hm, by rw [hn, hm.1], hpd,
        flows_diag_zero _ p h I hI hsq, flows_beyond_horizon_zero _ p h I hI hsq,
        flows_equal_on_ties _ p h I hI hsq, flows_antitone _ p h I hI hsq⟩
    all_goals simp at hR
  all_goals simp at hR


/-- `from_sequence_and_distance` never indexes outside a list or array and both of its loops end:
for an integer flow power it returns an instance or raises one of its own errors (distance
guard, `flow_power`/`horizon` guard, integer overflow of a flow) -/
theorem fromSequence_total (dist : Nat → Nat → Int) (N : Nat) (p h : Int) :
    fromSequence dist N p h = .err ∨ ∃ R, fromSequence dist N p h = .ok R := by
  unfold fromSequence
  rcases (dedupe_total dist N).1 with he | ⟨s, hs⟩
  · simp [he]
  · simp only [hs]
    have hm := dedupe_matrix dist N s hs
    have hsq : Square s.rows := by
      intro r hr; rw [hm.2.1 r hr, hm.1]
    have hno := mkInstance_ne_oob s.rows p h hsq
    cases hI : mkInstance s.rows p h with
    | ok I => exact Or.inr ⟨_, rfl⟩
    | err => exact Or.inl rfl
    | oob => exact absurd hI hno.1
    | diverge => exact absurd hI hno.2

/-! ## the kernel `swap_distance`

`p1`, `p2` are permutations of `0..n-1` (the arrays handed to the kernel are their images under
`Int.ofNat`).  A *transposition* exchanges the entries at two positions of an array (`swapAt`);
`applySwaps p ss` performs the transpositions `ss` from left to right. -/

/-- **cycle formula**: the kernel returns `n` minus the number of cycles of the permutation `σ`
with `σ(p1[k]) = p2[k]` (cycles counted declaratively: elements that are the smallest of their
orbit). -/
theorem swapDistance_eq_n_minus_cycles (p1 p2 : List Nat) (n : Nat) (h1 : IsPerm p1 n)
    (h2 : IsPerm p2 n) :
    swapDistance (p1.map Int.ofNat) (p2.map Int.ofNat)
      = .ok ((n : Int) - (numCycles (sigma p1 p2) n : Nat)) := swapDistance_perm h1 h2

/-- **no access outside the arrays, termination** (also the C13 clause for this kernel): on two
permutations of equal length every index the kernel uses (fancy indexing `p2[argsort(p1)]`,
`unchecked[j]`, `x[j]`) is inside its array and the `while j != i` walk comes back to `i`; the
result lies in `0..n`. -/
theorem swapDistance_noOOB (p1 p2 : List Nat) (n : Nat) (h1 : IsPerm p1 n) (h2 : IsPerm p2 n) :
    ∃ d : Int, swapDistance (p1.map Int.ofNat) (p2.map Int.ofNat) = .ok d ∧ 0 ≤ d ∧ d ≤ n := by
  refine ⟨_, swapDistance_perm h1 h2, ?_, ?_⟩
  · have := numCycles_le (sigma p1 p2) n
    omega
  · omega

/-- **upper bound, constructive**: there are `swap_distance(p1, p2)` transpositions of two
different positions that turn `p1` into `p2` -/
theorem swapDistance_upper (p1 p2 : List Nat) (n : Nat) (h1 : IsPerm p1 n) (h2 : IsPerm p2 n) :
    ∃ ss : List (Nat × Nat), swapDistance (p1.map Int.ofNat) (p2.map Int.ofNat) = .ok ss.length ∧
      (∀ s ∈ ss, IsTransp n s) ∧ applySwaps p1 ss = p2 := by
  obtain ⟨ss, hl, ht, ha⟩ := upper_bound h2 _ p1 h1 rfl
  refine ⟨ss, ?_, ht, ha⟩
  rw [swapDistance_perm h1 h2, hl]
  have := numCycles_le (sigma p1 p2) n
  congr 1
  omega

/-- **lower bound**: no sequence of exchanges of two positions (even allowing "exchanges" of a
position with itself) that turns `p1` into `p2` is shorter than `swap_distance(p1, p2)`.  Each
exchange changes the number of cycles of what remains to be undone by at most one
(`cls_comp_sw_le`: orbits after the exchange lie inside the old orbits with two of them merged). -/
theorem swapDistance_lower (p1 p2 : List Nat) (n : Nat) (h1 : IsPerm p1 n) (h2 : IsPerm p2 n)
    (ss : List (Nat × Nat)) (hs : ∀ s ∈ ss, s.1 < n ∧ s.2 < n) (h : applySwaps p1 ss = p2) :
    ∃ d : Nat, swapDistance (p1.map Int.ofNat) (p2.map Int.ofNat) = .ok d ∧ d ≤ ss.length := by
  refine ⟨n - numCycles (sigma p1 p2) n, ?_, lower_bound h2 ss p1 h1 hs h⟩
  rw [swapDistance_perm h1 h2]
  have := numCycles_le (sigma p1 p2) n
  congr 1
  omega

/-- **the swap distance is the minimum number of transpositions that turns one permutation into
the other**: the kernel returns a natural number `d` such that some sequence of `d`
transpositions turns `p1` into `p2` and no sequence of transpositions doing so is shorter. -/
theorem swapDistance_is_min_transpositions (p1 p2 : List Nat) (n : Nat) (h1 : IsPerm p1 n)
    (h2 : IsPerm p2 n) :
    ∃ d : Nat, swapDistance (p1.map Int.ofNat) (p2.map Int.ofNat) = .ok d ∧
      (∃ ss : List (Nat × Nat), ss.length = d ∧ (∀ s ∈ ss, IsTransp n s) ∧ applySwaps p1 ss = p2) ∧
      (∀ ss : List (Nat × Nat), (∀ s ∈ ss, IsTransp n s) → applySwaps p1 ss = p2 → d ≤ ss.length) := by
  obtain ⟨ss, hd, ht, ha⟩ := swapDistance_upper p1 p2 n h1 h2
  refine ⟨ss.length, hd, ⟨ss, rfl, ht, ha⟩, ?_⟩
  intro ss' ht' ha'
  obtain ⟨d, hd', hle⟩ := swapDistance_lower p1 p2 n h1 h2 ss' (fun s hs => ⟨(ht' s hs).1, (ht' s hs).2.1⟩) ha'
  rw [hd] at hd'
  have : (ss.length : Int) = (d : Int) := by simpa using hd'
  omega

/-- the kernel is symmetric ("… and vice versa") -/
theorem swapDistance_symm (p1 p2 : List Nat) (n : Nat) (h1 : IsPerm p1 n) (h2 : IsPerm p2 n) :
    swapDistance (p1.map Int.ofNat) (p2.map Int.ofNat)
      = swapDistance (p2.map Int.ofNat) (p1.map Int.ofNat) := by
  obtain ⟨ss, hd, ht, ha⟩ := swapDistance_upper p1 p2 n h1 h2
  obtain ⟨tt, hd', ht', ha'⟩ := swapDistance_upper p2 p1 n h2 h1
  have hr := applySwaps_reverse ss p1 p2 h1 (fun s hs => ⟨(ht s hs).1, (ht s hs).2.1⟩) ha
  have hr' := applySwaps_reverse tt p2 p1 h2 (fun s hs => ⟨(ht' s hs).1, (ht' s hs).2.1⟩) ha'
  obtain ⟨d, e, hle⟩ := swapDistance_lower p2 p1 n h2 h1 ss.reverse
    (fun s hs => by have := ht s (List.mem_reverse.mp hs); exact ⟨this.1, this.2.1⟩) hr
  obtain ⟨d', e', hle'⟩ := swapDistance_lower p1 p2 n h1 h2 tt.reverse
    (fun s hs => by have := ht' s (List.mem_reverse.mp hs); exact ⟨this.1, this.2.1⟩) hr'
  rw [hd, hd']
  rw [hd'] at e
  rw [hd] at e'
  have a1 : (tt.length : Int) = (d : Int) := by simpa using e
  have a2 : (ss.length : Int) = (d' : Int) := by simpa using e'
  simp only [List.length_reverse] at hle hle'
  congr 1
  omega

/-- the distance is zero exactly for equal permutations -/
theorem swapDistance_zero_iff (p1 p2 : List Nat) (n : Nat) (h1 : IsPerm p1 n) (h2 : IsPerm p2 n) :
    swapDistance (p1.map Int.ofNat) (p2.map Int.ofNat) = .ok 0 ↔ p1 = p2 := by
  rw [swapDistance_perm h1 h2]
  have hle := numCycles_le (sigma p1 p2) n
  constructor
  · intro h
    have : (n : Int) - (numCycles (sigma p1 p2) n : Nat) = 0 := by simpa using h
    exact eq_of_numCycles_eq h1 h2 (by omega)
  · intro h
    subst h
    rw [numCycles_id _ n (fun v _ => sigma_self h1 v)]
    simp

/-! ### non-vacuity: concrete non-trivial inputs meet the hypotheses -/

-- four objects at positions 1, 2, 4, 4 with |a − b|: the last one is purged, ranks are tie-free
example : (fromSequence (fun a b => ((([1, 2, 4, 4] : List Int).getD a 0) - (([1, 2, 4, 4] : List Int).getD b 0)).natAbs)
    4 2 100).isOk = true := by decide
-- a matrix with ties inside the horizon (doubled ranks) and an asymmetric one
example : (mkInstance [[0, 1, 1], [1, 0, 1], [2, 1, 0]] 3 2) =
    .ok ⟨3, 2, [[0, 1, 2], [1, 0, 1], [2, 1, 0]], [[0, 27, 27], [27, 0, 27], [8, 64, 0]], true⟩ := by decide
example : IsPerm [4, 8, 1, 5, 9, 3, 6, 0, 7, 2] 10 := by unfold IsPerm; decide
example : numCycles (sigma [0, 1, 2, 3, 4, 5, 6, 7, 8, 9] [4, 8, 1, 5, 9, 3, 6, 0, 7, 2]) 10 = 3 := by
  decide
example : swapDistance ([0, 1, 2, 3, 4, 5, 6, 7, 8, 9].map Int.ofNat)
    ([4, 8, 1, 5, 9, 3, 6, 0, 7, 2].map Int.ofNat) = .ok 7 := by
  rw [swapDistance_eq_n_minus_cycles _ _ 10 (by unfold IsPerm; decide) (by unfold IsPerm; decide)]
  decide
example : applySwaps [0, 1, 2] [(0, 2), (0, 1)] = [1, 2, 0] := by decide

end Order1d
