import Gen.BinCountAndSmall
import Props.C02Gen
/-!
# C02 (tie between source and model) — `Gen/BinCountAndSmall.lean` equals its hand-written model
(see `Props/C02Gen.lean` for the conversion `mat` and the statements about the model alone)
-/
-- the proofs are re-checked against regenerated text: simp sets are deliberately a superset of what one variant needs
set_option linter.unusedSimpArgs false
set_option linter.unusedVariables false

namespace C02Gen
open Pack (Row)
open LoopGen (OptRel StepRel forIn_map_rel_mem)
open Gen.BinCountAndSmall

theorem s_get1?_eq : @get1? = @LoopGen.get1? := rfl
theorem s_get2?_eq : @get2? = @LoopGen.get2? := rfl
theorem s_set1?_eq : @set1? = @LoopGen.set1? := rfl
theorem s_fill1_eq : @fill1 = @LoopGen.fill1 := rfl
theorem s_sliceMin?_eq : @sliceMin? = @LoopGen.sliceMin? := rfl
theorem s_pyRange_eq : @pyRange = @LoopGen.pyRange := rfl

/-- **`bin_count_and_small`: generated code = model**, for every packing, every `bin_area` and every scratch array
`temp`; both sides fail on exactly the same inputs (see `bin_count_and_empty_eq_model`). -/
theorem bin_count_and_small_eq_model (rows : List Row) (binArea : Int) (temp : List Int) :
    bin_count_and_small (mat rows) binArea temp = (BinObj.binCountAndSmall rows binArea temp).toOption := by
  rw [binCountAndSmall_toOption]
  unfold bin_count_and_small
  simp only [s_get1?_eq, s_get2?_eq, s_set1?_eq, s_fill1_eq, s_sliceMin?_eq, s_pyRange_eq, IDX_BIN, IDX_LEFT_X,
    IDX_RIGHT_X, IDX_BOTTOM_Y, IDX_TOP_Y, mat_length, LoopGen.pyRange_zero_ofNat, LoopGen.range_length_eq_zipIdx]
  apply LoopGen.OptRel.eq
  rw [← LoopGen.foldlM_zipIdx_fst _ rows 0]
  refine LoopGen.OptRel.bind (R' := AccRel) ?_ ?_
  · refine forIn_map_rel_mem _ _ _ _ _ ?_ _ _ ⟨rfl, by simp⟩
    rintro ⟨a, i⟩ hmem ⟨t, tb⟩ c ⟨hc, hinv⟩
    subst hc
    have hrow : rows[i]? = some a := List.mem_zipIdx_iff_getElem?.mp hmem
    simp only [get_bin hrow, get_l hrow, get_r hrow, get_b hrow, get_t hrow, accStep, BinObj.rarea,
      Option.bind_eq_bind, Option.bind_some, ← addAt_toOption]
    cases (LoopGen.get1? t (a.bin - 1)) with
    | none => simp [StepRel]
    | some old =>
      simp only [Option.bind_some]
      cases LoopGen.set1? t (a.bin - 1) (old + (a.r - a.l) * (a.t - a.b)) with
      | none => simp [StepRel]
      | some t' => simp [StepRel, AccRel]; omega
  · rintro ⟨t, tb⟩ c ⟨hc, hinv⟩
    subst hc
    simp only [sliceMin_toOption t (tb + 1) (by omega : (0 : Int) ≤ tb + 1), Option.bind_eq_bind]
    cases (BinObj.sliceMin t (tb + 1)).toOption <;> simp [OptRel, Int.add_comm]

/-- the generated function on a concrete packing: bin 1 holds area 4 + 3, bin 2 area 1; bins have area 9 -/
example : bin_count_and_small [[1, 1, 0, 0, 2, 2], [2, 2, 0, 0, 1, 1], [3, 1, 2, 0, 3, 3]] 9 [7, 7, 7] = some (9 * 1 + 1) := by
  decide


end C02Gen
