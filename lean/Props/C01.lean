import Proofs.Ibl
import Proofs.Ibl2
import Proofs.Base
import Proofs.IblDtype
/-!
# C01 — every decoded packing is feasible (both improved-bottom-left encodings, all sizes)

Property theorems only; helper lemmas are in `Proofs/Ibl.lean` (encoding 1, shared geometry) and
`Proofs/Ibl2.lean` (encoding 2).
-/
namespace Ibl
open Pack Base

/-- **termination of the move loop**: with the fuel the model uses, the `while move_down or move_left`
loop stops because neither move is possible (every successful move decreases `bottom + left` by ≥ 1
and both stay non-negative) — the fuel never cuts the loop short. -/
theorem settle_terminates (win : List Row) (cur : Row) (hb : 0 ≤ cur.b) (hl : 0 ≤ cur.l) :
    minDown win (settle (fuelFor cur) win cur) ≤ 0 ∧ minLeft win (settle (fuelFor cur) win cur) ≤ 0 :=
  settle_fuelFor_stable win cur hb hl

/-- the item being dropped never overlaps an item of the window, never leaves the left/bottom/right walls
and keeps its width, height and id, for any number of moves -/
theorem settle_keeps_clear (W : Int) (win : List Row) (hw : ∀ p ∈ win, Row.Proper p) (fuel : Nat) (cur : Row)
    (h : Moving W win cur) : Moving W win (settle fuel win cur) ∧ SameShape (settle fuel win cur) cur :=
  settle_inv W win hw fuel cur h

/-- after the sign rule and the forced rotation the item fits the empty bin (uses `Inst.Valid`:
one side ≤ the smaller bin dimension) and has the instance's dimensions in one orientation -/
theorem rotation_fits (I : Inst) (hv : I.Valid) (v : Int) (hv0 : v ≠ 0) (hr : v.natAbs ≤ I.nTypes) :
    ∃ it w h, dims? I v = some ((v.natAbs : Int), w, h) ∧ I.item? (v.natAbs : Int) = some it ∧
      ((w = it.w ∧ h = it.h) ∨ (w = it.h ∧ h = it.w)) ∧ 1 ≤ w ∧ w ≤ I.W ∧ 1 ≤ h ∧ h ≤ I.H :=
  dims?_spec I hv v hv0 hr

/-- **C01, encoding 1**: for every valid instance, every signed permutation with repetitions of its
item ids and every prior content of the destination, `_decode` never leaves its arrays and produces a
feasible packing whose reported bin count is the number of bins used; rows beyond the permutation are
untouched. -/
theorem decode1_feasible (I : Inst) (hv : I.Valid) (x : List Int) (hx : SignedPermOf I x)
    (y0 : List Row) (hy : x.length ≤ y0.length) :
    ∃ rows k, decode1? I x y0 = some (rows, k) ∧ Feasible I (rows.take x.length) k ∧
      rows.drop x.length = y0.drop x.length := by
  obtain ⟨st, hrun, hinv⟩ := run1_inv I hv x [] _ (inv1_init I) hx.2.1
  simp only [List.nil_append] at hinv
  have hlen : st.done.length = x.length := by
    have := congrArg List.length hinv.ids
    simpa using this
  refine ⟨st.done ++ y0.drop x.length, st.binId, ?_, ?_, ?_⟩
  · unfold decode1?
    rw [if_neg (by omega), hrun]
  · rw [← hlen, List.take_left']
    · apply inv_feasible I hv x hx st.done st.binId hinv.ids hinv.inside hinv.dims hinv.bins hinv.pw
      intro j hj
      by_cases hlt : (j : Int) + 1 < st.binId
      · exact hinv.used j hlt
      · have hne : st.done ≠ [] := by
          intro he
          rw [he] at hlen
          have h1 := Inst.nItems_pos' I hv
          have h2 := hx.1
          simp at hlen
          omega
        obtain ⟨p, hp, hpb⟩ := hinv.usedCur hne
        exact ⟨p, hp, by omega⟩
    · rfl
  · rw [← hlen, List.drop_left']
    rfl

/-- statelessness of encoding 1 (also C14): the packing and bin count do not depend on the prior
content of the destination -/
theorem decode1_stateless (I : Inst) (x : List Int) (y0 y0' : List Row)
    (hy : x.length ≤ y0.length) (hy' : x.length ≤ y0'.length) :
    (decode1? I x y0).map (fun r => (r.1.take x.length, r.2)) =
      (decode1? I x y0').map (fun r => (r.1.take x.length, r.2)) := by
  unfold decode1?
  rw [if_neg (by omega), if_neg (by omega)]
  cases hrun : run1 I x { done := [], binStart := 0, binId := 1 } with
  | none => rfl
  | some st =>
    have hl : st.done.length = x.length := by
      have := run1_length I x _ st hrun
      simpa using this
    simp only [Option.map_some]
    rw [← hl, List.take_left', List.take_left'] <;> rfl

/-- **C01, encoding 2**: for every valid instance, every signed permutation, every prior content of the
destination and of the two scratch arrays (`bin_starts`, `bin_ends`, each with room for one entry per
item), `_decode` never leaves its arrays and produces a feasible packing whose reported bin count is the
number of bins used; rows beyond the permutation are untouched. -/
theorem decode2_feasible (I : Inst) (hv : I.Valid) (x : List Int) (hx : SignedPermOf I x)
    (y0 : List Row) (s0 e0 : List Int) (hy : x.length ≤ y0.length)
    (hs : x.length ≤ s0.length) (hse : s0.length = e0.length) :
    ∃ rows k s e, decode2? I x y0 s0 e0 = some (rows, k, s, e) ∧ Feasible I (rows.take x.length) k ∧
      rows.drop x.length = y0.drop x.length := by
  have hxpos : 0 < x.length := by
    have h1 := Inst.nItems_pos' I hv
    have h2 := hx.1
    omega
  obtain ⟨st, hrun, hinv⟩ := run2_inv I hv x [] _ (inv2_init I s0 e0 hse (by omega)) hx.2.1
    (by simp; omega)
  simp only [List.nil_append] at hinv
  have hlen : st.done.length = x.length := by
    have := congrArg List.length hinv.ids
    simpa using this
  refine ⟨st.done ++ y0.drop x.length, st.binId, st.starts, st.ends, ?_, ?_, ?_⟩
  · unfold decode2?
    rw [if_neg (by omega), if_neg (by omega), hrun]
  · rw [← hlen, List.take_left']
    · have hne : st.done ≠ [] := by intro he; rw [he] at hlen; simp at hlen; omega
      exact inv_feasible I hv x hx st.done st.binId hinv.ids hinv.inside hinv.dims hinv.bins hinv.pw
        (hinv.used hne)
    · rfl
  · rw [← hlen, List.drop_left']
    rfl

/-- **storage type**: every value of a feasible packing (ids, bin numbers, coordinates) lies in
`[0, max(maxDim, nItems)]`, the transient start position `(W−w, H, W, H+h)` of an item reaches at most `maxDim + maxSize`,
and the integer type the instance selects for itself and its packings holds `0 .. max(maxDim + maxSize + 1, nItems + 1)` -/
theorem packing_values_fit_dtype (I : Inst) (hv : I.Valid) (rows : List Row) (k : Int)
    (hf : Feasible I rows k) (t : DType) (ht : I.dtype? = some t) :
    (∀ a ∈ rows, ∀ v ∈ a.toList, t.lo ≤ v ∧ v ≤ t.hi) ∧
    (∀ w h : Int, 1 ≤ w → w ≤ I.W → 1 ≤ h → h ≤ I.maxSize →
      ∀ v ∈ [I.W - w, I.H, I.W, I.H + h], t.lo ≤ v ∧ v ≤ t.hi) := by
  have hkl := bins_le_rows I rows k hf
  have hd := dtypeFor_sound_signed I t ht
  obtain ⟨hlen, hdims, hin, _, _, hbin, _⟩ := hf
  have hms := maxSize_ge I
  obtain ⟨hW, _, hH, _, _, _, hitems, _⟩ := hv
  have hmd : I.W ≤ I.maxDim ∧ I.H ≤ I.maxDim := by unfold Inst.maxDim; omega
  constructor
  · intro a ha v hvv
    obtain ⟨it, hit, hdm⟩ := hdims a ha
    have hid := item?_eq I a.id it hit
    have hmem : it ∈ I.items := by
      unfold Inst.item? at hit
      split at hit
      · simp at hit
      · exact List.mem_of_getElem? hit
    have hi := hitems it hmem
    have hm2 := hms it hmem
    have hb := hbin a ha
    have hi2 := hin a ha
    have hnt : (I.nTypes : Int) ≤ I.nItems := Inst.nTypes_le_nItems I ⟨hW, ‹_›, hH, ‹_›, ‹_›, ‹_›, hitems, ‹_›⟩
    unfold Row.HasDims at hdm
    simp only [Row.toList, List.mem_cons, List.not_mem_nil, or_false] at hvv
    rcases hvv with rfl | rfl | rfl | rfl | rfl | rfl <;> omega
  · intro w h hw1 hw2 hh1 hh2 v hvv
    simp only [List.mem_cons, List.not_mem_nil, or_false] at hvv
    rcases hvv with rfl | rfl | rfl | rfl <;> omega

/-! ### non-vacuity: a concrete valid instance, a signed permutation with a forced rotation, two bins -/
def exI : Inst := ⟨10, 5, [⟨3, 8, 1⟩, ⟨6, 4, 2⟩]⟩
example : exI.Valid := by decide
example : SignedPermOf exI [2, -1, 2] := by decide
example : (decode1? exI [2, -1, 2] [default, default, default]).map (·.2) = some 3 := by decide
example : (decode2? exI [2, -1, 2] [default, default, default] [7, 7, 7] [9, 9, 9]).map (·.2.1) = some 3 := by decide
example : exI.dtype? = some DType.int8 := by decide

end Ibl
