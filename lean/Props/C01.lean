import Model.Ibl
