import Proofs.Tsp
import Proofs.Base
/-!
# C05 — tour length = cyclic edge sum; instance bounds; symmetry flag

Property theorems only (helper lemmas live in `Proofs/Tsp.lean`).
-/
namespace Tsp
open ListLemmas Base

/-- The accumulator loop of `tour_length` equals the documented cyclic edge sum
(consecutive edges plus closing edge), for every matrix and every non-empty tour. -/
theorem tourLen_eq_cyclicSum (d : Matrix) (x : List Nat) (hx : x ≠ []) :
    tourLen d x = cyclicSum d x := tourLen_eq_cyclicSum' d x hx

/-- No access outside the arrays: on an `n × n` matrix and a non-empty tour over `0..n-1`
the checked kernel succeeds and returns the value of the total model. (also C13) -/
theorem tourLen?_noOOB (d : Matrix) (n : Nat) (x : List Nat) (hd : Square d n)
    (hx : x ≠ []) (hr : ∀ c ∈ x, c < n) : tourLen? d x = some (tourLen d x) := by
  have key : ∀ (l : List Nat) (acc : Int) (last : Nat), last < n → (∀ c ∈ l, c < n) →
      tourLenLoop? d l acc last = some (tourLenLoop d l acc last) := by
    intro l
    induction l with
    | nil => intros; rfl
    | cons c r ih =>
      intro acc last hl hc
      have hcn : c < n := hc c (by simp)
      have he : entry? d last c = some (entry d last c) := by
        obtain ⟨h1, h2⟩ := hd
        have hlt : last < d.length := by omega
        have hrow : (d[last]).length = n := h2 _ (List.getElem_mem hlt)
        simp [entry?, entry, List.getElem?_eq_getElem hlt, List.getD_eq_getElem?_getD,
          List.getElem?_eq_getElem (show c < (d[last]).length by omega)]
      simp only [tourLenLoop?, he, tourLenLoop]
      exact ih _ _ hcn (fun c' hc' => hc c' (by simp [hc']))
  cases x with
  | nil => exact absurd rfl hx
  | cons a t =>
    have hlast : ∃ l, (a :: t).getLast? = some l ∧ l < n ∧ (a :: t).getLastD 0 = l := by
      refine ⟨(a :: t).getLast (by simp), List.getLast?_eq_some_getLast _, hr _ (List.getLast_mem _), ?_⟩
      simp [List.getLastD_eq_getLast?, List.getLast?_eq_some_getLast]
    obtain ⟨l, h1, h2, h3⟩ := hlast
    simp only [tourLen?, h1, tourLen, h3]
    exact key _ _ _ h2 hr

/-- every tour length lies between the nearest-neighbour sum and the farthest-neighbour sum
(the bounds the constructor derives), for every permutation of `n ≥ 2` cities.  No sign
assumption on the matrix is needed. -/
theorem tour_between_bounds (d : Matrix) (n : Nat) (x : List Nat) (hn : 2 ≤ n)
    (hp : IsPerm x n) : sumNear d n ≤ tourLen d x ∧ tourLen d x ≤ sumFar d n := by
  have hlen : x.length = n := by simpa using hp.length_eq
  have hx : x ≠ [] := by intro h; subst h; simp at hlen; omega
  have hnd : x.Nodup := hp.nodup_iff.mpr List.nodup_range
  have hmem : ∀ c, c ∈ x ↔ c < n := fun c => by rw [hp.mem_iff]; simp
  rw [tourLen_eq_cyclicSum' d x hx, cyclicSum_eq_pairs d x hx]
  -- the closing edge is no loop
  obtain ⟨h, t, rfl⟩ : ∃ h t, x = h :: t := by
    cases x with
    | nil => exact absurd rfl hx
    | cons h t => exact ⟨h, t, rfl⟩
  have ht : t ≠ [] := by intro h'; subst h'; simp at hlen; omega
  have hf : ∀ l, (h :: t).getLast? = some l → l ≠ (h :: t).headD 0 := by
    intro l hl
    have : l ∈ t := by
      cases t with
      | nil => exact absurd rfl ht
      | cons b r =>
        rw [List.getLast?_cons_cons] at hl
        exact List.mem_of_getLast? hl
    intro heq
    simp at heq
    subst heq
    exact (List.nodup_cons.mp hnd).1 this
  have hpairs := pairsFrom_ne ((h :: t).headD 0) (h :: t) hnd hf
  have hfst := pairsFrom_map_fst ((h :: t).headD 0) (h :: t)
  have hsrc : ∀ (g : Nat → Int),
      ((pairsFrom ((h :: t).headD 0) (h :: t)).map (fun p => g p.1)).sum
        = ((List.range n).map g).sum := by
    intro g
    have : (pairsFrom ((h :: t).headD 0) (h :: t)).map (fun p => g p.1)
        = ((pairsFrom ((h :: t).headD 0) (h :: t)).map Prod.fst).map g := by simp
    rw [this, hfst]
    exact sum_map_perm g hp
  have hin : ∀ p ∈ pairsFrom ((h :: t).headD 0) (h :: t), p.2 < n ∧ p.1 ≠ p.2 := by
    intro p hp'
    obtain ⟨h1, h2⟩ := hpairs p hp'
    refine ⟨?_, h1⟩
    rcases h2 with h2 | h2
    · rw [h2]; exact (hmem _).mp (by simp)
    · exact (hmem _).mp h2
  constructor
  · unfold sumNear
    rw [← hsrc (rowNear d n)]
    apply sum_map_le
    intro p hp'
    exact rowNear_le_entry d n p.1 p.2 (hin p hp').1 (hin p hp').2
  · unfold sumFar
    rw [← hsrc (rowFar d n)]
    apply sum_map_le
    intro p hp'
    exact entry_le_rowFar d n p.1 p.2 (hin p hp').1 (hin p hp').2

/-- What an accepted constructor call guarantees (`none` = the constructor raised). -/
theorem mkInstance_spec (lbG : Int) (M : Matrix) (mult : Int) (I : Inst)
    (h : mkInstance lbG M mult = some I) :
    I.stored = M ∧ I.n = M.length ∧ 2 ≤ I.n ∧ Square M I.n ∧ I.ub = sumFar M I.n ∧
    I.lb = max lbG (sumNear M I.n) ∧ 0 ≤ sumNear M I.n ∧ I.sym = isSymmetricB M I.n ∧
    I.ub ≤ LIMIT + 1 ∧ I.lb ≤ I.ub ∧ (∀ r ∈ M, ∀ v ∈ r, 0 ≤ v) ∧ (∀ i < I.n, entry M i i = 0) := by
  unfold mkInstance at h
  simp only [] at h
  repeat' split at h
  all_goals try (simp at h; done)
  rename_i h1 h2 h3 hnn h4 h5 h6 h7 h8 x t ht h9
  simp at h
  subst h
  simp at h9 h3 hnn h4 h1 h2 h6 h7
  simp
  refine ⟨h9, by omega, ⟨rfl, ?_⟩, by omega, by omega, by omega, hnn, ?_⟩
  · intro r hr; exact h3 r hr
  · exact h4

/-- the symmetry flag is true exactly for symmetric matrices -/
theorem symmetric_flag_iff (M : Matrix) (n : Nat) :
    isSymmetricB M n = true ↔ ∀ i < n, ∀ j < n, entry M i j = entry M j i := by
  unfold isSymmetricB
  simp only [List.all_eq_true, List.mem_range, Bool.or_eq_true, beq_iff_eq]
  constructor
  · intro h i hi j hj
    rcases h i hi j hj with h | h
    · subst h; rfl
    · exact h
  · intro h i hi j hj
    exact Or.inr (h i hi j hj)

theorem partials_bounded (d : Matrix) (hnn : ∀ i j, 0 ≤ entry d i j) (l : List Nat) (acc : Int)
    (last : Nat) (hacc : 0 ≤ acc) :
    ∀ p ∈ tourLenPartials d l acc last, 0 ≤ p ∧ p ≤ tourLenLoop d l acc last := by
  induction l generalizing acc last with
  | nil => simp [tourLenPartials]
  | cons c r ih =>
    intro p hp
    simp only [tourLenPartials, List.mem_cons] at hp
    have h0 := hnn last c
    have mono : ∀ (l : List Nat) (a : Int) (la : Nat), a ≤ tourLenLoop d l a la := by
      intro l
      induction l with
      | nil => intro a la; simp [tourLenLoop]
      | cons c' r' ih' =>
        intro a la
        have := ih' (a + entry d la c') c'
        have := hnn la c'
        simp only [tourLenLoop]; omega
    rcases hp with hp | hp
    · subst hp
      simp only [tourLenLoop]
      exact ⟨by omega, mono _ _ _⟩
    · simp only [tourLenLoop]
      exact ih _ _ (by omega) p hp

/-- the stored matrix equals the given one entry by entry, and every stored entry lies in the
range of the storage type the constructor selected -/
theorem stored_exact_and_fits (lbG : Int) (M : Matrix) (mult : Int) (I : Inst)
    (h : mkInstance lbG M mult = some I) :
    I.stored = M ∧ ∀ r ∈ I.stored, ∀ v ∈ r, I.dtype.lo ≤ v ∧ v ≤ I.dtype.hi := by
  refine ⟨(mkInstance_spec lbG M mult I h).1, ?_⟩
  unfold mkInstance at h
  simp only [] at h
  repeat' split at h
  all_goals try (simp at h; done)
  simp at h
  subst h
  intro r hr v hv
  simp only [List.mem_map] at hr
  obtain ⟨r0, _, rfl⟩ := hr
  simp only [List.mem_map] at hv
  obtain ⟨v0, _, rfl⟩ := hv
  exact wrap_range _ _

/-- **bounds clause**: when the instance derives its own bounds (`lbGiven = 0`), every tour length
of every permutation lies between the instance's lower and upper tour-length bound -/
theorem instance_tour_bounds (M : Matrix) (mult : Int) (I : Inst) (x : List Nat)
    (h : mkInstance 0 M mult = some I) (hp : IsPerm x I.n) :
    I.lb ≤ tourLen I.stored x ∧ tourLen I.stored x ≤ I.ub := by
  obtain ⟨hs, _, hn, _, hub, hlb, hnn, _⟩ := mkInstance_spec 0 M mult I h
  have := tour_between_bounds M I.n x hn hp
  rw [hs, hub, hlb]
  omega

/-- **no overflow**: on a non-negative matrix every intermediate value of the int64 accumulator
lies between 0 and the final tour length (accepted matrices are non-negative), which for an accepted instance is at most
`10^15 + 1 < 2^63` — whatever integer type stores the matrix -/
theorem tourLen_no_overflow (M : Matrix) (mult : Int) (I : Inst) (x : List Nat)
    (h : mkInstance 0 M mult = some I) (hp : IsPerm x I.n) :
    ∀ p ∈ tourLenPartials I.stored x 0 (x.getLastD 0), 0 ≤ p ∧ p < 2 ^ 63 := by
  intro p hp'
  have hb := (instance_tour_bounds M mult I x h hp).2
  obtain ⟨hs, _, _, _, _, _, _, _, hub, _, hnn0, _⟩ := mkInstance_spec 0 M mult I h
  have hnn : ∀ i j, 0 ≤ entry M i j := by
    intro i j
    unfold entry
    by_cases hi : i < M.length
    · by_cases hj : j < (M[i]).length
      · simp only [List.getD_eq_getElem?_getD, List.getElem?_eq_getElem hi, Option.getD_some,
          List.getElem?_eq_getElem hj]
        exact hnn0 _ (List.getElem_mem hi) _ (List.getElem_mem hj)
      · simp [List.getD_eq_getElem?_getD, List.getElem?_eq_getElem hi,
          List.getElem?_eq_none (Nat.le_of_not_lt hj)]
    · simp [List.getD_eq_getElem?_getD, List.getElem?_eq_none (Nat.le_of_not_lt hi)]
  rw [hs] at hp' hb
  have := partials_bounded M hnn x 0 (x.getLastD 0) (by omega) p hp'
  unfold tourLen at hb
  unfold LIMIT at hub
  omega

/-- **the constructor accepts every matrix of the property's domain**: square, n ≥ 2, non-negative, zero
diagonal, a positive off-diagonal entry in every row, bounds within the documented limits — and then the
selected storage type holds every entry (the copy check cannot fire). -/
theorem mkInstance_accepts (lbG : Int) (M : Matrix) (mult : Int) (n : Nat) (hn : 2 ≤ n) (hsq : Square M n)
    (hnn : ∀ r ∈ M, ∀ v ∈ r, 0 ≤ v) (hdiag : ∀ i < n, entry M i i = 0)
    (hpos : ∀ i < n, ∃ j < n, j ≠ i ∧ 0 < entry M i j)
    (hlb : 0 ≤ lbG ∧ lbG ≤ LIMIT) (hnear : sumNear M n ≤ LIMIT)
    (hub : max lbG (sumNear M n) ≤ sumFar M n ∧ sumFar M n ≤ LIMIT + 1)
    (hmult : 1 ≤ mult ∧ mult ≤ 1000000000) (hlim : mult * max (sumFar M n) n ≤ 9223372036854775807) :
    (mkInstance lbG M mult).isSome = true := by
  obtain ⟨hlen, hrows⟩ := hsq
  have hentry_nn : ∀ i j, 0 ≤ entry M i j := by
    intro i j
    unfold entry
    by_cases hi : i < M.length
    · by_cases hj : j < (M[i]).length
      · simp only [List.getD_eq_getElem?_getD, List.getElem?_eq_getElem hi, Option.getD_some,
          List.getElem?_eq_getElem hj]
        exact hnn _ (List.getElem_mem hi) _ (List.getElem_mem hj)
      · simp [List.getD_eq_getElem?_getD, List.getElem?_eq_getElem hi,
          List.getElem?_eq_none (Nat.le_of_not_lt hj)]
    · simp [List.getD_eq_getElem?_getD, List.getElem?_eq_none (Nat.le_of_not_lt hi)]
  have hfarpos : ∀ i < n, 0 < rowFar M n i := by
    intro i hi
    obtain ⟨j, hj, hji, hp⟩ := hpos i hi
    have := entry_le_rowFar M n i j hj (Ne.symm hji)
    omega
  have hnear_nn : 0 ≤ sumNear M n := by
    unfold sumNear
    apply sum_map_nonneg
    intro i _
    unfold rowNear
    exact foldNear_nonneg _ _ _ _ (by omega) (fun j _ => hentry_nn i j)
  -- every entry is at most the farthest-neighbour sum
  have hfar_le : ∀ i < n, rowFar M n i ≤ sumFar M n := by
    intro i hi
    unfold sumFar
    have hsplit : ∀ (l : List Nat), i ∈ l → (∀ k ∈ l, 0 ≤ rowFar M n k) → rowFar M n i ≤ (l.map (rowFar M n)).sum := by
      intro l
      induction l with
      | nil => intro h; simp at h
      | cons a t ih =>
        intro hm hall
        simp only [List.map_cons, List.sum_cons]
        have ha := hall a (by simp)
        have ht : 0 ≤ (t.map (rowFar M n)).sum := sum_map_nonneg t _ (fun k hk => hall k (by simp [hk]))
        simp only [List.mem_cons] at hm
        rcases hm with rfl | hm
        · omega
        · have := ih hm (fun k hk => hall k (by simp [hk])); omega
    exact hsplit (List.range n) (List.mem_range.mpr hi)
      (fun k hk => by have := hfarpos k (List.mem_range.mp hk); omega)
  have hent_le : ∀ r ∈ M, ∀ v ∈ r, v ≤ sumFar M n := by
    intro r hr v hv
    obtain ⟨i, hi, rfl⟩ := List.mem_iff_getElem.mp hr
    obtain ⟨j, hj, rfl⟩ := List.mem_iff_getElem.mp hv
    have hrl : (M[i]).length = n := hrows _ (List.getElem_mem hi)
    rw [← entry_mem M i j hi hj]
    by_cases hij : i = j
    · subst hij
      rw [hdiag i (by omega)]
      have := hfarpos i (by omega); have := hfar_le i (by omega); omega
    · have := entry_le_rowFar M n i j (by omega) hij
      have := hfar_le i (by omega)
      omega
  have hubpos : 0 < sumFar M n := by
    have := hfarpos 0 (by omega); have := hfar_le 0 (by omega); omega
  obtain ⟨t, ht⟩ := dtypeFor_complete (-(mult * max (sumFar M n) n)) (mult * max (sumFar M n) n)
    (by have : 0 ≤ mult * max (sumFar M n) n := Int.mul_nonneg (by omega) (by omega); omega)
    (by omega) hlim
  have hts := dtypeFor_sound _ _ t ht
  have hmx : sumFar M n ≤ mult * max (sumFar M n) ↑n := by
    have h1 : sumFar M n ≤ max (sumFar M n) ↑n := by omega
    have h2 : max (sumFar M n) ↑n ≤ mult * max (sumFar M n) ↑n := by
      have : 0 ≤ max (sumFar M n) ↑n := by omega
      have h3 := Int.mul_le_mul_of_nonneg_right hmult.1 this
      omega
    omega
  have hwrap : M.map (·.map t.wrap) = M := by
    have h1 : M.map (·.map t.wrap) = M.map id := by
      apply List.map_congr_left
      intro r hr
      have h2 : r.map t.wrap = r.map id := by
        apply List.map_congr_left
        intro v hv
        apply wrap_id
        · have := hnn r hr v hv; omega
        · have := hent_le r hr v hv; omega
      simpa using h2
    simpa using h1
  unfold mkInstance
  simp only [hlen]
  rw [if_neg (by omega), if_neg (by omega)]
  rw [if_neg (by simp; intro r hr; exact hrows r hr)]
  rw [if_neg (by simp; intro r hr v hv; exact hnn r hr v hv)]
  rw [if_neg (by simp; intro i hi; exact hdiag i hi)]
  rw [if_neg (by simp; intro i hi; exact hfarpos i hi)]
  rw [if_neg (by omega), if_neg (by omega), if_neg (by omega)]
  simp only [ht, hwrap]
  simp

/-! ### non-vacuity: a concrete asymmetric instance meets the hypotheses -/
example : (mkInstance 0 [[0, 3, 200], [1, 0, 5], [7, 2, 0]] 1).isSome = true := by decide
example : IsPerm [2, 0, 1] 3 := by unfold IsPerm; decide
example : tourLen [[0, 3, 200], [1, 0, 5], [7, 2, 0]] [2, 0, 1] = 15 := by decide

end Tsp
