import Gen.QapEval
import Model.Qap
import Proofs.LoopGen
/-!
# C09 (tie between source and model) — the generated `_evaluate` equals the hand-written model

`Gen/QapEval.lean` is regenerated on every run from the current source of `moptipyapps/qap/objective.py`
(`harness/translate/loop2lean.py`): a shallow embedding of the Python text in the `Option` monad over unbounded
integers.  The hand-written model `Qap.qapEval?` (which all C09 theorems are about) additionally wraps the
accumulator to `int64` after every addition (what the compiled code does).  Wrapping is a ring homomorphism, so
the exact relation for ALL inputs is: *model = int64-wrap of the generated value*, and both answer `none`
(= an access outside an array) on exactly the same inputs.
A semantic change of the kernel changes the generated definition and this file stops checking.
-/
-- the proofs are re-checked against regenerated text: simp sets are deliberately a superset of what one variant needs
set_option linter.unusedSimpArgs false

namespace C09Gen
open Gen.QapEval
open LoopGen (OptRel StepRel forIn_map_rel get2?_ofNat)

/-- the prelude copy inside the generated file is the reference copy of `Proofs/LoopGen.lean` -/
theorem get2?_eq : @get2? = @LoopGen.get2? := rfl
theorem pyEnumerate_eq : @pyEnumerate = @LoopGen.pyEnumerate := rfl

/-- the accessor for index VALUES (negative wrap) is the one of the hand-written model -/
theorem get2?_eq_at2? (m : Qap.Matrix) (r c : Int) : LoopGen.get2? m r c = Qap.at2? m r c := rfl

/-- on loop counters (never negative) it is the model's plain accessor -/
theorem at2?_ofNat (m : Qap.Matrix) (i j : Nat) : Qap.at2? m i j = Qap.entry? m i j := by
  rw [← get2?_eq_at2?, get2?_ofNat]; rfl

/-- wrapping commutes with addition: an accumulator wrapped after every step equals the unbounded accumulator
wrapped once -/
theorem i64_add (a b : Int) : Qap.i64 (Qap.i64 a + b) = Qap.i64 (a + b) := by
  simp only [Qap.i64, Base.DType.wrap, Base.DType.bits, Base.DType.lo, Base.DType.hi]
  repeat' split
  all_goals omega

/-! ### the hand-written loops as folds (statements about the model only) -/

/-- one step of the model's inner loop; `p` = (value `x[j]`, position `j`) -/
def innerStep (f d : Qap.Matrix) (i : Nat) (xi : Int) (acc : Int) (p : Int × Nat) : Option Int :=
  match Qap.entry? f i p.2 with
  | none => none
  | some a =>
    match Qap.at2? d xi p.1 with
    | none => none
    | some b => some (Qap.i64 (acc + a * b))

theorem innerLoop?_eq_foldlM (f d : Qap.Matrix) (i : Nat) (xi : Int) (xs : List Int) (j : Nat) (acc : Int) :
    Qap.innerLoop? f d i xi xs j acc = (xs.zipIdx j).foldlM (innerStep f d i xi) acc := by
  induction xs generalizing j acc with
  | nil => rfl
  | cons xj r ih =>
    simp only [Qap.innerLoop?, List.zipIdx_cons, List.foldlM_cons, innerStep]
    cases Qap.entry? f i j with
    | none => rfl
    | some a =>
      cases Qap.at2? d xi xj with
      | none => rfl
      | some b => exact ih _ _

theorem outerLoop?_eq_foldlM (f d : Qap.Matrix) (x xs : List Int) (i : Nat) (acc : Int) :
    Qap.outerLoop? f d x xs i acc
      = (xs.zipIdx i).foldlM (fun acc p => Qap.innerLoop? f d p.2 p.1 x 0 acc) acc := by
  induction xs generalizing i acc with
  | nil => rfl
  | cons xi r ih =>
    simp only [Qap.outerLoop?, List.zipIdx_cons, List.foldlM_cons]
    cases Qap.innerLoop? f d i xi x 0 acc with
    | none => rfl
    | some a => exact ih _ _

/-! ### generated code = model -/

/-- **generated code = model (up to the int64 accumulator)**, for all matrices (any shape) and all index arrays
(negative and out-of-range values included): the hand-written model returns the `int64` wrap of what the
generated unbounded-integer code returns, and fails (`none` = access outside an array) exactly when it fails.
No well-formedness hypothesis.  (That no wrap happens on the instances the constructor accepts is
`Qap.qapEval_exact` / `Qap.partial_sums_exact` in `Props/C09.lean`.) -/
theorem evaluate_eq_model (x : List Int) (d f : Qap.Matrix) :
    (_evaluate x d f).map Qap.i64 = Qap.qapEval? f d x := by
  unfold _evaluate Qap.qapEval?
  simp only [get2?_eq, pyEnumerate_eq, LoopGen.pyEnumerate, bind_pure, outerLoop?_eq_foldlM]
  apply LoopGen.OptRel.map_eq
  refine forIn_map_rel _ _ _ _ ?_ _ _ _ (show (0 : Int) = Qap.i64 0 by decide)
  -- one execution of the outer body: the inner loop
  rintro ⟨xi, i⟩ s c rfl
  apply LoopGen.StepRel.bind_yield
  rw [innerLoop?_eq_foldlM]
  refine forIn_map_rel _ _ _ _ ?_ _ s (Qap.i64 s) rfl
  -- one execution of the inner body
  rintro ⟨xj, j⟩ s c rfl
  simp only [get2?_eq_at2?, at2?_ofNat, innerStep, i64_add]
  cases Qap.entry? f i j <;> cases Qap.at2? d xi xj <;> simp [StepRel, Int.mul_comm]

/-- the generated function on a concrete non-symmetric instance: `x = [1, 2, 0]`,
`Σ_ij flows[i][j] · distances[x[i]][x[j]]` -/
example : _evaluate [1, 2, 0] [[0, 1, 2], [3, 0, 4], [5, 6, 0]] [[0, 7, 0], [0, 0, 8], [9, 0, 0]]
    = some (7 * 4 + 8 * 5 + 9 * 1) := by decide
/-- a negative index value wraps once (`-1` = last row/column), like numpy/numba -/
example : _evaluate [-1, 0] [[0, 1], [2, 0]] [[0, 3], [5, 0]] = some (3 * 2 + 5 * 1) := by decide
/-- an index value outside the matrix -/
example : _evaluate [0, 2] [[0, 1], [2, 0]] [[0, 3], [5, 0]] = none := by decide

end C09Gen
