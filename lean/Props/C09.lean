import Proofs.Qap
/-!
# C09 — QAP objective = flow-distance double sum within its bounds; storage type; QAPLIB loader

Property theorems only (helper lemmas live in `Proofs/Qap.lean`, the model and the
specification vocabulary in `Model/Qap.lean`).
-/
namespace Qap
open Base ListLemmas

/-! ## the objective kernel -/

/-- **objective = documented double sum.** The accumulator loops of `_evaluate` (over unbounded
integers) equal `Σ_i Σ_j F[i,j] · D[p(i),p(j)]`, for every pair of matrices and every index list. -/
theorem qapEval_eq_sum (f d : Matrix) (p : List Nat) : qapEval f d p = qapSpec f d p :=
  qapEval_eq_spec f d p

/-- **no access outside the arrays (also C13).** For `n × n` matrices and a permutation of
`0..n-1` the checked kernel (with the `int64` wrap of the accumulator) never leaves an array. -/
theorem qapEval_noOOB (f d : Matrix) (n : Nat) (p : List Nat) (hf : Square f n) (hd : Square d n)
    (hp : IsPerm p n) : (qapEval? f d (asInts p)).isSome := by
  have hmem : ∀ c ∈ p, c < n := fun c hc => by simpa using hp.mem_iff.mp hc
  have hlen : p.length = n := by simpa using hp.length_eq
  exact outerLoop?_isSome hf hd p hmem (by omega) p 0 0 (by omega) hmem

/-- **exact in the machine accumulator.** On non-negative `n × n` matrices the compiled kernel
(checked accesses, `int64` accumulator that would wrap) returns exactly the double sum whenever
that sum is below `2^63` — whatever integer type stores the matrices. -/
theorem qapEval_exact (f d : Matrix) (n : Nat) (p : List Nat) (hf : Square f n) (hd : Square d n)
    (nf : NonNeg f) (nd : NonNeg d) (hp : IsPerm p n) (hb : qapSpec f d p < 2 ^ 63) :
    qapEval? f d (asInts p) = some (qapSpec f d p) := by
  have hmem : ∀ c ∈ p, c < n := fun c hc => by simpa using hp.mem_iff.mp hc
  have hlen : p.length = n := by simpa using hp.length_eq
  rw [← qapEval_eq_spec] at hb ⊢
  exact outerLoop?_exact hf hd nf nd p hmem (by omega) p 0 0 (by omega) hmem (by omega) hb

/-- **rearrangement bounds.** For every permutation the double sum lies between "largest flow ×
smallest distance, …" and "largest flow × largest distance, …" (the documented trivial bounds,
over unbounded integers).  No sign assumption is needed. -/
theorem qap_between_trivial_bounds (f d : Matrix) (n : Nat) (p : List Nat) (hf : Square f n)
    (hd : Square d n) (hp : IsPerm p n) :
    lowerZ d f ≤ qapSpec f d p ∧ qapSpec f d p ≤ upperZ d f :=
  qapSpec_between hf hd p hp

/-- **`trivial_bounds` computes the documented bounds.** For non-negative matrices whose
documented upper bound fits `uint64`, none of the `uint64` products and sums of the kernel wraps. -/
theorem trivialBounds_exact (d f : Matrix) (n : Nat) (hd : Square d n) (hf : Square f n)
    (rd : RepU64 d) (rf : RepU64 f) (hub : upperZ d f < 2 ^ 64) :
    trivialBounds d f = (lowerZ d f, upperZ d f) :=
  trivialBounds_eq hd hf rd rf hub

/-- **accumulator exactness in any summation order.** If the trivial upper bound is below `10^15`
then the sum of *every* sub-collection of the products `F[i,j]·D[p(i),p(j)]` — in particular every
intermediate value of the accumulator, in loop order or any re-association — lies in `[0, 2^53)`:
exact in `int64` (what numba 0.60 infers) and even in a `float64` accumulator. -/
theorem partial_sums_exact (f d : Matrix) (n : Nat) (p : List Nat) (hf : Square f n) (hd : Square d n)
    (nf : NonNeg f) (nd : NonNeg d) (hp : IsPerm p n) (hub : upperZ d f < 1000000000000000) :
    ∀ s : List Int, s.Sublist (qapTerms f d p) → 0 ≤ s.sum ∧ s.sum < 2 ^ 53 := by
  intro s hs
  have h1 := sublist_sum_le s _ hs (qapTerms_nonneg nf nd p)
  have h2 := (qapSpec_between hf hd p hp).2
  rw [qapTerms_sum] at h1
  omega

/-! ## the constructor -/

/-- what an accepted constructor call guarantees (`none` = the constructor raised): the shape,
how the bounds combine the kernel's bounds with the given ones, `lb ≤ ub`, the storage type is
`int_range_to_dtype(0, max(ub, max distance, max flow))`, the stored matrices are the `astype`
images of the given ones. -/
theorem mkQap_spec (d f : Matrix) (lbG ubG : Option Int) (I : Inst) (h : mkQap d f lbG ubG = some I) :
    I.n = d.length ∧ Square d I.n ∧ Square f I.n ∧
    (∃ lg ug, checkBound lbG = some lg ∧ checkBound ubG = some ug ∧
      I.lb = pickLb (trivialBounds d f).1 lg ∧ I.ub = pickUb (trivialBounds d f).2 ug) ∧
    I.lb ≤ I.ub ∧
    dtypeFor 0 (max I.ub (max (maxEntry d) (maxEntry f))) = some I.dtype ∧
    I.dists = d.map (·.map I.dtype.wrap) ∧ I.flows = f.map (·.map I.dtype.wrap) :=
  mkQap_some h

/-- **stored = given.** Whenever the constructor returns for non-negative matrices — with or
without given bounds, whatever the bounds are — the stored matrices equal the given ones entry
by entry, and every entry lies in the range of the chosen storage type. -/
theorem stored_matrices_exact (d f : Matrix) (lbG ubG : Option Int) (I : Inst)
    (h : mkQap d f lbG ubG = some I) (nd : NonNeg d) (nf : NonNeg f) :
    I.dists = d ∧ I.flows = f ∧
    (∀ r ∈ I.dists, ∀ v ∈ r, I.dtype.lo ≤ v ∧ v ≤ I.dtype.hi) ∧
    (∀ r ∈ I.flows, ∀ v ∈ r, I.dtype.lo ≤ v ∧ v ≤ I.dtype.hi) := by
  obtain ⟨_, _, _, _, _, ht, hD, hF⟩ := mkQap_some h
  have hs := dtypeFor_sound _ _ _ ht
  have fitsD : ∀ r ∈ d, ∀ v ∈ r, I.dtype.lo ≤ v ∧ v ≤ I.dtype.hi := by
    intro r hr v hv
    have := le_maxEntry hr hv
    have := nd r hr v hv
    omega
  have fitsF : ∀ r ∈ f, ∀ v ∈ r, I.dtype.lo ≤ v ∧ v ≤ I.dtype.hi := by
    intro r hr v hv
    have := le_maxEntry hr hv
    have := nf r hr v hv
    omega
  have eD : I.dists = d := by rw [hD]; exact map_wrap_id fitsD
  have eF : I.flows = f := by rw [hF]; exact map_wrap_id fitsF
  exact ⟨eD, eF, by rw [eD]; exact fitsD, by rw [eF]; exact fitsF⟩

/-- **the property, objective part.** For non-negative matrices whose trivial upper bound stays
below `10^15` and an instance built without given bounds: for every permutation the compiled
objective (on the *stored* matrices, whatever type was selected) returns exactly
`Σ_ij F[i,j]·D[p(i),p(j)]` of the *given* matrices, and that value lies between the instance's
lower and upper bound, which are the documented trivial bounds. -/
theorem qap_instance_correct (d f : Matrix) (I : Inst) (p : List Nat)
    (h : mkQap d f none none = some I) (rd : RepU64 d) (rf : RepU64 f)
    (hub : upperZ d f < 1000000000000000) (hp : IsPerm p I.n) :
    qapEval? I.flows I.dists (asInts p) = some (qapSpec f d p) ∧
    I.lb ≤ qapSpec f d p ∧ qapSpec f d p ≤ I.ub ∧ I.lb = lowerZ d f ∧ I.ub = upperZ d f := by
  obtain ⟨eD, eF, _, _⟩ := stored_matrices_exact d f none none I h (repU64_nonneg rd) (repU64_nonneg rf)
  obtain ⟨_, sd, sf, ⟨lg, ug, hlg, hug, elb, eub⟩, _⟩ := mkQap_some h
  simp [checkBound] at hlg hug
  subst hlg; subst hug
  have tb := trivialBounds_eq sd sf rd rf (by omega)
  simp only [pickLb, pickUb, tb] at elb eub
  have hb := qapSpec_between sf sd p hp
  refine ⟨?_, by omega, by omega, elb, eub⟩
  rw [eD, eF]
  exact qapEval_exact f d I.n p sf sd (repU64_nonneg rf) (repU64_nonneg rd) hp (by omega)

/-- the value part also holds when bounds are given (they only replace `lb`/`ub`): the objective
is the double sum, independent of the bounds and of the storage type they lead to. -/
theorem qap_instance_value_any_bounds (d f : Matrix) (lbG ubG : Option Int) (I : Inst) (p : List Nat)
    (h : mkQap d f lbG ubG = some I) (rd : RepU64 d) (rf : RepU64 f)
    (hub : upperZ d f < 1000000000000000) (hp : IsPerm p I.n) :
    qapEval? I.flows I.dists (asInts p) = some (qapSpec f d p) := by
  obtain ⟨eD, eF, _, _⟩ := stored_matrices_exact d f lbG ubG I h (repU64_nonneg rd) (repU64_nonneg rf)
  obtain ⟨_, sd, sf, _⟩ := mkQap_some h
  have hb := qapSpec_between sf sd p hp
  rw [eD, eF]
  exact qapEval_exact f d I.n p sf sd (repU64_nonneg rf) (repU64_nonneg rd) hp (by omega)

/-! ## the QAPLIB loader -/

/-- **extra spaces.** A line consisting of leading blanks and tokens separated by non-empty runs
of blanks (spaces, tabs, line ends, … — everything `str.split()` cuts at), with or without
trailing blanks, tokenises to exactly its tokens. -/
theorem tokens_layout (lead : List Char) (ts : List (List Char × List Char)) (hl : AllWs lead)
    (h : GoodToks ts) : tokens (layout lead ts) = ts.map Prod.fst :=
  tokens_layout' lead ts hl h

/-- **however the numbers are wrapped into lines.** For every list of lines whose non-blank
lines are: one line with `n`; lines holding together exactly the `n²` flows; lines holding
together exactly the `n²` distances (chunk boundaries arbitrary, blank lines anywhere, anything
after the last distance line) — the parser yields `(n, flows, distances)` and the loader builds
the instance from exactly these matrices, flows first. -/
theorem fromQaplib_wrapping (n : Nat) (F D : List Int) (lines : List Line) (lbG ubG : Option Int)
    (h : GoodWrapping n F D lines) :
    parseQaplib lines = some (n, F, D) ∧
    fromQaplib lines lbG ubG = mkQap (reshape n D) (reshape n F) lbG ubG := by
  have := parseQaplib_complete h
  exact ⟨this, by simp [fromQaplib, this]⟩

/-- **the parser accepts nothing else**: whenever it returns `(n, F, D)`, the text is such a
wrapping of `n`, `F`, `D`. -/
theorem parseQaplib_sound (n : Nat) (F D : List Int) (lines : List Line)
    (h : parseQaplib lines = some (n, F, D)) : GoodWrapping n F D lines :=
  parseQaplib_sound' h

/-- **no silent misparse.** Take any text whose values, in reading order, are `n`, then `n²`
flows, then `n²` distances — wrapped into lines in *any* way.  If the parser returns at all, it
returns `(n, F, D)`; it never yields a different instance. -/
theorem fromQaplib_no_silent_misparse (n n' : Nat) (F D F' D' : List Int) (lines : List Line)
    (hv : valsOf lines = some ((n : Int) :: (F ++ D))) (hF : F.length = n * n) (hD : D.length = n * n)
    (h : parseQaplib lines = some (n', F', D')) : n' = n ∧ F' = F ∧ D' = D := by
  obtain ⟨pre, nl, t, fl, dl, post, e, hpre, hnl, ht, hfl, hF', hdl, hD'⟩ := parseQaplib_sound' h
  rw [e] at hv
  obtain ⟨v1, v2, a1, a2, a3⟩ := valsOf_append_inv hv
  rw [valsOf_blank hpre] at a1
  obtain ⟨r, rs, b1, b2, b3⟩ := valsOf_cons a2
  rw [rowOf_nline hnl ht] at b1
  obtain ⟨w1, w2, c1, c2, c3⟩ := valsOf_append_inv b2
  obtain ⟨u1, u2, d1, d2, d3⟩ := valsOf_append_inv c1
  rw [hfl] at d1
  rw [hdl] at d2
  simp at a1 b1 d1 d2
  subst a1; subst b1; subst d1; subst d2; subst d3; subst c3; subst b3
  simp at a3
  obtain ⟨hn, hrest⟩ := a3
  have hn' : n' = n := by omega
  subst hn'
  have h1 := List.append_inj hrest (by omega)
  have h2 := List.append_inj (show D ++ [] = D' ++ _ by simpa using h1.2) (show D.length = D'.length by omega)
  exact ⟨rfl, h1.1.symm, h2.1.symm⟩

/-- **a line that contains the end of the flows and the beginning of the distances.** All its
values are appended to the flows (the `map` iterator is consumed by `flows.extend`), the flow
count exceeds `n²`, and the loader raises — whatever follows. -/
theorem fromQaplib_straddle_raises (n : Nat) (pre fl rest : List Line) (nl s : Line) (t : List Char)
    (vs : List Int) (lbG ubG : Option Int)
    (hpre : ∀ l ∈ pre, Blank l) (hnl : tokens nl = [t]) (ht : toIntRange 1 1000000 t = some (n : Int))
    (hfl : valsOf fl = some vs) (hlt : vs.length < n * n)
    (hs : ∀ r, rowOf s = some r → n * n < (vs ++ r).length) :
    fromQaplib (pre ++ nl :: (fl ++ s :: rest)) lbG ubG = none := by
  have hn2 : 0 < n * n := by omega
  have key : run1 (n * n) [] vs (s :: rest) = none ∨
      ∃ st F' D', run1 (n * n) [] vs (s :: rest) = some (st, F', D') ∧ F'.length ≠ n * n := by
    simp only [run1]
    by_cases hb : (tokens s).isEmpty = true
    · have := hs [] (rowOf_blank (List.isEmpty_iff.mp hb))
      simp at this
      omega
    · rw [if_neg hb]
      cases hr : rowOf s with
      | none => exact Or.inl rfl
      | some r =>
        have hgt := hs r hr
        have hc : (vs ++ r).length ≥ n * n := by omega
        simp only [if_pos hc]
        cases h2 : run2 (n * n) (vs ++ r) [] rest with
        | none => exact Or.inl rfl
        | some res =>
          have := run2_flows h2
          obtain ⟨st, fl', ds⟩ := res
          simp only at this
          subst this
          exact Or.inr ⟨st, _, ds, rfl, by omega⟩
  have hp : parseQaplib (pre ++ nl :: (fl ++ s :: rest)) = none := by
    unfold parseQaplib
    rw [run0_skip pre _ hpre]
    simp only [run0, hnl, ht, Int.toNat_natCast]
    rw [run1_prefix (n * n) hn2 fl [] vs _ hfl (by simpa using hlt)]
    simp only [List.nil_append]
    rcases key with k | ⟨st, F', D', k, hne⟩
    · rw [k]; rfl
    · rw [k]
      simp [hne]
  simp [fromQaplib, hp]

/-- **`n` must stand alone on its line**: a first non-blank line with more than one token raises. -/
theorem fromQaplib_n_not_alone_raises (pre rest : List Line) (nl : Line) (t1 t2 : List Char)
    (ts : List (List Char)) (lbG ubG : Option Int) (hpre : ∀ l ∈ pre, Blank l)
    (hnl : tokens nl = t1 :: t2 :: ts) : fromQaplib (pre ++ nl :: rest) lbG ubG = none := by
  have hp : parseQaplib (pre ++ nl :: rest) = none := by
    unfold parseQaplib
    rw [run0_skip pre _ hpre]
    simp [run0, hnl]
  simp [fromQaplib, hp]

/-- **the loader yields exactly the size and the two matrices the text lists, flows first.**
For a good wrapping of `n`, `F`, `D`, whenever the loader returns an instance, its size is `n`
and its stored flows / distances are the row-major `n × n` arrangements of `F` / `D`
(reading them row by row gives `F` / `D` back), in a storage type that holds them. -/
theorem fromQaplib_yields_listed (n : Nat) (F D : List Int) (lines : List Line) (lbG ubG : Option Int)
    (I : Inst) (h : GoodWrapping n F D lines) (hI : fromQaplib lines lbG ubG = some I) :
    I.n = n ∧ I.flows = reshape n F ∧ I.dists = reshape n D ∧
    I.flows.flatten = F ∧ I.dists.flatten = D := by
  have hw := fromQaplib_wrapping n F D lines lbG ubG h
  rw [hw.2] at hI
  obtain ⟨pre, nl, t, fl, dl, post, e, hpre, hnl, ht, hfl, hF, hdl, hD⟩ := h
  have nF : NonNeg (reshape n F) := fun r hr v hv => (valsOf_range hfl v (reshape_mem hr hv)).1
  have nD : NonNeg (reshape n D) := fun r hr v hv => (valsOf_range hdl v (reshape_mem hr hv)).1
  obtain ⟨eD, eF, _, _⟩ := stored_matrices_exact _ _ lbG ubG I hI nD nF
  obtain ⟨hn, _⟩ := mkQap_some hI
  refine ⟨by rw [hn, reshape_length], eF, eD, ?_, ?_⟩
  · rw [eF, reshape_flatten n F hF]
  · rw [eD, reshape_flatten n D hD]

/-! ## non-vacuity: concrete inputs meet the hypotheses -/

section Examples

/-- the doctest matrices of `trivial_bounds` -/
def exD : Matrix := [[0, 1, 2], [3, 0, 4], [5, 6, 0]]
def exF : Matrix := [[0, 95, 86], [23, 0, 55], [24, 43, 0]]

theorem ex_sortD : sortAsc exD.flatten = [0, 0, 0, 1, 2, 3, 4, 5, 6] :=
  sortAsc_eq (by unfold Sorted; decide) (by decide)
theorem ex_sortF : sortAsc exF.flatten = [0, 0, 0, 23, 24, 43, 55, 86, 95] :=
  sortAsc_eq (by unfold Sorted; decide) (by decide)

example : Square exD 3 ∧ Square exF 3 ∧ RepU64 exD ∧ RepU64 exF := by
  refine ⟨by decide, by decide, ?_, ?_⟩ <;> (unfold RepU64; decide)
example : upperZ exD exF = 1420 ∧ lowerZ exD exF = 160 := by
  unfold upperZ lowerZ; rw [ex_sortD, ex_sortF]; decide
theorem ex_bounds : trivialBounds exD exF = (160, 1420) := by
  rw [trivialBounds_exact exD exF 3 (by decide) (by decide) (by unfold RepU64; decide) (by unfold RepU64; decide)
    (by unfold upperZ; rw [ex_sortD, ex_sortF]; decide)]
  unfold upperZ lowerZ; rw [ex_sortD, ex_sortF]; decide
/-- the constructor accepts the pair and selects `int16` for `ub = 1420` -/
example : mkQap exD exF none none
    = some { n := 3, lb := 160, ub := 1420, dtype := DType.int16, dists := exD, flows := exF } := by
  simp only [mkQap, ex_bounds, checkBound, pickLb, pickUb]
  decide
example : IsPerm [2, 0, 1] 3 := by unfold IsPerm; decide
example : qapEval? exF exD (asInts [2, 0, 1]) = some 1317 ∧ qapSpec exF exD [2, 0, 1] = 1317 := by decide
/-- a good wrapping: `"2" / "1 2 3" / "" / " 4 " / "5 6" / "7<TAB>8" / "x"` -/
example : parseQaplib ["2".toList, "1 2 3".toList, "".toList, " 4 ".toList, "5 6".toList, "7\t8".toList, "x".toList]
    = some (2, [1, 2, 3, 4], [5, 6, 7, 8]) := by decide
/-- the same tokens with a straddling line are rejected -/
example : parseQaplib ["2".toList, "1 2 3".toList, "4 5".toList, "6 7 8".toList] = none := by decide
example : GoodToks [("12".toList, "  ".toList), ("7".toList, "\t".toList), ("+3".toList, [])] := by
  simp only [GoodToks, TokOK, AllWs]; decide

end Examples

end Qap
