import Proofs.TtpErrors
/-!
# C07 — TTP error count is zero exactly for feasible schedules

Property theorems only (helper lemmas live in `Proofs/TtpErrors.lean`).  `countErrors?` is the
array-level model of the kernel `count_errors` (`none` = the kernel leaves an array or divides by
zero), `FeasiblePlan`, `Consistent`, `documentedCount` are the specification, `upperBound` is
`Errors.upper_bound`.
-/
namespace TtpErrors

/-- *"for every plan it is non-negative"*: whatever the kernel returns — for any plan, any
constraint settings and any scratch arrays — is `≥ 0`. -/
theorem countErrors_nonneg (n : Nat) (p : Plan) (c : Cfg) (t1 : List Int) (t2 : List (List Int)) (v : Int)
    (h : countErrors? n p c t1 t2 = some v) : 0 ≤ v := by
  unfold countErrors? at h
  cases he : countErrs? n p c t1 t2 with
  | none => simp [he] at h
  | some e =>
    simp only [he, Option.map_some, Option.some.injEq] at h
    subst h
    obtain ⟨a1, a2, a3, a4, a5, a6, a7, a8⟩ := countErrs?_nonneg he
    unfold Errs.total; omega

/-- The result (including whether the kernel leaves an array) does not depend on what the
scratch arrays `temp_1`, `temp_2` contained before the call, only on their shapes. -/
theorem scratch_irrelevant (n : Nat) (p : Plan) (c : Cfg) (t1 t1' : List Int) (t2 t2' : List (List Int))
    (h1 : t1.length = t1'.length) (h2 : t2.map List.length = t2'.map List.length) :
    countErrors? n p c t1 t2 = countErrors? n p c t1' t2' := by
  obtain ⟨e1, e2⟩ := scratch_fill t1 t1' t2 t2' h1 h2
  unfold countErrors? countErrs?
  simp only [e1, e2]

/-- C13 clause for this kernel: on every plan of the game-plan space (`D × n`, entries in `-n..n`,
*including* entries that list a team against itself and byes), for **every** setting of the six
constraint parameters and scratch arrays of the sizes `Errors.__init__` allocates, the kernel
stays inside its arrays and returns a value; that value is the one for clean scratch arrays. -/
theorem countErrors_noOOB (n rounds : Nat) (c : Cfg) (p : Plan) (t1 : List Int) (t2 : List (List Int))
    (hn : 2 ≤ n) (hp : InSpace n rounds p) (hsc : ScratchOk n t1 t2) :
    ∃ v, countErrors? n p c t1 t2 = some v ∧ countErrors n p c = some v := by
  refine ⟨(pureErrs n rounds c p).total, ?_, ?_⟩
  · unfold countErrors?; rw [countErrs?_eq n rounds c p t1 t2 hn hp hsc]; rfl
  · unfold countErrors countErrors?
    rw [countErrs?_eq n rounds c p _ _ hn hp
      ⟨by simp, by simp, by intro r hr; rw [List.mem_replicate] at hr; simp [hr.2]⟩]
    rfl

/-- *"For mutually consistent plans its value equals the documented per-rule count"*, for every
constraint setting the `Instance` constructor accepts. -/
theorem countErrors_eq_documented (n rounds : Nat) (c : Cfg) (p : Plan) (t1 : List Int)
    (t2 : List (List Int)) (hn : 2 ≤ n) (hp : InSpace n rounds p) (hcfg : c.Accepted n rounds)
    (hsc : ScratchOk n t1 t2) (hc : Consistent n p) :
    countErrors? n p c t1 t2 = some (documentedCount n rounds c p) := by
  obtain ⟨_, h2, _, _, h5, _, _, h8, _⟩ := hcfg
  unfold countErrors?
  rw [countErrs?_eq n rounds c p t1 t2 hn hp hsc]
  simp only [Option.map_some]
  rw [pureErrs_total_doc n rounds c p (by omega) (by omega) h8 hp hc]

/-- **Main theorem.** For every plan of the game-plan space and every constraint setting the
`Instance` constructor accepts, the objective is `0` if and only if the plan is a feasible
round-robin schedule. -/
theorem countErrors_zero_iff (n rounds : Nat) (c : Cfg) (p : Plan) (t1 : List Int)
    (t2 : List (List Int)) (hn : 2 ≤ n) (hp : InSpace n rounds p) (hcfg : c.Accepted n rounds)
    (hsc : ScratchOk n t1 t2) :
    countErrors? n p c t1 t2 = some 0 ↔ FeasiblePlan n rounds c p := by
  have hacc := hcfg
  obtain ⟨_, h2, _, _, h5, _, _, h8, _⟩ := hcfg
  have heq : countErrors? n p c t1 t2 = some (pureErrs n rounds c p).total := by
    unfold countErrors?; rw [countErrs?_eq n rounds c p t1 t2 hn hp hsc]; rfl
  rw [heq, Option.some.injEq]
  constructor
  · intro h0
    obtain ⟨a1, a2, a3, a4, a5, a6, a7, a8⟩ := pureErrs_nonneg n rounds c p hn hp
    have hinc : (pureErrs n rounds c p).incons = 0 := by unfold Errs.total at h0; omega
    have hc : Consistent n p := (incons_zero_iff n p).mp hinc
    rw [pureErrs_total_doc n rounds c p (by omega) (by omega) h8 hp hc] at h0
    exact (feasible_iff_doc_conditions n rounds c p hp hc).mp ((doc_zero_iff n rounds c p).mp h0)
  · intro hf
    have hc : Consistent n p := hf.2.1
    rw [pureErrs_total_doc n rounds c p (by omega) (by omega) h8 hp hc]
    exact (doc_zero_iff n rounds c p).mpr ((feasible_iff_doc_conditions n rounds c p hp hc).mpr hf)

/-! ## The declared upper bound `(4·D − 1)·n − 1`

The clause *"for every plan it … does not exceed the declared upper bound"* is **false for the code**
(finding `upper_bound_exceeded`): `upperBound_claim_false` below.  What holds, and is proved, is the
bound on the class of mutually consistent plans (byes allowed) under settings whose three minima are
`≤ 1` and whose `separation_max` can never bind (`≥ D − 2`) — this covers every shipped instance.
Each of these hypotheses is necessary: `example`s below. -/

/-- the clause at full strength (NOT a theorem; refuted by `upperBound_claim_false`) -/
def UpperBoundClaim : Prop :=
  ∀ (n rounds : Nat) (c : Cfg) (p : Plan) (t1 : List Int) (t2 : List (List Int)) (v : Int),
    2 ≤ n → 1 ≤ rounds → InSpace n rounds p → c.Accepted n rounds → ScratchOk n t1 t2 →
    countErrors? n p c t1 t2 = some v → v ≤ upperBound n rounds

/-- **Partial** upper-bound clause.  Added hypotheses (relative to `UpperBoundClaim`): the plan is
mutually consistent, `home_streak_min ≤ 1`, `away_streak_min ≤ 1`, `separation_min ≤ 1` and
`separation_max ≥ D − 2` with `D = (n−1)·rounds`. -/
theorem countErrors_le_upper_partial (n rounds : Nat) (c : Cfg) (p : Plan) (t1 : List Int)
    (t2 : List (List Int)) (hn : 2 ≤ n) (hr : 1 ≤ rounds) (hp : InSpace n rounds p)
    (hcfg : c.Accepted n rounds) (hsc : ScratchOk n t1 t2) (hc : Consistent n p)
    (h1 : c.hmin ≤ 1) (h3 : c.amin ≤ 1) (h5 : c.smin ≤ 1)
    (h6 : (((n - 1) * rounds : Nat) : Int) - 2 ≤ c.smax) :
    ∃ v, countErrors? n p c t1 t2 = some v ∧ 0 ≤ v ∧ v ≤ upperBound n rounds := by
  have heq := countErrors_eq_documented n rounds c p t1 t2 hn hp hcfg hsc hc
  obtain ⟨_, a2, _, _, a5, _, _, _, _⟩ := hcfg
  refine ⟨_, heq, countErrors_nonneg n p c t1 t2 _ heq, ?_⟩
  exact doc_le_upper n rounds c p hn hr hp hc h1 (by omega) h3 (by omega) h5 h6

/-! ### witnesses -/

/-- every team "at home" against the next one, every day (in the space, not consistent) -/
def wCyclic : Plan := List.replicate 6 [2, 3, 4, 1]
/-- the same two mirrored days alternating (consistent) -/
def wAlternating : Plan := [[2, -1, 4, -3], [-2, 1, -4, 3], [2, -1, 4, -3], [-2, 1, -4, 3], [2, -1, 4, -3], [-2, 1, -4, 3]]
/-- the same day six times (consistent) -/
def wSameDay : Plan := List.replicate 6 [2, -1, 4, -3]
/-- ten teams, four rounds: a single round robin (circle method) played forth, back, forth, back -/
def wMirrored : Plan :=
  [[10, 9, 8, 7, 6, -5, -4, -3, -2, -1],
   [9, 7, 6, 5, -4, -3, -2, 10, -1, -8],
   [8, 5, 4, -3, -2, 10, 9, -1, -7, -6],
   [7, 3, -2, 10, 9, 8, -1, -6, -5, -4],
   [6, 10, 9, 8, 7, -1, -5, -4, -3, -2],
   [5, 8, 7, 6, -1, -4, -3, -2, 10, -9],
   [4, 6, 5, -1, -3, -2, 10, 9, -8, -7],
   [3, 4, -1, -2, 10, 9, 8, -7, -6, -5],
   [2, -1, 10, 9, 8, 7, -6, -5, -4, -3],
   [2, -1, 10, 9, 8, 7, -6, -5, -4, -3],
   [3, 4, -1, -2, 10, 9, 8, -7, -6, -5],
   [4, 6, 5, -1, -3, -2, 10, 9, -8, -7],
   [5, 8, 7, 6, -1, -4, -3, -2, 10, -9],
   [6, 10, 9, 8, 7, -1, -5, -4, -3, -2],
   [7, 3, -2, 10, 9, 8, -1, -6, -5, -4],
   [8, 5, 4, -3, -2, 10, 9, -1, -7, -6],
   [9, 7, 6, 5, -4, -3, -2, 10, -1, -8],
   [10, 9, 8, 7, 6, -5, -4, -3, -2, -1],
   [10, 9, 8, 7, 6, -5, -4, -3, -2, -1],
   [9, 7, 6, 5, -4, -3, -2, 10, -1, -8],
   [8, 5, 4, -3, -2, 10, 9, -1, -7, -6],
   [7, 3, -2, 10, 9, 8, -1, -6, -5, -4],
   [6, 10, 9, 8, 7, -1, -5, -4, -3, -2],
   [5, 8, 7, 6, -1, -4, -3, -2, 10, -9],
   [4, 6, 5, -1, -3, -2, 10, 9, -8, -7],
   [3, 4, -1, -2, 10, 9, 8, -7, -6, -5],
   [2, -1, 10, 9, 8, 7, -6, -5, -4, -3],
   [2, -1, 10, 9, 8, 7, -6, -5, -4, -3],
   [3, 4, -1, -2, 10, 9, 8, -7, -6, -5],
   [4, 6, 5, -1, -3, -2, 10, 9, -8, -7],
   [5, 8, 7, 6, -1, -4, -3, -2, 10, -9],
   [6, 10, 9, 8, 7, -1, -5, -4, -3, -2],
   [7, 3, -2, 10, 9, 8, -1, -6, -5, -4],
   [8, 5, 4, -3, -2, 10, 9, -1, -7, -6],
   [9, 7, 6, 5, -4, -3, -2, 10, -1, -8],
   [10, 9, 8, 7, 6, -5, -4, -3, -2, -1]]

/-- shipped setting of `circ4` (streaks 1..3, separation 1..6): `96 > 91`.  All hypotheses of the
partial theorem hold except mutual consistency. -/
example : InSpace 4 2 wCyclic ∧ (⟨1, 3, 1, 3, 1, 6⟩ : Cfg).Accepted 4 2 ∧ ¬ Consistent 4 wCyclic ∧
    countErrors 4 wCyclic ⟨1, 3, 1, 3, 1, 6⟩ = some 96 ∧ upperBound 4 2 = 91 := by decide

/-- the full-strength clause is false for the code -/
theorem upperBound_claim_false : ¬ UpperBoundClaim := by
  intro h
  have := h 4 2 ⟨1, 3, 1, 3, 1, 6⟩ wCyclic (List.replicate 6 0) (List.replicate 4 (List.replicate 4 0)) 96
    (by decide) (by decide) (by decide) (by decide) (by decide) (by decide)
  exact absurd this (by decide)

/-- only `home_streak_min ≤ 1` dropped (consistent plan): `98 > 91` -/
example : InSpace 4 2 wAlternating ∧ (⟨7, 7, 1, 7, 1, 6⟩ : Cfg).Accepted 4 2 ∧ Consistent 4 wAlternating ∧
    countErrors 4 wAlternating ⟨7, 7, 1, 7, 1, 6⟩ = some 98 ∧ upperBound 4 2 = 91 := by decide

/-- only `away_streak_min ≤ 1` dropped: `98 > 91` -/
example : (⟨1, 7, 7, 7, 1, 6⟩ : Cfg).Accepted 4 2 ∧
    countErrors 4 wAlternating ⟨1, 7, 7, 7, 1, 6⟩ = some 98 := by decide

/-- only `separation_min ≤ 1` dropped (consistent plan): `96 > 91` -/
example : InSpace 4 2 wSameDay ∧ (⟨1, 7, 1, 7, 7, 7⟩ : Cfg).Accepted 4 2 ∧ Consistent 4 wSameDay ∧
    countErrors 4 wSameDay ⟨1, 7, 1, 7, 7, 7⟩ = some 96 ∧ upperBound 4 2 = 91 := by decide

/-- the original witness of the design phase (all three minima large): `134 > 91` -/
example : countErrors 4 wAlternating ⟨3, 7, 3, 7, 7, 7⟩ = some 134 := by decide

/-- only `separation_max ≥ D − 2` dropped (consistent plan, all minima `≤ 1`, ten teams, four
rounds, separation 0..0): `1461 > 1429` -/
example : InSpace 10 4 wMirrored ∧ (⟨1, 1, 1, 1, 0, 0⟩ : Cfg).Accepted 10 4 ∧ Consistent 10 wMirrored ∧
    countErrors 10 wMirrored ⟨1, 1, 1, 1, 0, 0⟩ = some 1461 ∧ upperBound 10 4 = 1429 := by decide +kernel

/-! ### the hypotheses of the main theorems are satisfiable by non-trivial inputs -/

/-- the second docstring example: a feasible double round robin for four teams -/
def wFeasible : Plan :=
  [[2, -1, 4, -3], [4, 3, -2, -1], [-2, 1, -4, 3], [3, 4, -1, -2], [-4, -3, 2, 1], [-3, -4, 1, 2]]

example : InSpace 4 2 wFeasible ∧ (⟨1, 3, 1, 3, 1, 2⟩ : Cfg).Accepted 4 2 ∧
    ScratchOk 4 [9, 8, 7, 6, 5, 4] [[1, 2, 3, 4], [5, 6, 7, 8], [9, 1, 2, 3], [4, 5, 6, 7]] ∧
    FeasiblePlan 4 2 ⟨1, 3, 1, 3, 1, 2⟩ wFeasible ∧
    countErrors? 4 wFeasible ⟨1, 3, 1, 3, 1, 2⟩ [9, 8, 7, 6, 5, 4] [[1, 2, 3, 4], [5, 6, 7, 8], [9, 1, 2, 3], [4, 5, 6, 7]]
      = some 0 := by decide

/-- the first docstring example with two errors (a separation violation of two games): consistent,
not feasible, value = documented count -/
example : Consistent 4 [[2, -1, 4, -3], [4, 3, -2, -1], [-2, 1, -4, 3], [-4, -3, 2, 1], [3, 4, -1, -2], [-3, -4, 1, 2]] ∧
    ¬ FeasiblePlan 4 2 ⟨1, 3, 1, 3, 1, 2⟩
      [[2, -1, 4, -3], [4, 3, -2, -1], [-2, 1, -4, 3], [-4, -3, 2, 1], [3, 4, -1, -2], [-3, -4, 1, 2]] ∧
    documentedCount 4 2 ⟨1, 3, 1, 3, 1, 2⟩
      [[2, -1, 4, -3], [4, 3, -2, -1], [-2, 1, -4, 3], [-4, -3, 2, 1], [3, 4, -1, -2], [-3, -4, 1, 2]] = 2 := by decide

/-- a plan that lists the last team against itself is in the space, and the kernel stays in range
(the C13 defect repaired by bc86a40) -/
example : InSpace 2 1 [[2, 2]] ∧ countErrors 2 [[2, 2]] ⟨1, 1, 1, 1, 0, 1⟩ = some 2 := by decide

end TtpErrors
