import Proofs.TtpLength
/-!
# C08 — TTP travel length matches the tournament model and penalises byes

Property theorems only (helper lemmas live in `Proofs/TtpLength.lean`).  The optimum clause of
the property (four-team benchmark instances) is a finite table and is checked by exhaustive
enumeration in `harness/c08.py`; it is *not* a theorem.
-/
namespace TtpLength
open Base Tsp ListLemmas

/-- **formula clause**: the kernel's value (per-team walk with current location, `continue` on
bye and on no-move, return leg) equals the documented tournament model — every team's
itinerary home → venue of each game → home, plus the penalty per day without a game — for
*every* plan, every matrix and every penalty (no assumption at all on the total model). -/
theorem planLength_eq_walk (y : Plan) (n : Nat) (d : Matrix) (pen : Int) :
    planLength y n d pen = walkLength y n d pen := by
  unfold planLength walkLength
  rw [teamsLoop_eq]; omega

/-- **no access outside the arrays** (C13 clause): for an `n × n` matrix and a plan whose rows have
`n` entries in `-n..n` (any number of days) the checked kernel never leaves `y` or `distances`
and returns the value of the total model. -/
theorem planLength?_noOOB (y : Plan) (n : Nat) (d : Matrix) (pen : Int) (hd : Square d n)
    (hy : ∀ r ∈ y, r.length = n ∧ ∀ v ∈ r, -(n : Int) ≤ v ∧ v ≤ n) :
    planLength? y n d pen = some (planLength y n d pen) :=
  teamsLoop?_noOOB y d pen n hd hy (List.range n) (fun t h => by simpa using h) 0

/-- formula clause for the real (checked) kernel on plans of the space -/
theorem planLength?_eq_walk (y : Plan) (n rounds : Nat) (d : Matrix) (pen : Int) (hd : Square d n)
    (hy : InSpace y n rounds) : planLength? y n d pen = some (walkLength y n d pen) := by
  rw [planLength?_noOOB y n d pen hd hy.2, planLength_eq_walk]

/-- What an accepted TTP constructor call guarantees about the matrix and the derived
quantities (`none` = the constructor raised): in particular all distances are non-negative
(since the `fix:` commit that rejects negative distances), the diagonal is zero, and the
stored maximum is the largest entry. -/
theorem mkTtp_spec (M : Matrix) (c : Cfg) (I : Inst) (h : mkTtp M c = some I) :
    I.d = M ∧ I.n = M.length ∧ 2 ≤ I.n ∧ I.n % 2 = 0 ∧ Square M I.n ∧
    (I.rounds : Int) = c.rounds ∧ 1 ≤ I.rounds ∧ I.rounds ≤ 100 ∧
    (∀ r ∈ M, ∀ v ∈ r, 0 ≤ v) ∧ maxEntry M = some I.maxD ∧ 0 ≤ I.maxD := by
  unfold mkTtp at h
  simp only [] at h
  repeat' split at h
  all_goals try (simp at h; done)
  rename_i hn _ t ht hr h1 h2 h3 h4 h5 h6 _ _ pd mx hpd hmx
  simp at h
  subst h
  have hf := mkInstance_facts 0 M _ t ht
  obtain ⟨hs, hl, hsq, hnn⟩ := hf
  rw [hs] at hmx
  show t.stored = M ∧ M.length = M.length ∧ 2 ≤ M.length ∧ M.length % 2 = 0 ∧ Square M M.length ∧
    (c.rounds.toNat : Int) = c.rounds ∧ 1 ≤ c.rounds.toNat ∧ c.rounds.toNat ≤ 100 ∧
    (∀ r ∈ M, ∀ v ∈ r, 0 ≤ v) ∧ maxEntry M = some mx ∧ 0 ≤ mx
  refine ⟨hs, rfl, hl, by omega, hsq, by omega, by omega, by omega, hnn, hmx, ?_⟩
  -- the maximum is at least the (non-negative) first entry
  have hge := maxEntry_ge M mx hmx
  cases M with
  | nil => simp at hl
  | cons r0 rest =>
    have hr0 : r0.length = (r0 :: rest).length := hsq.2 r0 (by simp)
    cases r0 with
    | nil => simp at hr0
    | cons v0 _ =>
      have := hge _ (List.mem_cons_self) v0 (List.mem_cons_self)
      have := hnn _ (List.mem_cons_self) v0 (List.mem_cons_self)
      omega

/-- **upper bound**, no sign assumption: whenever the penalty is `2·M + 1` for some `M ≥ 0` that
bounds every matrix entry, a plan with `days` days is at most `n · days · penalty`
(the return leg of a team is paid for by the slack of its first game day). -/
theorem planLength_le_upper (y : Plan) (n : Nat) (d : Matrix) (M : Int) (hM : 0 ≤ M)
    (hle : ∀ r ∈ d, ∀ v ∈ r, v ≤ M) :
    planLength y n d (byePenalty M) ≤ (n : Int) * ((y.length : Int) * byePenalty M) := by
  rw [planLength_eq_walk]
  unfold walkLength
  have h := sum_map_le_const (List.range n)
    (fun t => teamCost d (byePenalty M) t (column y t)) ((y.length : Int) * byePenalty M) (by
      intro t _
      have := restCost_le d M hM (leg_le d M hM hle) t (column y t) t
      simp only [if_true] at this
      rw [teamCost_eq_restCost]
      simpa [column] using this)
  simpa using h

/-- **lower bound** for non-negative matrices -/
theorem planLength_nonneg (y : Plan) (n : Nat) (d : Matrix) (M : Int) (hM : 0 ≤ M)
    (hle : ∀ r ∈ d, ∀ v ∈ r, v ≤ M) (hnn : ∀ r ∈ d, ∀ v ∈ r, 0 ≤ v) :
    0 ≤ planLength y n d (byePenalty M) := by
  rw [planLength_eq_walk]
  unfold walkLength
  apply sum_map_nonneg
  intro t _
  rw [teamCost_eq_restCost]
  exact restCost_nonneg d _ (by unfold byePenalty; omega)
    (fun a b => (leg_bounds d M hM hle hnn a b).1) t _ t

/-- **bounds clause**: for every instance the constructor accepts and every plan of its game-plan
space, `GamePlanLength.evaluate` (the checked kernel with the instance's matrix and bye
penalty) returns a value between `lower_bound() = 0` and
`upper_bound() = n · (n-1)·rounds · bye_penalty`. -/
theorem planLength_bounds (M : Matrix) (c : Cfg) (I : Inst) (y : Plan)
    (h : mkTtp M c = some I) (hy : InSpace y I.n I.rounds) :
    ∃ v, planLength? y I.n I.d (byePenalty I.maxD) = some v ∧
      lowerBound ≤ v ∧ v ≤ upperBound I.n I.rounds (byePenalty I.maxD) := by
  obtain ⟨hd, _, hn, _, hsq, _, _, _, hnn, hmx, hM⟩ := mkTtp_spec M c I h
  have hle := maxEntry_ge M I.maxD hmx
  rw [hd]
  refine ⟨_, planLength?_noOOB y I.n M _ hsq hy.2, ?_, ?_⟩
  · exact planLength_nonneg y I.n M I.maxD hM hle hnn
  · have := planLength_le_upper y I.n M I.maxD hM hle
    unfold upperBound
    rw [hy.1] at this
    have e : (((I.n - 1) * I.rounds : Nat) : Int) = ((I.n : Int) - 1) * I.rounds := by
      rw [Int.natCast_mul, Int.natCast_sub (by omega)]; simp
    rw [e] at this
    rw [Int.mul_assoc]
    exact this

/-- the declared upper bound is attained: the plan without any game costs exactly
`n · days · penalty` (so the bound cannot be lowered, and the int64 accumulator must hold it). -/
theorem allBye_attains_upper (n days : Nat) (d : Matrix) (pen : Int) :
    planLength (List.replicate days (List.replicate n 0)) n d pen = (n : Int) * ((days : Int) * pen) := by
  rw [planLength_eq_walk]
  unfold walkLength
  have hcol : ∀ t, column (List.replicate days (List.replicate n (0 : Int))) t = List.replicate days 0 := by
    intro t
    unfold column
    rw [List.map_replicate]
    congr 1
    by_cases ht : t < n
    · simp [List.getD_eq_getElem?_getD, ht]
    · simp [List.getD_eq_getElem?_getD, ht]
  have hc : ∀ t, teamCost d pen t (List.replicate days 0) = (days : Int) * pen := by
    intro t
    simp [teamCost, itinerary, games, byes, travel, leg, Int.mul_comm]
  simp only [hcol, hc]
  rw [sum_map_const]; simp

/-- **bye clause**, general form: for every matrix with entries in `0..M` and penalty `2·M+1`,
replacing any non-zero entry `(day, team)` of any plan by `0` increases the value by at least 1.
No triangle inequality, no symmetry, no consistency of the plan is assumed; first day, last
day and the return leg are covered. -/
theorem bye_increases_total (y : Plan) (n : Nat) (d : Matrix) (M : Int) (hM : 0 ≤ M)
    (hle : ∀ r ∈ d, ∀ v ∈ r, v ≤ M) (hnn : ∀ r ∈ d, ∀ v ∈ r, 0 ≤ v)
    (day team : Nat) (ht : team < n) (hv : entry y day team ≠ 0) :
    planLength y n d (byePenalty M) + 1 ≤ planLength (setBye y day team) n d (byePenalty M) := by
  have hleg := leg_bounds d M hM hle hnn
  -- the entry exists
  have hday : day < y.length := by
    apply Decidable.byContradiction; intro hc
    apply hv
    have : y.getD day [] = [] := by
      simp [List.getD_eq_getElem?_getD, List.getElem?_eq_none_iff.mpr (by omega : y.length ≤ day)]
    unfold entry; rw [this]; simp
  have hteam : team < (y.getD day []).length := by
    apply Decidable.byContradiction; intro hc
    apply hv
    unfold entry
    generalize y.getD day [] = row at hc ⊢
    simp [List.getD_eq_getElem?_getD, List.getElem?_eq_none_iff.mpr (by omega : row.length ≤ team)]
  rw [planLength_eq_walk, planLength_eq_walk]
  unfold walkLength
  apply sum_map_strict _ _ _ _ team (by simpa using ht)
  · -- the changed column
    rw [column_setBye_same y day team hday hteam]
    have hlen : day < (column y team).length := by simpa [column] using hday
    obtain ⟨e1, e2⟩ := split_at (column y team) day hlen
    have hval : (column y team)[day] = entry y day team := by
      simp [column, entry, List.getD_eq_getElem?_getD, List.getElem?_eq_getElem hday]
    rw [e2]
    conv => lhs; rw [e1]
    exact teamCost_bye d M hleg team _ _ _ (by rw [hval]; exact hv)
  · -- every other column is unchanged, the changed one does not decrease
    intro t _
    by_cases hte : t = team
    · subst hte
      rw [column_setBye_same y day t hday hteam]
      have hlen : day < (column y t).length := by simpa [column] using hday
      obtain ⟨e1, e2⟩ := split_at (column y t) day hlen
      have hval : (column y t)[day] = entry y day t := by
        simp [column, entry, List.getD_eq_getElem?_getD, List.getElem?_eq_getElem hday]
      rw [e2]
      conv => lhs; rw [e1]
      have := teamCost_bye d M hleg t ((column y t).take day) ((column y t).drop (day + 1))
        ((column y t)[day]) (by rw [hval]; exact hv)
      omega
    · rw [column_setBye_other y day team t hte]
      exact Int.le_refl _

/-- the plan with a bye inserted is still a plan of the space -/
theorem setBye_inSpace (y : Plan) (n rounds day team : Nat) (hy : InSpace y n rounds) :
    InSpace (setBye y day team) n rounds := by
  obtain ⟨h1, h2⟩ := hy
  refine ⟨by simp [setBye, h1], ?_⟩
  intro r hr
  unfold setBye at hr
  rcases List.mem_or_eq_of_mem_set hr with h | h
  · exact h2 r h
  · subst h
    by_cases hd : day < y.length
    · have hrow := h2 _ (getD_mem y day hd)
      refine ⟨by rw [List.length_set]; exact hrow.1, ?_⟩
      intro v hv
      rcases List.mem_or_eq_of_mem_set hv with h | h
      · exact hrow.2 v h
      · subst h; omega
    · have : y.getD day [] = [] := by
        simp [List.getD_eq_getElem?_getD, List.getElem?_eq_none_iff.mpr (by omega : y.length ≤ day)]
      rw [this] at hr
      rw [List.set_eq_of_length_le (by omega)] at hr
      rw [this]
      simp
      -- `y.set day []` did not change `y`; the empty row is not a row of `y` unless `n = 0`
      rcases List.mem_iff_getElem.mp hr with ⟨i, hi, he⟩
      have := h2 _ (List.getElem_mem hi)
      rw [he] at this
      simpa using this.1

/-- **bye clause** (`bye_strictly_increases`): for every instance the constructor accepts, every plan
of its space and every scheduled game `(day, team)`, `GamePlanLength.evaluate` of the plan with
that game replaced by a day off is strictly larger than that of the plan itself. -/
theorem bye_strictly_increases (M : Matrix) (c : Cfg) (I : Inst) (y : Plan) (day team : Nat)
    (h : mkTtp M c = some I) (hy : InSpace y I.n I.rounds) (hv : entry y day team ≠ 0) :
    ∃ v v', planLength? y I.n I.d (byePenalty I.maxD) = some v ∧
      planLength? (setBye y day team) I.n I.d (byePenalty I.maxD) = some v' ∧ v < v' := by
  obtain ⟨hd, _, hn, _, hsq, _, _, _, hnn, hmx, hM⟩ := mkTtp_spec M c I h
  have hle := maxEntry_ge M I.maxD hmx
  rw [hd]
  have hy' := setBye_inSpace y I.n I.rounds day team hy
  -- a non-zero entry lies inside the plan
  have hteam : team < I.n := by
    apply Decidable.byContradiction; intro hc
    apply hv
    by_cases hday : day < y.length
    · have hrow := (hy.2 _ (getD_mem y day hday)).1
      unfold entry
      generalize y.getD day [] = row at hrow ⊢
      simp [List.getD_eq_getElem?_getD, List.getElem?_eq_none_iff.mpr (by omega : row.length ≤ team)]
    · have : y.getD day [] = [] := by
        simp [List.getD_eq_getElem?_getD, List.getElem?_eq_none_iff.mpr (by omega : y.length ≤ day)]
      unfold entry; rw [this]; simp
  refine ⟨_, _, planLength?_noOOB y I.n M _ hsq hy.2, planLength?_noOOB _ I.n M _ hsq hy'.2, ?_⟩
  have := bye_increases_total y I.n M I.maxD hM hle hnn day team hteam hv
  omega

/-- **int64 range clause**: on a non-negative matrix every value the accumulator `length` takes
lies between 0 and the final result; hence whenever the declared upper bound is below `2^63`
nothing wraps.  (The constructor does *not* guarantee `upper_bound() < 2^63`, see the example
below and the `overflow_int64` stream of the harness.) -/
theorem planLength_no_overflow (y : Plan) (n : Nat) (d : Matrix) (M : Int) (hM : 0 ≤ M)
    (hle : ∀ r ∈ d, ∀ v ∈ r, v ≤ M) (hnn : ∀ r ∈ d, ∀ v ∈ r, 0 ≤ v)
    (hub : (n : Int) * ((y.length : Int) * byePenalty M) < 2 ^ 63) :
    ∀ p ∈ planPartials y n d (byePenalty M), 0 ≤ p ∧ p < 2 ^ 63 := by
  have hpen : 0 ≤ byePenalty M := by unfold byePenalty; omega
  have hent : ∀ i j, 0 ≤ entry d i j := by
    intro i j
    rcases entry_cases d i j with h | ⟨r, hr, hv⟩
    · omega
    · exact hnn r hr _ hv
  have hwalk : ∀ team len, len ≤ teamWalk y d (byePenalty M) y.length team len := by
    intro team len
    rw [teamWalk_eq, teamCost_eq_restCost]
    have := restCost_nonneg d _ hpen (fun a b => (leg_bounds d M hM hle hnn a b).1) team
      (column y team) team
    omega
  have hmono : ∀ (l : List Nat) (len : Int), len ≤ teamsLoop y d (byePenalty M) y.length l len := by
    intro l
    induction l with
    | nil => intro len; simp [teamsLoop]
    | cons t rest ih =>
      intro len
      simp only [teamsLoop]
      have := ih (teamWalk y d (byePenalty M) y.length t len)
      have := hwalk t len
      omega
  have key : ∀ (l : List Nat) (len : Int), 0 ≤ len →
      ∀ p ∈ teamsPartials y d (byePenalty M) y.length l len,
        0 ≤ p ∧ p ≤ teamsLoop y d (byePenalty M) y.length l len := by
    intro l
    induction l with
    | nil => intro len _ p hp; simp [teamsPartials] at hp
    | cons t rest ih =>
      intro len hlen p hp
      simp only [teamsPartials, List.mem_append, List.mem_cons] at hp
      simp only [teamsLoop]
      have hw := hwalk t len
      have hm := hmono rest (teamWalk y d (byePenalty M) y.length t len)
      rcases hp with hp | hp | hp
      · have := dayPartials_bounded y d _ hpen hent t (List.range y.length) len t p hp
        have hdl : (dayLoop y d (byePenalty M) t (List.range y.length) len t).1
            ≤ teamWalk y d (byePenalty M) y.length t len := by
          unfold teamWalk
          simp only []
          split
          · have := hent (dayLoop y d (byePenalty M) t (List.range y.length) len t).2 t
            omega
          · omega
        omega
      · subst hp; omega
      · exact ih _ (by omega) p hp
  intro p hp
  have h1 := key (List.range n) 0 (by omega) p hp
  have h2 := planLength_le_upper y n d M hM hle
  unfold planLength at h2
  omega

/-! ### non-vacuity and witnesses -/

/-- the doctest instance of `game_plan_length` (asymmetric) is accepted by the constructor … -/
example : (mkTtp [[0, 1, 2, 3], [7, 0, 4, 5], [8, 10, 0, 6], [9, 11, 12, 0]]
    ⟨2, 1, 3, 1, 3, 1, 6⟩).isSome = true := by decide

/-- … the doctest plan lies in its space, has the documented length 145 … -/
example : InSpace [[2, -1, 4, -3], [-2, 1, -4, 3], [3, 4, -1, -2], [-3, -4, 1, 2], [4, 3, -2, -1],
    [-4, -3, 2, 1]] 4 2 := by decide
example : planLength? [[2, -1, 4, -3], [-2, 1, -4, 3], [3, 4, -1, -2], [-3, -4, 1, 2], [4, 3, -2, -1],
    [-4, -3, 2, 1]] 4 [[0, 1, 2, 3], [7, 0, 4, 5], [8, 10, 0, 6], [9, 11, 12, 0]] 0 = some 145 := by decide

/-- … and with the bye of the doctest (`yy[1, 0] = 0`, penalty `2·12+1`) the length is 162 -/
example : planLength? (setBye [[2, -1, 4, -3], [-2, 1, -4, 3], [3, 4, -1, -2], [-3, -4, 1, 2],
    [4, 3, -2, -1], [-4, -3, 2, 1]] 1 0) 4 [[0, 1, 2, 3], [7, 0, 4, 5], [8, 10, 0, 6], [9, 11, 12, 0]]
    (byePenalty 12) = some 162 := by decide

/-- the hypothesis "distances are non-negative" cannot be dropped: with the distance `-3` (which the
constructor accepted before the `fix:` commit) a bye *decreases* the value from 25 to 23 … -/
example : planLength [[-2, 1, 4, -3], [-3, 4, 1, -2], [4, 3, -2, -1]] 4
      [[0, 5, -3, 5], [1, 0, 5, 1], [1, 1, 0, 1], [1, 1, 1, 0]] (byePenalty 5) = 25
    ∧ planLength (setBye [[-2, 1, 4, -3], [-3, 4, 1, -2], [4, 3, -2, -1]] 0 0) 4
      [[0, 5, -3, 5], [1, 0, 5, 1], [1, 1, 0, 1], [1, 1, 1, 0]] (byePenalty 5) = 23 := by decide

/-- … a plan of the space has the negative length `-2` … -/
example : planLength [[-3, 1, 1, 1], [2, 1, 1, 1], [2, 1, 1, 1]] 4
    [[0, 5, -3, 5], [1, 0, 5, 1], [1, 1, 0, 1], [1, 1, 1, 0]] (byePenalty 5) = -2 := by decide

/-- … and the constructor model now rejects that matrix -/
example : mkTtp [[0, 5, -3, 5], [1, 0, 5, 1], [1, 1, 0, 1], [1, 1, 1, 0]] ⟨1, 1, 3, 1, 3, 1, 3⟩
    = none := by decide

/-- the constructor does not keep the declared upper bound inside int64: this accepted instance
(8 teams, 100 rounds, one distance `10^15 - 7`) has `upper_bound() ≥ 2^63`, and by
`allBye_attains_upper` the plan without games has exactly that value. -/
example : ∃ I, mkTtp ([0, 1000000000000000 - 7, 1, 1, 1, 1, 1, 1] ::
      (List.range 7).map (fun i => (List.range 8).map fun j => if j = i + 1 then (0 : Int) else 1))
      ⟨100, 1, 3, 1, 3, 1, 3⟩ = some I ∧ I.n = 8 ∧ I.rounds = 100 ∧
      2 ^ 63 ≤ upperBound I.n I.rounds (byePenalty I.maxD) := by decide +kernel

end TtpLength
