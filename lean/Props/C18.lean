import Proofs.Tsplib
import Props.C05
/-!
# C18 — TSPLIB and tour files load to the matrices the format prescribes

Property theorems only (helper lemmas live in `Proofs/Tsplib.lean`).  The model is
`Model/Tsplib.lean`; the listings `listFull / listUpperRow / listLowerDiag / listUpperDiag` are the
specification of what the four explicit TSPLIB95 formats contain for a matrix.

Not proved here (differential testing only, see `harness/c18.py`): that the floating point
`__dist_*` functions compute the TSPLIB95 metrics.
-/
namespace Tsplib
open Tsp Base

deriving instance DecidableEq for Tsp.Inst

/-- every entry of the matrix fits an int64 cell (always true for what `__read_n_ints` can deliver
through the constructor; stated separately because the walkers store into an int64 array) -/
def FitsInt64 (M : Matrix) : Prop := ∀ a b, inInt64 (entry M a b) = true

/-- FULL_MATRIX: reading the row-major listing of a square zero-diagonal matrix yields the matrix
(`reshape` + `fill_diagonal(0)`), for every size. -/
theorem walker_full (M : Matrix) (n : Nat) (hM : Square M n) (hz : ZeroDiag M n) (h64 : FitsInt64 M) :
    buildMatrix .full n (listFull M) = some M := build_full hM hz h64

/-- UPPER_ROW: the index walker `i = i + 1; if i >= n: j = j + 1; i = j + 1` applied to the entries
right of the diagonal, row by row, rebuilds the symmetric matrix — for every size (induction over
the token stream with the row/column state as invariant). -/
theorem walker_upperRow (M : Matrix) (n : Nat) (hM : Square M n) (hs : Symmetric M n) (hz : ZeroDiag M n)
    (h64 : FitsInt64 M) : buildMatrix .upperRow n (listUpperRow M) = some M :=
  walk_upperRow hM hs hz h64

/-- LOWER_DIAG_ROW: `if i != j: …; i = i + 1; if i > j: j = j + 1; i = 0` on the entries up to and
including the diagonal rebuilds the matrix. -/
theorem walker_lowerDiag (M : Matrix) (n : Nat) (hM : Square M n) (hs : Symmetric M n) (hz : ZeroDiag M n)
    (h64 : FitsInt64 M) : buildMatrix .lowerDiag n (listLowerDiag M) = some M :=
  walk_lowerDiag hM hs hz h64

/-- UPPER_DIAG_ROW: `if i != j: …; i = i + 1; if i >= n: j = j + 1; i = j` on the entries from the
diagonal on rebuilds the matrix. -/
theorem walker_upperDiag (M : Matrix) (n : Nat) (hM : Square M n) (hs : Symmetric M n) (hz : ZeroDiag M n)
    (h64 : FitsInt64 M) : buildMatrix .upperDiag n (listUpperDiag M) = some M :=
  walk_upperDiag hM hs hz h64

/-- **equivalent explicit encodings load to the same matrix**: the four listings of one symmetric
zero-diagonal matrix all load to that matrix. -/
theorem explicit_formats_agree (M : Matrix) (n : Nat) (hM : Square M n) (hs : Symmetric M n)
    (hz : ZeroDiag M n) (h64 : FitsInt64 M) (f : Fmt) : buildMatrix f n (listOf f M) = some M := by
  cases f
  · exact walker_full M n hM hz h64
  · exact walker_upperRow M n hM hs hz h64
  · exact walker_lowerDiag M n hM hs hz h64
  · exact walker_upperDiag M n hM hs hz h64

/-- the tokens of a list of lines, if every line tokenises (`none` = some token is rejected) -/
def tokensOf (ls : List Line) : Option (List Int) := (ls.mapM lineInts?).map List.flatten

/-- `EDGE_WEIGHT_SECTION` inside `_from_stream`: if the lines `ls` after the section start carry exactly
the number of integers the format needs, the reader continues after them with the matrix built from
the *token stream* — the line structure of `ls` does not occur on the right-hand side. -/
theorem section_load (cfg : Cfg) (h : Hdr) (raw : Line) (ls rest : List Line) (ts : List Int) (f : Fmt) (n : Nat)
    (hraw : strip raw = sEWS) (hm : h.matrix = none) (hst : startEdgeWeights h = some (f, n))
    (hls : tokensOf ls = some ts) (hlen : ts.length = f.need n) (hpos : 0 < f.need n) :
    loop cfg h .hdr (raw :: (ls ++ rest)) =
      match buildMatrix f n ts with
      | none => none
      | some M => loop cfg { h with matrix := some M } .hdr rest := by
  unfold tokensOf at hls
  cases htss : ls.mapM lineInts? with
  | none => simp [htss] at hls
  | some tss =>
    simp only [htss, Option.map_some, Option.some.injEq] at hls
    subst hls
    rw [loop_ews cfg h raw _ hraw]
    simp only [hm, Option.isSome_none, Bool.false_eq_true, if_false, hst]
    have := loop_ints cfg h f n rest ls [] tss htss (by simpa using hlen) (by simpa using hpos)
    rw [List.nil_append] at this
    exact this

/-- **arbitrarily wrapped lines**: two layouts of the same token stream (any distribution over lines,
any blank lines, any amount of white space — everything `lineInts?` absorbs) give the same result of
`_from_stream`. -/
theorem wrapping_irrelevant (cfg : Cfg) (h : Hdr) (raw : Line) (ls ls' rest : List Line) (ts : List Int)
    (f : Fmt) (n : Nat) (hraw : strip raw = sEWS) (hm : h.matrix = none)
    (hst : startEdgeWeights h = some (f, n)) (hls : tokensOf ls = some ts) (hls' : tokensOf ls' = some ts)
    (hlen : ts.length = f.need n) (hpos : 0 < f.need n) :
    loop cfg h .hdr (raw :: (ls ++ rest)) = loop cfg h .hdr (raw :: (ls' ++ rest)) := by
  rw [section_load cfg h raw ls rest ts f n hraw hm hst hls hlen hpos,
    section_load cfg h raw ls' rest ts f n hraw hm hst hls' hlen hpos]

/-- **the four explicit encodings at file level**: whatever the line layout `ls` of the listing that format
`f` prescribes for the symmetric zero-diagonal matrix `M`, `_from_stream` continues after the section with
exactly `M` — the same matrix for FULL_MATRIX, UPPER_ROW, LOWER_DIAG_ROW and UPPER_DIAG_ROW. -/
theorem explicit_section_loads (cfg : Cfg) (h : Hdr) (raw : Line) (ls rest : List Line) (f : Fmt) (n : Nat)
    (M : Matrix) (hM : Square M n) (hs : Symmetric M n) (hz : ZeroDiag M n) (h64 : FitsInt64 M) (hn : 2 ≤ n)
    (hraw : strip raw = sEWS) (hm : h.matrix = none) (hst : startEdgeWeights h = some (f, n))
    (hls : tokensOf ls = some (listOf f M)) :
    loop cfg h .hdr (raw :: (ls ++ rest)) = loop cfg { h with matrix := some M } .hdr rest := by
  have hlen := listOf_length hM f
  have hpos : 0 < f.need n := by
    have h1 : 1 ≤ n - 1 := by omega
    have h2 : 2 ≤ n * (n - 1) := by
      calc 2 ≤ n := hn
        _ = n * 1 := (Nat.mul_one _).symm
        _ ≤ n * (n - 1) := Nat.mul_le_mul_left _ h1
    have h3 : 0 < n * n := Nat.mul_pos (by omega) (by omega)
    cases f <;> simp only [Fmt.need] <;> omega
  rw [section_load cfg h raw ls rest (listOf f M) f n hraw hm hst hls hlen hpos,
    explicit_formats_agree M n hM hs hz h64 f]

/-- blank lines (empty or white space only) between header lines are ignored -/
theorem blank_lines_ignored (cfg : Cfg) (h : Hdr) (blanks rest : List Line) (hb : ∀ l ∈ blanks, strip l = []) :
    loop cfg h .hdr (blanks ++ rest) = loop cfg h .hdr rest := loop_hdr_blanks cfg h blanks rest hb

/-- character level: the blank-joined decimal texts (`" ".join(map(str, row))`) of integers within the
token limit `±10^15` tokenise (`__line_to_nums` + the integrality filter of `__read_n_ints`) to exactly
these integers; the empty row gives no token. -/
theorem tokeniser_roundtrip (vs : List Int) (hv : ∀ v ∈ vs, -LIMTOK ≤ v ∧ v ≤ LIMTOK) :
    lineInts? (joinSp (vs.map showInt)) = some vs := lineInts?_joinSp vs hv

/-- what C05's constructor guarantees, in the form used below -/
theorem mkInstance_facts {lbG mult : Int} {M : Matrix} {I : Inst} (h : mkInstance lbG M mult = some I) :
    I.stored = M ∧ I.n = M.length ∧ 2 ≤ I.n ∧ Square M I.n ∧ I.sym = isSymmetricB M I.n ∧ ZeroDiag M I.n := by
  obtain ⟨h1, h2, h3, h4, _, _, _, h8, _, _, _, hz⟩ := mkInstance_spec lbG M mult I h
  exact ⟨h1, h2, h3, h4, h8, hz⟩

/-- every matrix the constructor accepts has all its entries within the reader's token range `±10^15`
(non-negative; an off-diagonal entry is at most its row's farthest-neighbour distance, all other rows
contribute at least 1 to the upper bound, which is at most `10^15 + 1`) -/
theorem accepted_entries_readable {lbG mult : Int} {M : Matrix} {I : Inst}
    (h : mkInstance lbG M mult = some I) : EntriesWithin M LIMTOK := mkInstance_within h

/-- **write → read** (`_from_stream(to_stream(I))`), for every instance the constructor model accepts
(including `n = 2` and the empty last row of the UPPER_ROW output), every name `sanitize_name` leaves
unchanged, every list of non-blank comments: the reader reconstructs name and matrix and hands them to
the constructor again.  That all entries lie within the reader's token range `±10^15` is *derived* from
the constructor's acceptance (`mkInstance_within`).  Remaining hypothesis `hn9`: `DIMENSION` is only read
up to `10^9` (an instance with more cities would need more than `8·10^18` bytes). -/
theorem write_read_roundtrip (cfg : Cfg) (name : Line) (lbG mult : Int) (M : Matrix) (I : Inst)
    (comments : List Line) (hI : mkInstance lbG M mult = some I)
    (hname : cfg.nameOk name = true) (hshape : NameShape name)
    (hn9 : I.n ≤ 1000000000) (hc : ∀ c ∈ comments, strip c ≠ []) :
    fromLines cfg (toLines name I comments) =
      match mkInstance (cfg.lbOf name) M with
      | none => none
      | some J => some (name, J) := by
  have hB : EntriesWithin M LIMTOK := mkInstance_within hI
  obtain ⟨hst, hn, hn2, hM, hsymflag, hz⟩ := mkInstance_facts hI
  have h64 : FitsInt64 M := inInt64_of_within hB
  have hlen : M.length = I.n := hn.symm
  -- the final step: the constructor call and the TYPE check
  have hfin : ∀ (T : Line), (I.sym = false → T ≠ sTSP) →
      finish cfg { name := some name, type := some T, n := some I.n, ewt := some sEXPLICIT,
                   ewf := some (if I.sym then sUR else sFULL), nct := none, matrix := some M } =
        match mkInstance (cfg.lbOf name) M with
        | none => none
        | some J => some (name, J) := by
    intro T hT
    simp only [finish, hname, Bool.not_true, Bool.false_eq_true, if_false]
    cases hJ : mkInstance (cfg.lbOf name) M with
    | none => rfl
    | some J =>
      obtain ⟨_, hJn, _, _, hJs, _⟩ := mkInstance_facts hJ
      have hJsym : J.sym = I.sym := by rw [hJs, hsymflag, hJn, hn]
      simp only
      split
      · next hbad =>
        exfalso
        obtain ⟨h1, h2⟩ := hbad
        rw [hJsym] at h2
        exact hT h2 (by simpa using h1)
      · rfl
  have eassoc : ∀ (k v : Line), k ++ (": ".toList ++ v) = k ++ ": ".toList ++ v :=
    fun k v => (List.append_assoc k _ v).symm
  unfold fromLines toLines
  simp only [List.cons_append, List.nil_append, List.append_assoc]
  simp only [eassoc]
  rw [loop_kv_line cfg _ _ sNAME name (by decide) hshape.valOk, hkv_name _ name rfl hshape]
  simp only
  cases hsym : I.sym with
  | true =>
    have hS : Symmetric M I.n := (symmetric_flag_iff M I.n).mp (by rw [← hsymflag]; exact hsym)
    simp only [if_true]
    rw [loop_kv_line cfg _ _ sTYPE sTSP (by decide) (ValOk.ofAll _ (by decide)), hkv_type _ sTSP rfl (Or.inl rfl)]
    simp only
    rw [loop_comments cfg _ comments _ hc]
    rw [loop_kv_line cfg _ _ sDIMENSION (showNat I.n) (by decide)
      ⟨showNat_ne_nil _, fun c hc' => digit_not_ws (showNat_digits _ c (List.mem_of_mem_head? hc')),
        fun c hc' => digit_not_ws (showNat_digits _ c (List.mem_of_getLast? hc'))⟩,
      hkv_dim _ I.n rfl hn2 hn9]
    simp only
    rw [loop_kv_line cfg _ _ sEWT sEXPLICIT (by decide) (ValOk.ofAll _ (by decide)), hkv_ewt _ rfl]
    simp only
    rw [loop_kv_line cfg _ _ sEWF sUR (by decide) (ValOk.ofAll _ (by decide)), hkv_ewf _ sUR rfl (Or.inl rfl)]
    simp only
    have hbody : (bodyLines I).mapM lineInts? = some (M.mapIdx fun r row => row.drop (r + 1)) := by
      simp only [bodyLines, hsym, if_true, hst]
      exact body_sym_tokens M I.n hlen hB
    have hneed : (listUpperRow M).length = Fmt.upperRow.need I.n := listUpperRow_length hM
    have hpos : 0 < Fmt.upperRow.need I.n := by
      simp only [Fmt.need]
      have : 2 ≤ I.n * (I.n - 1) := by
        have h1 : 1 ≤ I.n - 1 := by omega
        calc 2 ≤ I.n := hn2
          _ = I.n * 1 := (Nat.mul_one _).symm
          _ ≤ I.n * (I.n - 1) := Nat.mul_le_mul_left _ h1
      omega
    rw [section_load cfg _ sEWS (bodyLines I) [sEOF] (listUpperRow M) .upperRow I.n (by decide) rfl
      (by simp (config := { decide := true }) [startEdgeWeights, fmtOf])
      (by simp [tokensOf, hbody, listUpperRow]) hneed hpos]
    rw [walker_upperRow M I.n hM hS hz h64]
    simp only
    rw [loop_eof cfg _ sEOF [] (by decide)]
    have := hfin sTSP (by intro h; rw [hsym] at h; cases h)
    simpa [hsym] using this
  | false =>
    simp only [Bool.false_eq_true, if_false]
    rw [loop_kv_line cfg _ _ sTYPE sATSP (by decide) (ValOk.ofAll _ (by decide)), hkv_type _ sATSP rfl (Or.inr rfl)]
    simp only
    rw [loop_comments cfg _ comments _ hc]
    rw [loop_kv_line cfg _ _ sDIMENSION (showNat I.n) (by decide)
      ⟨showNat_ne_nil _, fun c hc' => digit_not_ws (showNat_digits _ c (List.mem_of_mem_head? hc')),
        fun c hc' => digit_not_ws (showNat_digits _ c (List.mem_of_getLast? hc'))⟩,
      hkv_dim _ I.n rfl hn2 hn9]
    simp only
    rw [loop_kv_line cfg _ _ sEWT sEXPLICIT (by decide) (ValOk.ofAll _ (by decide)), hkv_ewt _ rfl]
    simp only
    rw [loop_kv_line cfg _ _ sEWF sFULL (by decide) (ValOk.ofAll _ (by decide)), hkv_ewf _ sFULL rfl (Or.inr rfl)]
    simp only
    have hbody : (bodyLines I).mapM lineInts? = some M := by
      simp only [bodyLines, hsym, Bool.false_eq_true, if_false, hst]
      exact body_full_tokens M I.n hlen hB
    have hneed : (listFull M).length = Fmt.full.need I.n := listFull_length hM
    have hpos : 0 < Fmt.full.need I.n := by
      simp only [Fmt.need]; exact Nat.mul_pos (by omega) (by omega)
    rw [section_load cfg _ sEWS (bodyLines I) [sEOF] (listFull M) .full I.n (by decide) rfl
      (by simp (config := { decide := true }) [startEdgeWeights, fmtOf])
      (by simp [tokensOf, hbody, listFull]) hneed hpos]
    rw [walker_full M I.n hM hz h64]
    simp only
    rw [loop_eof cfg _ sEOF [] (by decide)]
    have := hfin sATSP (by intro _; decide)
    simpa [hsym] using this

/-- … and with the lower bound the instance was built with (and the default range multiplier) the
reader returns *the same instance*: name, size, bounds, symmetry flag, storage type, every entry. -/
theorem write_read_same_instance (cfg : Cfg) (name : Line) (M : Matrix) (I : Inst) (comments : List Line)
    (hI : mkInstance (cfg.lbOf name) M = some I)
    (hname : cfg.nameOk name = true) (hshape : NameShape name)
    (hn9 : I.n ≤ 1000000000) (hc : ∀ c ∈ comments, strip c ≠ []) :
    fromLines cfg (toLines name I comments) = some (name, I) := by
  rw [write_read_roundtrip cfg name (cfg.lbOf name) 1 M I comments hI hname hshape hn9 hc, hI]

/-- the largest distance a 2-city instance can hold (`10^15 - 1`: both bounds are the sum of the two
distances and at most `10^15`) is written and read back -/
example :
    let cfg : Cfg := { lbOf := fun _ => 0, nameOk := fun _ => true, geo := fun _ _ => 0 }
    let M : Matrix := [[0, 999999999999999], [1, 0]]
    ∃ I, mkInstance 0 M = some I ∧ fromLines cfg (toLines ['x'] I []) = some (['x'], I) := by
  refine ⟨{ n := 2, lb := 1000000000000000, ub := 1000000000000000, sym := false, dtype := .int64,
            stored := [[0, 999999999999999], [1, 0]] }, by decide +kernel, by decide +kernel⟩

/-- **tour files**: a tour accepted by `known_optima._from_stream` is a permutation of `0..k-1`, `k` the
number of nodes read (the reader does not know the instance; `DIMENSION` is not interpreted). -/
theorem tour_parser_perm (lines : List Line) (t : List Nat) (h : parseTour lines = some t) :
    IsPerm t t.length := by
  have hinv : TourInv {} := ⟨List.nodup_nil, by simp, rfl⟩
  obtain ⟨hnd, hlt⟩ := tourLoop_perm lines {} t hinv h
  exact perm_range_of_nodup_lt t hnd hlt

/-! ### the metric characterisations (specification side only — the float code is *tested* against them) -/

/-- the integer characterisation of `nint(sqrt(A / B))` has at most one solution, so `spec = true` in the
harness pins the value -/
theorem nint_unique (A B r r' : Nat) (h : IsNintSqrt A B r) (h' : IsNintSqrt A B r') : r = r' :=
  nint_unique_arith A B r r' h h'

theorem ceil_unique (A B r r' : Nat) (h : IsCeilSqrt A B r) (h' : IsCeilSqrt A B r') : r = r' :=
  ceil_unique_arith A B r r' h h'

/-- TSPLIB95's ATT rule (`tij = nint(rij); dij = tij + 1 if tij < rij else tij` with
`rij = sqrt((xd² + yd²) / 10)`) is the ceiling of `rij` -/
theorem att_is_ceil (S D d : Nat) (hD : 0 < D) : IsAtt S D d ↔ IsCeilSqrt S (10 * (D * D)) d := by
  unfold IsAtt IsNintSqrt IsCeilSqrt
  exact att_ceil_arith S (10 * (D * D)) d (Nat.mul_pos (by decide) (Nat.mul_pos hD hD))

/-! ### the hypotheses are satisfiable -/

example : buildMatrix .upperRow 3 (listUpperRow [[0, 1, 2], [1, 0, 3], [2, 3, 0]]) =
    some [[0, 1, 2], [1, 0, 3], [2, 3, 0]] := by decide
example : listLowerDiag [[0, 1, 2], [1, 0, 3], [2, 3, 0]] = [0, 1, 0, 2, 3, 0] := by decide
example : parseTour ["TOUR_SECTION".toList, "2 3".toList, "1".toList, "-1".toList] = some [1, 2, 0] := by
  decide +kernel
example : ∃ I, mkInstance 0 [[0, 5], [5, 0]] = some I ∧
    fromLines { lbOf := fun _ => 0, nameOk := fun _ => true, geo := fun _ _ => 0 } (toLines ['x'] I []) = some (['x'], I) :=
  ⟨{ n := 2, lb := 10, ub := 10, sym := true, dtype := .int8, stored := [[0, 5], [5, 0]] },
    by decide +kernel, by decide +kernel⟩

end Tsplib
