import Proofs.Fom
/-!
# C11 — the controller figure of merit is a pure function of the parameters

Property theorems only (helper lemmas: `Proofs/Fom.lean`; model and specification:
`Model/Fom.lean`).  All theorems hold for every environment `env` — i.e. for *arbitrary*
functions `J`, `diff`, `agg`, `post`, `ok` standing for `run_ode`/`j_from_ode`/
`diff_from_ode`/`sum_up_results`/the float range test —, for both objective variants (they
differ in `agg` and `post` only), every number of training cases, every stale content of the
`np.empty` buffer and every history of method calls.  No size bounds.
-/
namespace Fom

variable {V R X E : Type}

/-- the objects reachable from the constructor by a history of method calls -/
def Reachable (env : Env V R X E) (sup : Bool) (s : St V R E) : Prop :=
  ∃ (g : List V) (ops : List (Op X E)), g.length = env.n ∧ s = run env (init env sup g) ops

theorem Reachable.rel {env : Env V R X E} {sup : Bool} {s : St V R E}
    (h : Reachable env sup s) : ∃ a, Rel env sup s a := by
  obtain ⟨g, ops, hg, rfl⟩ := h
  exact ⟨_, (Rel_run env sup ops _ _ (init_Rel env sup g hg)).1⟩

theorem run_append (env : Env V R X E) (s : St V R E) (l1 l2 : List (Op X E)) :
    run env s (l1 ++ l2) = run env (run env s l1) l2 := by
  induction l1 generalizing s with
  | nil => rfl
  | cons op l1 ih => exact ih _

theorem Reachable.run {env : Env V R X E} {sup : Bool} {s : St V R E}
    (h : Reachable env sup s) (ops : List (Op X E)) : Reachable env sup (run env s ops) := by
  obtain ⟨g, ops0, hg, rfl⟩ := h
  exact ⟨g, ops0 ++ ops, hg, (run_append env _ ops0 ops).symm⟩

/-- **The object implements the documented machine.**  For every history on a freshly
constructed objective (with any stale buffer content), every method call returns what the
state-free description `astep` returns: `evaluate` the documented value of the *current*
equations and `x`, `get_differentials` the log of everything recorded since the last
`initialize()`, the same exceptions.  (All clauses below are consequences.) -/
theorem refines_documented_machine (env : Env V R X E) (sup : Bool) (g : List V)
    (hg : g.length = env.n) (ops : List (Op X E)) :
    outputs env (init env sup g) ops = aoutputs env sup ainit ops :=
  (Rel_run env sup ops _ _ (init_Rel env sup g hg)).2

/-- **Clause "returns the value a freshly created objective would return".**  After any
history `ops` that ends in raw mode, `evaluate(x)` returns exactly what a freshly constructed
objective returns for `x` — whatever the two `np.empty` buffers contained, whatever was
evaluated before (the LE variant's overwritten buffer included): every slot read by
`sum_up_results` was overwritten in this call, and the early return happens before any stale
slot is read. -/
theorem evaluate_history_independent (env : Env V R X E) (sup : Bool) (g g' : List V)
    (hg : g.length = env.n) (hg' : g'.length = env.n) (ops : List (Op X E)) (x : X)
    (hraw : (run env (init env sup g) ops).eq = env.raw) :
    (evaluate env (run env (init env sup g) ops) x).2 = fresh env sup g' x := by
  obtain ⟨h1, _⟩ := Rel_run env sup ops _ _ (init_Rel env sup g hg)
  rw [(evaluate_spec env _ x h1.wf).1, hraw]
  unfold fresh
  rw [(evaluate_spec env _ x (init_WF env sup g' hg')).1]
  rfl

/-- **Clause "the mean of the per-training-case figures of merit … or the failure value".**
In every reachable state, `evaluate(x)` returns the documented value for the equations
currently installed (the real ones, or the surrogate model): a function of `(equations, x)`
only. -/
theorem evaluate_eq_spec (env : Env V R X E) (sup : Bool) (s : St V R E)
    (h : Reachable env sup s) (x : X) :
    (evaluate env s x).2 = .value (specValue env s.eq x) := by
  obtain ⟨a, ha⟩ := h.rel
  exact (evaluate_spec env s x ha.wf).1

/-- **Clause "a number in [0, 1e100], or the failure value 1e200"**, and no access outside the
buffer, no exception: in every reachable state `evaluate` returns a value that passes the
range test or is the failure value. -/
theorem value_range (env : Env V R X E) (sup : Bool) (s : St V R E)
    (h : Reachable env sup s) (x : X) :
    ∃ v, (evaluate env s x).2 = .value v ∧ (env.ok v = true ∨ v = env.fail) := by
  refine ⟨_, evaluate_eq_spec env sup s h x, ?_⟩
  simp only [specValue]
  by_cases h1 : (caseValues env s.eq x).all env.ok = true
  · by_cases h2 : env.ok (env.agg (caseValues env s.eq x)) = true
    · left; simp [h1, h2]
    · right; simp [h1, h2]
  · right; simp [h1]

/-- the calls the surrogate optimiser makes between two real-system phases -/
def toggle (m : E) (xs : List X) : List (Op X E) :=
  [.setModel m] ++ xs.map .evaluate ++ [.setRaw]

theorem arun_model_evals (env : Env V R X E) (sup : Bool) (m : E) (xs : List X) (a : Abs R E)
    (hm : a.model = some m) : arun env sup a (xs.map .evaluate) = a := by
  induction xs with
  | nil => rfl
  | cons x xs ih =>
    have : (astep env sup a (.evaluate x)).1 = a := by simp [astep, hm]
    simp only [List.map_cons, arun, this]
    exact ih

theorem arun_unsup_evals (env : Env V R X E) (xs : List X) (a : Abs R E) :
    arun env false a (xs.map .evaluate) = a := by
  induction xs with
  | nil => rfl
  | cons x xs ih =>
    have : (astep env false a (.evaluate x)).1 = a := by simp [astep]
    simp only [List.map_cons, arun, this]
    exact ih

theorem arun_append (env : Env V R X E) (sup : Bool) (a : Abs R E) (l1 l2 : List (Op X E)) :
    arun env sup a (l1 ++ l2) = arun env sup (arun env sup a l1) l2 := by
  induction l1 generalizing a with
  | nil => rfl
  | cons op l1 ih => exact ih _

theorem arun_toggle (env : Env V R X E) (sup : Bool) (m : E) (xs : List X) (a : Abs R E)
    (hm : a.model = none) : arun env sup a (toggle m xs) = a := by
  unfold toggle
  rw [arun_append, arun_append]
  cases sup with
  | true =>
    have h1 : arun env true a [Op.setModel m] = { a with model := some m } := by simp [arun, astep]
    rw [h1, arun_model_evals env true m xs _ rfl]
    simp [arun, astep, ← hm]
  | false =>
    have h1 : arun env false a [(Op.setModel m : Op X E)] = a := by simp [arun, astep]
    rw [h1, arun_unsup_evals]
    simp [arun, astep, ← hm]

/-- **Clause "switching to a surrogate model and back changes neither later real-system values
nor the recorded training data".**  Insert `set_model(m); evaluate(x₁); …; evaluate(x_k);
set_raw()` at any point of a history where the object is in raw mode: every later method call
returns the same (values of `evaluate`, arrays and exceptions of `get_differentials`), and the
recorded data at the end is the same. -/
theorem model_toggle_noninterference (env : Env V R X E) (sup : Bool) (g : List V)
    (hg : g.length = env.n) (ops1 ops2 : List (Op X E)) (m : E) (xs : List X)
    (hraw : InRaw env (run env (init env sup g) ops1)) :
    outputs env (run env (init env sup g) (ops1 ++ toggle m xs)) ops2
      = outputs env (run env (init env sup g) ops1) ops2 ∧
    dataSc (run env (init env sup g) (ops1 ++ toggle m xs ++ ops2))
      = dataSc (run env (init env sup g) (ops1 ++ ops2)) ∧
    dataDf (run env (init env sup g) (ops1 ++ toggle m xs ++ ops2))
      = dataDf (run env (init env sup g) (ops1 ++ ops2)) := by
  obtain ⟨h1, _⟩ := Rel_run env sup ops1 _ _ (init_Rel env sup g hg)
  -- the abstract state before the toggle is in real-system mode
  have hm : (arun env sup ainit ops1).model = none := by
    have hmode := h1.mode
    cases hmod : (arun env sup ainit ops1).model with
    | none => rfl
    | some m' =>
      rw [hmod] at hmode
      obtain ⟨_, hc, hs⟩ := hmode
      have := hraw.2
      rw [hc, h1.sup_sc, hs] at this
      exact absurd this (by simp)
  obtain ⟨h2, _⟩ := Rel_run env sup (toggle m xs) _ _ h1
  rw [arun_toggle env sup m xs _ hm] at h2
  obtain ⟨h3, o3⟩ := Rel_run env sup ops2 _ _ h1
  obtain ⟨h4, o4⟩ := Rel_run env sup ops2 _ _ h2
  refine ⟨?_, ?_, ?_⟩
  · rw [run_append, o4, o3]
  · rw [run_append, run_append, run_append, h4.sc, h3.sc]
  · rw [run_append, run_append, run_append, h4.df, h3.df]

/-- **Clause "the recorded training data grows only during real-system evaluations".**
For every reachable object and every method call other than `initialize()`: the recorded log
after the call extends the log before it (nothing is lost, reordered or changed), and if it
is longer, then the call was an `evaluate` in raw mode (which, on an object constructed
without model support, never records).  `initialize()` empties the log. -/
theorem collection_grows_only_in_raw (env : Env V R X E) (sup : Bool) (s : St V R E)
    (h : Reachable env sup s) (op : Op X E) :
    (op = .initialise → dataSc (step env s op).1 = [] ∧ dataDf (step env s op).1 = []) ∧
    (op ≠ .initialise →
      dataSc s <+: dataSc (step env s op).1 ∧ dataDf s <+: dataDf (step env s op).1 ∧
      ((dataSc (step env s op).1 ≠ dataSc s ∨ dataDf (step env s op).1 ≠ dataDf s) →
        (∃ x, op = .evaluate x) ∧ InRaw env s ∧ sup = true)) := by
  obtain ⟨a, ha⟩ := h.rel
  obtain ⟨h1, _⟩ := Rel_step env sup s a op ha
  have hsc := h1.sc
  have hdf := h1.df
  rw [hsc, hdf, ha.sc, ha.df]
  have hmode := ha.mode
  have hsup := ha.sup_sc
  cases op with
  | initialise => simp [astep, ainit]
  | setRaw => simp [astep]
  | setModel m => cases sup <;> simp [astep]
  | getDifferentials =>
    have : (astep (V := V) env sup a (.getDifferentials : Op X E)).1 = a := by
      simp only [astep]; split <;> rfl
    simp [this]
  | evaluate x =>
    refine ⟨by simp, fun _ => ?_⟩
    simp only [astep]
    by_cases hrec : (sup && a.model.isNone) = true
    · simp only [hrec, if_true]
      refine ⟨List.prefix_append _ _, List.prefix_append _ _, fun _ => ⟨⟨x, rfl⟩, ?_, ?_⟩⟩
      · have hn : a.model = none := by
          cases hmod : a.model with
          | none => rfl
          | some _ => simp [hmod] at hrec
        rw [hn] at hmode
        exact ⟨hmode.1, by rw [hmode.2, hsup]⟩
      · cases sup <;> simp at hrec ⊢
    · simp [hrec]

/-- **`get_differentials()` is content-preserving**: on a reachable object it returns exactly
the recorded log (concatenation of all batches in recording order — no batch lost or
duplicated), and concatenate-and-cache leaves the log as it was. -/
theorem getDifferentials_content (env : Env V R X E) (sup : Bool) (s : St V R E)
    (h : Reachable env sup s) :
    dataSc (getDifferentials s).1 = dataSc s ∧ dataDf (getDifferentials s).1 = dataDf s ∧
    ∀ sc df, (getDifferentials (V := V) s).2 = .data sc df → sc = dataSc s ∧ df = dataDf s := by
  obtain ⟨a, ha⟩ := h.rel
  obtain ⟨h1, h2⟩ := Rel_getDifferentials env sup s a ha
  refine ⟨by rw [h1.sc, ha.sc], by rw [h1.df, ha.df], ?_⟩
  intro sc df hd
  rw [h2] at hd
  simp only [astep] at hd
  split at hd
  · injection hd with e1 e2
    exact ⟨by rw [← e1, ha.sc], by rw [← e2, ha.df]⟩
  · cases hd

/-- **`get_differentials()` is idempotent**: calling it twice in a row returns the same
arrays (or the same exception) both times, and the second call does not change the object. -/
theorem getDifferentials_idempotent (env : Env V R X E) (sup : Bool) (s : St V R E)
    (h : Reachable env sup s) :
    (getDifferentials (V := V) (getDifferentials s).1).2 = (getDifferentials s).2 ∧
    (getDifferentials (getDifferentials s).1).1 = (getDifferentials s).1 := by
  obtain ⟨a, ha⟩ := h.rel
  obtain ⟨⟨wl, wb, wc, wn⟩, -⟩ := ha
  cases hs : s.sc with
  | none => simp [getDifferentials, hs]
  | some l =>
    have hd2 : s.df.isSome = true := by rw [← wb, hs]; rfl
    obtain ⟨d, hd⟩ := Option.isSome_iff_exists.mp hd2
    simp only [hs, hd, Option.getD_some] at wn
    match l, d, wn with
    | [], [], _ => simp [getDifferentials, hs]
    | [b], [c], _ => simp [getDifferentials, hs, hd]
    | b1 :: b2 :: l', c1 :: c2 :: d', _ => simp [getDifferentials, hs, hd]

/-- Reachable objects never collect while a surrogate model is installed: `__collect` implies
that the equations are the real ones' mode (`InRaw`). -/
theorem collect_only_in_raw (env : Env V R X E) (sup : Bool) (s : St V R E)
    (h : Reachable env sup s) (hc : s.collect = true) : InRaw env s ∧ sup = true := by
  obtain ⟨a, ha⟩ := h.rel
  have hmode := ha.mode
  cases hm : a.model with
  | none =>
    rw [hm] at hmode
    refine ⟨⟨hmode.1, by rw [hmode.2, ha.sup_sc]⟩, by rw [← hmode.2, hc]⟩
  | some m =>
    rw [hm] at hmode
    rw [hmode.2.1] at hc
    cases hc

/-! ### Non-vacuity: concrete histories

Three training cases, integer "figures of merit" `J e x i = x·(i+1) + e`, range `[0,100]`,
failure value `1000`, aggregate = sum, LE-like `post` that destroys the buffer. -/

def exEnv : Env Int Nat Int Nat :=
  { n := 3, raw := 0
    J := fun e x i => x * (i + 1) + e
    diff := fun e x i => ([100 * e + 10 * x.toNat + i], [1000 + 100 * e + 10 * x.toNat + i])
    agg := List.sum
    post := fun v => v - 7777
    ok := fun v => decide (0 ≤ v) && decide (v ≤ 100)
    fail := 1000 }

/-- a history with good, failing and model-mode evaluations, toggles, and both observers -/
def exHistory : List (Op Int Nat) :=
  [.evaluate 2, .evaluate 40, .getDifferentials, .setModel 5, .evaluate 1, .evaluate 3,
   .getDifferentials, .setRaw, .evaluate 3, .getDifferentials, .getDifferentials,
   .initialise, .getDifferentials, .evaluate 1]

/-- the outputs of that history on an object whose buffer held garbage: values 12 = 2+4+6,
failure (case 2 of x=40 is 120 > 100, cases 0 and 1 are recorded), the log, model-mode
values 21 = 6+7+8 and 33, the unchanged log, … -/
example : outputs exEnv (init exEnv true [555, -3, 99999]) exHistory =
    [.value 12, .value 1000, .data [20, 21, 22, 400, 401] [1020, 1021, 1022, 1400, 1401],
     .unit, .value 21, .value 33, .data [20, 21, 22, 400, 401] [1020, 1021, 1022, 1400, 1401],
     .unit, .value 18,
     .data [20, 21, 22, 400, 401, 30, 31, 32] [1020, 1021, 1022, 1400, 1401, 1030, 1031, 1032],
     .data [20, 21, 22, 400, 401, 30, 31, 32] [1020, 1021, 1022, 1400, 1401, 1030, 1031, 1032],
     .unit, .error, .value 6] := by decide

/-- the hypotheses of `evaluate_history_independent` are satisfiable by that history (it ends
in raw mode) and the conclusion is a non-trivial value -/
example : (run exEnv (init exEnv true [555, -3, 99999]) exHistory).eq = exEnv.raw ∧
    (evaluate exEnv (run exEnv (init exEnv true [555, -3, 99999]) exHistory) 2).2 = .value 12 ∧
    fresh exEnv true [0, 0, 0] 2 = (.value 12 : Out Int Nat) := by decide

/-- … and of `model_toggle_noninterference` (the state after the first three calls is in raw
mode) -/
example : InRaw exEnv (run exEnv (init exEnv true [1, 2, 3]) (exHistory.take 3)) := by
  constructor <;> decide

/-- an object without model support: `set_model` and `get_differentials` raise, nothing is
recorded -/
example : outputs exEnv (init exEnv false [1, 2, 3])
      [.evaluate 2, .setModel 5, .getDifferentials, .evaluate 2] =
    [.value 12, .error, .error, .value 12] := by decide

/-- The hypothesis "one buffer slot per training case" is what makes the stale content
irrelevant: with a buffer that is longer than the number of cases, `sum_up_results` reads a
stale slot and the very same model returns history-dependent values (so the theorems are not
true by construction of the model). -/
example : (evaluate exEnv (init exEnv true [0, 0, 0, 5]) 2).2 = .value 17 ∧
    (evaluate exEnv (init exEnv true [0, 0, 0, 50]) 2).2 = .value 62 := by decide

/-- … and a too short buffer is an access outside the array, not a value. -/
example : (evaluate exEnv (init exEnv true [0, 0]) 2).2 = .oob := by decide

end Fom
