import Gen.BinCountAndLastEmpty
import Props.C02Gen
/-!
# C02 (tie between source and model) — `Gen/BinCountAndLastEmpty.lean` equals its hand-written model
(see `Props/C02Gen.lean` for the conversion `mat` and the statements about the model alone)
-/
-- the proofs are re-checked against regenerated text: simp sets are deliberately a superset of what one variant needs
set_option linter.unusedSimpArgs false
set_option linter.unusedVariables false

namespace C02Gen
open Pack (Row)
open LoopGen (OptRel StepRel forIn_map_rel_mem)
open Gen.BinCountAndLastEmpty

theorem le_get2?_eq : @get2? = @LoopGen.get2? := rfl
theorem le_pyRange_eq : @pyRange = @LoopGen.pyRange := rfl

/-- **`bin_count_and_last_empty`: generated code = model**, for every packing (every list of rows of six
integers, in the given order; no feasibility assumption).  The kernel cannot fail on an `n × 6` matrix. -/
theorem bin_count_and_last_empty_eq_model (rows : List Row) :
    bin_count_and_last_empty (mat rows) = some (BinObj.binCountAndLastEmpty rows) := by
  unfold bin_count_and_last_empty BinObj.binCountAndLastEmpty
  simp only [le_get2?_eq, le_pyRange_eq, IDX_BIN, mat_length, LoopGen.pyRange_zero_ofNat,
    LoopGen.range_length_eq_zipIdx]
  apply LoopGen.OptRel.eq
  rw [show some ((rows.length : Int) * ((BinObj.lastEmptyLoop rows (-1) (-1)).1 - 1)
        + (BinObj.lastEmptyLoop rows (-1) (-1)).2)
      = (some (BinObj.lastEmptyLoop rows (-1) (-1))).bind fun st => some ((rows.length : Int) * (st.1 - 1) + st.2)
      from rfl, lastEmptyLoop_eq, ← LoopGen.foldlM_zipIdx_fst _ rows 0]
  refine LoopGen.OptRel.bind (R' := fun b c => c = b) ?_ ?_
  · refine forIn_map_rel_mem _ _ _ _ _ ?_ _ _ rfl
    rintro ⟨a, i⟩ hmem ⟨cb, cs⟩ c hc
    have hc' : c = (cb, cs) := hc
    subst hc'
    have hrow : rows[i]? = some a := List.mem_zipIdx_iff_getElem?.mp hmem
    simp only [get_bin hrow, lastEmptyStep, Option.bind_eq_bind, Option.bind_some]
    by_cases h1 : a.bin > cb
    · simp [h1, StepRel]
    · by_cases h2 : a.bin = cb <;> simp [h1, h2, StepRel]
  · rintro b c hc
    have hc' : c = b := hc
    subst hc'
    simp [OptRel, Int.add_comm]

/-- the generated function on a concrete packing: three items, the last bin (2) holds one of them -/
example : bin_count_and_last_empty [[1, 1, 0, 0, 2, 2], [2, 2, 0, 0, 1, 1], [3, 1, 2, 0, 3, 3]] = some (3 * 1 + 1) := by
  decide
/-- a row that is too short: access outside the array -/
example : bin_count_and_last_empty [[1]] = none := by decide


end C02Gen
