import Model.TspEa
import Proofs.LoopGen
/-!
# C06 (tie between source and model) — the generated move kernels equal the hand-written models

`Gen/RevIfNotWorse.lean` and `Gen/RevIfHNotWorse.lean` are regenerated on every run from the current source of
`moptipyapps/tsp/ea1p1_revn.py:rev_if_not_worse` and `moptipyapps/tsp/fea1p1_revn.py:rev_if_h_not_worse`
(`harness/translate/loop2lean.py`): shallow embeddings of the Python text in the `Option` monad.  The kernels update
the tour `x` (and the frequency table `h`) in place; the generated functions therefore return the final arrays together
with the returned tour length.  The theorems below say that this text computes exactly what `TspEa.revIfNotWorse?` /
`TspEa.revIfHNotWorse?` (the models all C06 theorems are about) compute, for ALL index pairs, city counts, matrices,
tours, tables and lengths — including the inputs on which the model answers `none` (an access outside an array, or
`% 0`).  The hand models speak about cities and positions as natural numbers and about `h` as an `Array Int`; the
generated code about Python ints and lists: the statement converts explicitly (`x.map Int.ofNat`, `h.toList`).
(Neither kernel contains a loop: the reversal is a slice assignment, modelled by `getSlice` / `setSlice?` with
Python's slice rules.)

This file holds the statements about the primitives; the two theorems live in `Props/C06GenEA.lean` and
`Props/C06GenFEA.lean`, one file per generated kernel.
-/
-- the proofs are re-checked against regenerated text: simp sets are deliberately a superset of what one variant needs
set_option linter.unusedSimpArgs false
set_option linter.unusedVariables false

namespace C06Gen

/-! ### the primitives of the generated code against those of the model -/

/-- the two formulations of the index rule (negative wrap) agree -/
theorem idx?_eq_wrapIdx (len : Nat) (k : Int) : LoopGen.idx? len k = TspEa.wrapIdx len k := by
  unfold LoopGen.idx? TspEa.wrapIdx
  by_cases h1 : k < 0
  · have h2 : ¬ 0 ≤ k := by omega
    simp [h1, h2]
  · have h2 : 0 ≤ k := by omega
    simp [h1, h2]

/-- a tour read through an index VALUE -/
theorem get1?_tour (x : List Nat) (k : Int) :
    LoopGen.get1? (x.map Int.ofNat) k = (TspEa.getW? x k).map Int.ofNat := by
  unfold LoopGen.get1? TspEa.getW?
  rw [idx?_eq_wrapIdx, List.length_map]
  cases TspEa.wrapIdx x.length k with
  | none => rfl
  | some p => simp

/-- a tour read at a position -/
theorem get1?_tour_nat (x : List Nat) (i : Nat) :
    LoopGen.get1? (x.map Int.ofNat) (i : Int) = (x[i]?).map Int.ofNat := by
  rw [LoopGen.get1?_ofNat]; simp

theorem getW?_nat (x : List Nat) (i : Nat) : TspEa.getW? x (i : Int) = x[i]? := by
  unfold TspEa.getW? TspEa.wrapIdx
  by_cases h : i < x.length
  · have h' : (i : Int) < x.length := by omega
    simp [h']
  · have h' : ¬ (i : Int) < x.length := by omega
    simp [h']; omega

/-- `(j + 1) % n_cities` -/
theorem pyMod_succ (j n : Nat) :
    LoopGen.pyMod ((j : Int) + 1) (n : Int) = if n = 0 then none else some ((((j + 1) % n : Nat)) : Int) := by
  unfold LoopGen.pyMod
  by_cases hn : n = 0
  · simp [hn]
  · have hn' : ¬ (n : Int) = 0 := by omega
    simp only [hn, hn', if_false]
    rw [Int.fmod_eq_emod_of_nonneg _ (by omega)]
    norm_cast

/-- the reversal written with the list functions of the model -/
theorem map_applyRev (x : List Nat) (i j : Nat) :
    (TspEa.applyRev x i j).map Int.ofNat
      = if i = 0 then ((x.map Int.ofNat).take (j + 1)).reverse ++ (x.map Int.ofNat).drop (j + 1)
        else if i ≤ j then (x.map Int.ofNat).take i ++ (((x.map Int.ofNat).take (j + 1)).drop i).reverse
          ++ (x.map Int.ofNat).drop (j + 1)
        else x.map Int.ofNat := by
  unfold TspEa.applyRev TspEa.slice0 TspEa.sliceI
  by_cases h0 : i = 0
  · simp [h0, List.map_take, List.map_drop]
  · by_cases hij : i ≤ j <;> simp [h0, hij, List.map_take, List.map_drop]

theorem wrapIdx_lt {len : Nat} {k : Int} {p : Nat} (h : TspEa.wrapIdx len k = some p) : p < len := by
  unfold TspEa.wrapIdx at h
  by_cases h0 : 0 ≤ k
  · by_cases h1 : k < len
    · simp [h0, h1] at h; omega
    · simp [h0, h1] at h
  · by_cases h1 : 0 ≤ k + len
    · simp [h0, h1] at h; omega
    · simp [h0, h1] at h

/-- `h[k]` on the list form of the table -/
theorem get1?_table (h : Array Int) (k : Int) : LoopGen.get1? h.toList k = TspEa.hGet? h k := by
  unfold LoopGen.get1? TspEa.hGet?
  rw [idx?_eq_wrapIdx, Array.length_toList]
  cases TspEa.wrapIdx h.size k with
  | none => rfl
  | some p => simp

/-- `h[k] += 1` on the list form of the table: read, add, write back -/
theorem incr_table (h : Array Int) (k : Int) :
    ((LoopGen.get1? h.toList k).bind fun v => LoopGen.set1? h.toList k (v + 1))
      = (TspEa.hInc? h k).map Array.toList := by
  unfold LoopGen.get1? LoopGen.set1? TspEa.hInc?
  rw [idx?_eq_wrapIdx, Array.length_toList]
  cases hw : TspEa.wrapIdx h.size k with
  | none => rfl
  | some p =>
    have hp : p < h.size := wrapIdx_lt hw
    have hp' : p < h.toList.length := by simpa using hp
    simp only [Option.bind_some, Option.map_some, List.getElem?_eq_getElem hp', Array.toList_modify,
      List.modify_eq_set (· + 1) p h.toList]
    simp [hp]

theorem incr_table_bind {β : Type} (h : Array Int) (k : Int) (F : List Int → Option β) :
    ((LoopGen.get1? h.toList k).bind fun v => (LoopGen.set1? h.toList k (v + 1)).bind F)
      = (TspEa.hInc? h k).bind fun h' => F h'.toList := by
  rw [← Option.bind_assoc, incr_table]
  cases TspEa.hInc? h k <;> rfl

end C06Gen
