import Proofs.GameEncSpace
import Proofs.GameEncUnique
/-!
# C15 — game permutations decode to consistent earliest-slot schedules

Property theorems only.  Helper lemmas: `Proofs/GameEnc.lean` (code ↔ (home, away); refinement of
the stateful triple loop to an explicit list), `Proofs/GameEncCount.lean`,
`Proofs/GameEncBalance.lean` (the parity argument, closed form `last_balance`),
`Proofs/GameEncTeam.lean`, `Proofs/GameEncSpread.lean`, `Proofs/GameEncSpace.lean`,
`Proofs/GameEncMapBase.lean`, `Proofs/GameEncMapLoop.lean`, `Proofs/GameEncRender.lean`,
`Proofs/GameEncSchedule.lean`, `Proofs/GameEncPlan.lean`, `Proofs/GameEncUnique.lean`.

All statements are for **every** number of teams `n` and of rounds and every input list — there
is no size bound anywhere.
-/
namespace GameEnc

/-! ## the search space -/

/-- **domain**: `search_space_for_n_and_rounds(n, rounds)` succeeds exactly for
`2 ≤ n ≤ 100000`, `rounds ≥ 1`, `(n, rounds) ≠ (2, 1)` (one single game: rejected by the
`Permutations` constructor), and then returns the sorted list of generated games. -/
theorem searchSpace_domain (n rounds : Nat) :
    ((searchSpace? n rounds).isSome = true ↔
      (2 ≤ n ∧ n ≤ 100000 ∧ 1 ≤ rounds ∧ ¬ (n = 2 ∧ rounds = 1))) ∧
    (∀ bp, searchSpace? n rounds = some bp → bp = sortInts (rawGames n rounds)) := by
  refine ⟨⟨fun h => ?_, fun ⟨h1, h2, h3, h4⟩ => by rw [searchSpace?_isSome n rounds h1 h2 h3 h4]; rfl⟩,
    fun bp h => (searchSpace?_some n rounds bp h).2.2.1⟩
  by_cases hd : n < 2 ∨ 100000 < n ∨ rounds = 0 ∨ (n = 2 ∧ rounds = 1)
  · rw [searchSpace?_none_small n rounds hd] at h; cases h
  · omega

/-- every entry of the blueprint — hence of every point of the permutation space — is a game code
in `0 .. n(n-1)-1` (the range `map_games` is guaranteed, C13) -/
theorem searchSpace_codes (n rounds : Nat) (bp x : List Int) (h : searchSpace? n rounds = some bp)
    (hx : x.Perm bp) : CodesValid n bp ∧ CodesValid n x := by
  obtain ⟨_, _, _, hp⟩ := searchSpace?_some n rounds bp h
  have hb : CodesValid n bp := fun g hg => pure_codes n rounds g ((hp.mem_iff).mp hg)
  exact ⟨hb, fun g hg => hb g ((hx.mem_iff).mp hg)⟩

/-- the blueprint has `rounds * n(n-1)/2` entries -/
theorem searchSpace_length (n rounds : Nat) (bp : List Int) (h : searchSpace? n rounds = some bp) :
    bp.length * 2 = rounds * (n * (n - 1)) := by
  obtain ⟨_, _, _, hp⟩ := searchSpace?_some n rounds bp h
  rw [hp.length_eq]; exact pure_length n rounds

/-- **each unordered pairing occurs exactly `rounds` times** -/
theorem searchSpace_pairs (n rounds : Nat) (bp : List Int) (h : searchSpace? n rounds = some bp) :
    PairsSpec n rounds bp := by
  obtain ⟨_, _, _, hp⟩ := searchSpace?_some n rounds bp h
  intro a ha b hb
  rw [hp.countP_eq]; exact pure_pairs n rounds a b hb ha

/-- **home/away counts of a pairing differ by at most one** (they are `rounds/2` each for an even
number of rounds, and `(rounds-1)/2` plus one extra game for one of the two otherwise) -/
theorem searchSpace_pair_balance (n rounds : Nat) (bp : List Int) (h : searchSpace? n rounds = some bp) :
    PairBalance n bp := by
  obtain ⟨_, _, _, hp⟩ := searchSpace?_some n rounds bp h
  intro a ha b hb
  rw [hp.countP_eq, hp.countP_eq]
  obtain ⟨x, hx, c1, c2⟩ := pure_pair_counts n rounds a b hb ha
  rw [c1, c2]
  have : x = 0 ∨ x = 1 := by omega
  rcases this with rfl | rfl <;> omega

/-- **for every team the numbers of home and of away games differ by at most one** — for every
number of teams and every number of rounds (parity argument over the last round of an odd number
of rounds: `Proofs/GameEncBalance.lean: last_balance`) -/
theorem searchSpace_team_balance (n rounds : Nat) (bp : List Int) (h : searchSpace? n rounds = some bp) :
    TeamBalance n bp := by
  obtain ⟨_, _, _, hp⟩ := searchSpace?_some n rounds bp h
  intro t _
  unfold homeCount awayCount
  rw [hp.countP_eq, hp.countP_eq]
  exact pure_team_balance n rounds t

/-- the docstring's fairness rule: the home-game counts of any two teams differ by at most one
(every team plays `rounds * (n-1)` games) -/
theorem searchSpace_home_spread (n rounds : Nat) (bp : List Int) (h : searchSpace? n rounds = some bp) :
    HomeSpread n bp ∧ ∀ t < n, homeCount n bp t + awayCount n bp t = rounds * (n - 1) := by
  obtain ⟨_, _, _, hp⟩ := searchSpace?_some n rounds bp h
  refine ⟨fun t ht u hu => ?_, fun t ht => ?_⟩
  · unfold homeCount
    rw [hp.countP_eq, hp.countP_eq]
    exact pure_home_spread n rounds t u ht hu
  · unfold homeCount awayCount
    rw [hp.countP_eq, hp.countP_eq]
    exact pure_home_add_away n rounds t ht

/-! ## decoding -/

/-- the executable schedule follows the documented rule: games in order, each on the earliest day
on which both teams are free, or dropped -/
theorem schedule_earliestSlot (n days : Nat) (x : List Int) : EarliestSlot n days x (schedule n days x) := by
  have := earliest_fold n days x [] [] EarliestSlot.nil
  simpa [schedule] using this

/-- the documented rule determines the schedule uniquely -/
theorem earliestSlot_unique (n days : Nat) (x : List Int) (S S' : List Slot)
    (h : EarliestSlot n days x S) (h' : EarliestSlot n days x S') : S = S' :=
  earliest_unique n days x S S' h h'

/-- **earliest slot**: for every list of integers `x`, every `n ≥ 2`, every number of days and every
prior content of the destination, `map_games` terminates without error and leaves exactly the plan
of the earliest-slot schedule of `x` -/
theorem mapGames_earliest_slot (x : List Int) (days n : Nat) (y0 : Plan) (hn : 2 ≤ n)
    (hs : Shape y0 days n) :
    ∃ S, EarliestSlot n days x S ∧ mapGames x days n y0 = .ok (render S days n) := by
  obtain ⟨y, h1, h2⟩ := renders_loop days n hn x (fill0 y0) [] (renders_nil y0 days n hs)
  refine ⟨schedule n days x, schedule_earliestSlot n days x, ?_⟩
  unfold mapGames
  rw [h1, renders_eq_render y _ days n h2]
  rfl

/-- the result does not depend on what the destination plan contained before the call -/
theorem mapGames_stateless (x : List Int) (days n : Nat) (y0 y0' : Plan)
    (hs : Shape y0 days n) (hs' : Shape y0' days n) : mapGames x days n y0 = mapGames x days n y0' := by
  unfold mapGames
  rw [fill0_eq y0 days n hs, fill0_eq y0' days n hs']

/-- what the remaining clauses need: the result is the rendering of a well-formed schedule -/
theorem mapGames_result (x : List Int) (days n : Nat) (y0 y : Plan) (hn : 2 ≤ n) (hs : Shape y0 days n)
    (h : mapGames x days n y0 = .ok y) :
    ∃ S, EarliestSlot n days x S ∧ Renders y S days n ∧ SlotsOK S days n := by
  obtain ⟨S, he, hm⟩ := mapGames_earliest_slot x days n y0 hn hs
  rw [hm] at h
  cases h
  exact ⟨S, he, render_renders S days n, earliest_ok n days hn x S he⟩

/-- **consistency**: `y[d][h] = a+1` exactly when `y[d][a] = -(h+1)` -/
theorem mapGames_consistent (x : List Int) (days n : Nat) (y0 y : Plan) (hn : 2 ≤ n) (hs : Shape y0 days n)
    (h : mapGames x days n y0 = .ok y) : Consistent y days n := by
  obtain ⟨S, _, hr, ok⟩ := mapGames_result x days n y0 y hn hs h
  exact renders_consistent y S days n hr ok

/-- no team plays itself -/
theorem mapGames_noSelfPlay (x : List Int) (days n : Nat) (y0 y : Plan) (hn : 2 ≤ n) (hs : Shape y0 days n)
    (h : mapGames x days n y0 = .ok y) : NoSelfPlay y days n := by
  obtain ⟨S, _, hr, ok⟩ := mapGames_result x days n y0 y hn hs h
  exact renders_noSelfPlay y S days n hr ok

/-- no team plays twice on one day: at most one team lists `t` as its opponent -/
theorem mapGames_oncePerDay (x : List Int) (days n : Nat) (y0 y : Plan) (hn : 2 ≤ n) (hs : Shape y0 days n)
    (h : mapGames x days n y0 = .ok y) : OncePerDay y days n := by
  obtain ⟨S, _, hr, ok⟩ := mapGames_result x days n y0 y hn hs h
  exact renders_oncePerDay y S days n hr ok

/-- every stored value lies in `-n .. n`, the range of the plan's storage type
`int_range_to_dtype(-n, n)`, and the shape is unchanged -/
theorem mapGames_inRange (x : List Int) (days n : Nat) (y0 y : Plan) (hn : 2 ≤ n) (hs : Shape y0 days n)
    (h : mapGames x days n y0 = .ok y) : Shape y days n ∧ InRange y days n := by
  obtain ⟨S, _, hr, ok⟩ := mapGames_result x days n y0 y hn hs h
  exact ⟨hr.1, renders_inRange y S days n hr ok⟩

/-- a game is never scheduled more often than the permutation contains it -/
theorem mapGames_notMoreOften (x : List Int) (days n : Nat) (y0 y : Plan) (hn : 2 ≤ n) (hs : Shape y0 days n)
    (h : mapGames x days n y0 = .ok y) : NotMoreOften n days x y := by
  obtain ⟨S, he, hr, ok⟩ := mapGames_result x days n y0 y hn hs h
  exact renders_notMoreOften n days x y S he hr ok

/-- **no access outside the arrays** (C13): for `n ≥ 2` and a `days × n` destination *every* integer
list `x` is decoded without an out-of-bounds access or a division by zero — in particular every
point of the permutation space, whose entries are game codes in `0 .. n(n-1)-1`
(`searchSpace_codes`). -/
theorem mapGames_noOOB (x : List Int) (days n : Nat) (y0 : Plan) (hn : 2 ≤ n) (hs : Shape y0 days n) :
    ∃ y, mapGames x days n y0 = .ok y := by
  obtain ⟨S, _, hm⟩ := mapGames_earliest_slot x days n y0 hn hs
  exact ⟨_, hm⟩

/-- the guard `n ≥ 2` is exact: with fewer than two teams the first game raises
`ZeroDivisionError` (`// 0` for `n = 1`, `% 0` for `n = 0`); an empty `x` only zeroes the plan -/
theorem mapGames_zdiv (x : List Int) (days n : Nat) (y0 : Plan) (hn : n < 2) :
    mapGames x days n y0 = if x = [] then .ok (fill0 y0) else .error .zdiv := by
  cases x with
  | nil => rfl
  | cons g xs => simp only [mapGames, gameLoop_zdiv days n hn, reduceCtorEq, if_false]

/-! ### non-vacuity: concrete inputs meet the hypotheses -/
example : (searchSpace? 4 3).isSome = true := (searchSpace_domain 4 3).1.mpr (by omega)
example : (searchSpace? 7 5).isSome = true := (searchSpace_domain 7 5).1.mpr (by omega)
example : searchSpace? 2 1 = none := by
  have := (searchSpace_domain 2 1).1
  cases h : searchSpace? 2 1 with
  | none => rfl
  | some bp => rw [h] at this; simp at this
/-- the unsorted list of `search_space_for_n_and_rounds(4, 3)`: rounds 0 and 1 are oriented by the
round number, the last round alternates -/
example : rawGames 4 3 = [3, 6, 7, 9, 10, 11, 0, 1, 4, 2, 5, 8, 3, 1, 7, 2, 10, 8] := by decide +kernel
example : Shape [[7, 7, 7, 7], [7, 7, 7, 7]] 2 4 := by decide
example : mapGames [5, -3, 100] 2 4 [[7, 7, 7, 7], [7, 7, 7, 7]] = .ok [[0, 4, 0, -2], [-4, 3, -2, 1]] := by
  rfl
/-- a game that finds no free day is dropped -/
example : schedule 4 1 [1, 2] = [{ day := 0, home := 0, away := 2 }] := by decide +kernel

end GameEnc
