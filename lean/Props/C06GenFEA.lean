import Gen.RevIfHNotWorse
import Props.C06Gen
/-!
# C06 (tie between source and model) — `Gen/RevIfHNotWorse.lean` equals its hand-written model
(see `Props/C06Gen.lean` for the statements about the primitives)
-/
-- the proofs are re-checked against regenerated text: simp sets are deliberately a superset of what one variant needs
set_option linter.unusedSimpArgs false
set_option linter.unusedVariables false

namespace C06Gen
open Gen.RevIfHNotWorse

theorem fea_get1?_eq : @get1? = @LoopGen.get1? := rfl
theorem fea_get2?_eq : @get2? = @LoopGen.get2? := rfl
theorem fea_set1?_eq : @set1? = @LoopGen.set1? := rfl
theorem fea_pyMod_eq : @pyMod = @LoopGen.pyMod := rfl
theorem fea_getSlice_eq : @getSlice = @LoopGen.getSlice := rfl
theorem fea_setSlice?_eq : @setSlice? = @LoopGen.setSlice? := rfl

/-- **`rev_if_h_not_worse`: generated code = model**, for all positions, city counts, matrices, tours, lengths and
every frequency table `h` (any size, any content; the model's `Array Int` is handed over as `h.toList`).  The
result of the generated function is `(h after the call, x after the call, returned length)`.  `h` is indexed with
the tour lengths `y` and `y + dy` as they are (a negative one wraps, one outside `[-len, len)` leaves the table:
`none` on both sides). -/
theorem rev_if_h_not_worse_eq_model (i j n : Nat) (d : Tsp.Matrix) (h : Array Int) (x : List Nat) (y : Int) :
    rev_if_h_not_worse (i : Int) (j : Int) (n : Int) d h.toList (x.map Int.ofNat) y
      = (TspEa.revIfHNotWorse? i j n d h x y).map fun o => (o.h.toList, o.x.map Int.ofNat, o.y) := by
  unfold rev_if_h_not_worse TspEa.revIfHNotWorse? TspEa.delta?
  simp only [fea_get1?_eq, fea_get2?_eq, fea_set1?_eq, fea_pyMod_eq, fea_getSlice_eq, fea_setSlice?_eq, get1?_tour,
    getW?_nat, pyMod_succ, LoopGen.setSlice?_none_lo]
  cases hxi : x[i]? with
  | none => simp
  | some xi =>
  cases hxim1 : TspEa.getW? x ((i : Int) - 1) with
  | none => simp
  | some xim1 =>
  cases hxj : x[j]? with
  | none => simp
  | some xj =>
  by_cases hn : n = 0
  · simp [hn]
  cases hxjp1 : x[(j + 1) % n]? with
  | none => simp only [hn, if_false, Option.bind_some, Option.bind_eq_bind, getW?_nat, hxjp1, Option.map_none,
      Option.bind_none, Option.map_some]
  | some xjp1 =>
  simp only [hn, if_false, Option.map_some, Option.bind_eq_bind, Option.bind_some, getW?_nat, hxjp1,
    Int.ofNat_eq_natCast, LoopGen.get2?_ofNat, Tsp.entry?]
  cases (d[xim1]?.bind fun r => r[xj]?) with
  | none => simp
  | some a =>
  cases (d[xi]?.bind fun r => r[xjp1]?) with
  | none => simp
  | some b =>
  cases (d[xim1]?.bind fun r => r[xi]?) with
  | none => simp
  | some c =>
  cases (d[xj]?.bind fun r => r[xjp1]?) with
  | none => simp
  | some e =>
  simp only [Option.bind_some, Option.pure_def]
  have hil : i < x.length := LoopGen.lt_of_getElem? hxi
  have hjl : j < x.length := LoopGen.lt_of_getElem? hxj
  simp only [incr_table_bind]
  simp only [get1?_table]
  cases hI1 : TspEa.hInc? h y with
  | none => simp
  | some h1 =>
  simp only [Option.bind_some]
  cases hI2 : TspEa.hInc? h1 (y + (a + b - c - e)) with
  | none => simp
  | some h2 =>
  simp only [Option.bind_some]
  cases hG1 : TspEa.hGet? h2 (y + (a + b - c - e)) with
  | none => simp
  | some hy2 =>
  simp only [Option.bind_some]
  cases hG2 : TspEa.hGet? h2 y with
  | none => simp
  | some hy =>
  simp only [Option.bind_some]
  by_cases hle : hy2 ≤ hy
  · simp only [hle, if_true, Option.map_some, map_applyRev, Int.natCast_eq_zero]
    by_cases hi0 : i = 0
    · subst hi0
      have := LoopGen.setSlice_rev0 (x.map Int.ofNat) j (by simpa using hjl)
      simp [this]
    · have := LoopGen.setSlice_revI (x.map Int.ofNat) i j (by omega) (by simpa using hil) (by simpa using hjl)
      simp only [hi0, if_false, this, Option.bind_some]
      try (by_cases hij : i ≤ j <;> simp [hij])
  · simp [hle]

/-- the FEA kernel counts both lengths in `h` (here indices 12 and 8) and accepts because `h[8] ≤ h[12]` -/
example : rev_if_h_not_worse 1 3 5
    [[0, 1, 2, 3, 4], [1, 0, 1, 2, 3], [2, 1, 0, 1, 2], [3, 2, 1, 0, 1], [4, 3, 2, 1, 0]]
    (List.replicate 13 0) [0, 3, 2, 1, 4] 12
    = some ([0, 0, 0, 0, 0, 0, 0, 0, 1, 0, 0, 0, 1], [0, 1, 2, 3, 4], 8) := by decide
/-- a table that is too short for the tour length: access outside `h` -/
example : rev_if_h_not_worse 1 3 5
    [[0, 1, 2, 3, 4], [1, 0, 1, 2, 3], [2, 1, 0, 1, 2], [3, 2, 1, 0, 1], [4, 3, 2, 1, 0]]
    (List.replicate 12 0) [0, 3, 2, 1, 4] 12 = none := by decide


end C06Gen
