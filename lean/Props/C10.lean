import Proofs.Ode
/-!
# C10 — controlled-system simulation terminates, bounded and self-consistent

Property theorems only (helper lemmas: `Proofs/Ode.lean`, model and specification: `Model/Ode.lean`).

The theorems are about the *logic* of `moptipyapps/dynamic_control/ode.py` — the retry state
machine of `run_ode`, the row-acceptance logic, the bookkeeping of `__IntegrationState.f` and the
index arithmetic of the figure of merit — for **every** behaviour of the runtime parts (scipy's
RK45, dense interpolation, controller, equations, float formulas), which are parameters of the
model constrained only by `EnvOk` (see its docstring).  Not proved (runtime): that scipy's inner
stepping stops, float evaluation, accuracy of the integration.

The hypotheses `0 < maxTime` and `0 ≤ gamma` below are consequences of `System.__init__`
accepting its parameters (`sysOk`, fix 550679e: `gamma > 0`, times `> 1e-5`, all finite).
-/
namespace Ode

/-- `_is_ok`: a vector passes exactly if every entry is finite and strictly inside ±1e10
(NaN and ±inf fail, the bounds themselves fail). -/
theorem isOk_iff (r : List V) : rowOk r = true ↔ ∀ v ∈ r, v.InRange := by
  simp only [rowOk, List.all_eq_true]
  exact ⟨fun h v hv => (V.isOk_iff' v).mp (h v hv), fun h v hv => (V.isOk_iff' v).mpr (h v hv)⟩

/-- State anchor (`max_ok_t / min_error_t / is_ok`): after any sequence of evaluations of the
right-hand side, `is_ok` holds iff every evaluation stayed in range, and then `min_error_t = inf`;
otherwise `min_error_t` is the *smallest* time of an out-of-range evaluation; `max_ok_t` is `-inf`
or a number and never exceeds `min_error_t`. -/
theorem fState_invariant (evs : List Eval) (hp : ∀ ev ∈ evs, ev.tPrev < ev.t) :
    let s := FSt.init.evals evs
    (s.isOk = true → s.minErr = .posInf ∧ ∀ ev ∈ evs, ev.ok = true) ∧
    (s.isOk = false → ∃ ev ∈ evs, ev.ok = false ∧ s.minErr = .fin ev.t ∧
        ∀ ev' ∈ evs, ev'.ok = false → ev.t ≤ ev'.t) ∧
    (s.maxOk = .negInf ∨ ∃ q, s.maxOk = .fin q) ∧ s.maxOk.le s.minErr = true := by
  have h := FInv.init.evals evs hp
  simp only [List.nil_append] at h
  exact ⟨h.okCase, h.badCase, h.maxNum, h.le⟩

/-- **Termination and shape.**  For every integrator behaviour, controller, equations and start:
the outer loop makes at most 5 cycles (no assumption at all); and, under the runtime assumptions,
the result is either exactly `steps` rows or the single failure row (start state, every control
entry `1e100`, time 0). -/
theorem runOde_terminates_shape (e : Env) (maxTime : Rat) :
    (runOde e maxTime).cycles ≤ 5 ∧
    (EnvOk e → 0 < maxTime →
      (∃ rs, (runOde e maxTime).out = .rows rs ∧ rs.length = e.steps) ∨
      (∃ row, (runOde e maxTime).out = .failure row ∧ IsFailureRow e.start e.cdim row)) := by
  refine ⟨(runFrom_cycles e 0 maxTime).2 (by omega), fun he hm => ?_⟩
  have h := (runFrom_spec e he 0 maxTime hm).2.2.2.2.2
  unfold runOde
  cases hout : (runFrom e 0 maxTime).out with
  | rows rs => rw [hout] at h; exact Or.inl ⟨rs, rfl, h.count⟩
  | failure row => rw [hout] at h; subst h; exact Or.inr ⟨_, rfl, failRow_isFailure e⟩
  | stuck => rw [hout] at h; exact h.elim
  | oob => rw [hout] at h; exact h.elim
  | badBound => rw [hout] at h; exact h.elim

/-- **Rows.**  If `steps` rows are returned: the first row holds the start state, the times are the
grid of the last cycle — strictly increasing from 0 and never beyond the *original* `max_time` —,
every entry is finite and strictly inside ±1e10, and the control entries of every row are the
controller's output for that row's state and time. -/
theorem runOde_rows_ok (e : Env) (he : EnvOk e) (maxTime : Rat) (hm : 0 < maxTime)
    (rs : List (List V)) (h : (runOde e maxTime).out = .rows rs) :
    GoodRows e.start e.cdim e.steps (specCtrl e) maxTime rs := by
  obtain ⟨_, h2, _, _, _, h5⟩ := runFrom_spec e he 0 maxTime hm
  unfold runOde at h
  rw [h] at h5
  exact h5.mono h2

/-- **The time limit never grows** (fix 63f4879).  The per-cycle time limits start with `max_time`
and never increase from cycle to cycle; the limit of the last cycle is positive and at most the
original `max_time`.  If moreover the integrator never evaluates the right-hand side after its
`t_bound` (`EvalsWithin`; scipy's last stage `t + (t_bound - t)` can round to one ulp above), every
new limit is *strictly* below the previous one. -/
theorem runOde_time_limit (e : Env) (he : EnvOk e) (maxTime : Rat) (hm : 0 < maxTime) :
    ((runOde e maxTime).trace.head?).map (·.maxTime) = some maxTime ∧
    ((runOde e maxTime).trace.map (·.maxTime)).Pairwise (· ≥ ·) ∧
    (EvalsWithin e → ((runOde e maxTime).trace.map (·.maxTime)).Pairwise (· > ·)) ∧
    0 < (runOde e maxTime).finalMax ∧ (runOde e maxTime).finalMax ≤ maxTime := by
  obtain ⟨h1, h2, h3, _, h5, _⟩ := runFrom_spec e he 0 maxTime hm
  exact ⟨runFrom_trace_head e 0 maxTime, h3, h5, h1, h2⟩

/-- every row of a returned simulation was interpolated by an interpolator whose range contains the
row's time (rows 1…): self-consistency of the segment search.  Stated for one cycle. -/
theorem rows_from_covering_interpolator (e : Env) (cyc : Nat) (segs : List Seg) (rest : List Rat)
    (st : LoopSt) (hc : segs[st.j]? = some st.cur) (hf : (rowLoop e cyc segs rest 1 st).fin = true) :
    ∃ rows, (rowLoop e cyc segs rest 1 st).acc = st.acc ++ rows ∧
      List.Forall₂ (fun t row => ∃ j d, segs[j]? = some d ∧ d.1 ≤ t ∧ t ≤ d.2 ∧
        row = e.dense cyc j t ++ e.ctrl (e.dense cyc j t) t ++ [.fin t]) rest rows := by
  obtain ⟨rows, h1, h2⟩ := ((rowLoop_spec e cyc segs rest 1 st).1 hf).2 hc
  refine ⟨rows, h1, h2.imp ?_⟩
  rintro t row ⟨j, d, hd, hh, hr, _⟩
  simp only [Seg.has, Bool.and_eq_true, decide_eq_true_eq] at hh
  exact ⟨j, d, hd, hh.1, hh.2, hr⟩

/-- **Figure of merit, index arithmetic** (also C13): on a well-formed matrix, whatever the
destination held before, the kernel succeeds without any access outside `ode`/`dest`, the cursor
ends exactly at `len(dest)` = `(rows-1)·(ncols-1-state_dim+use) - use`, and every entry of
`dest` has been written. -/
theorem jCompute_fills_exactly (ode : List (List Rat)) (ncols sd use : Nat) (gamma : Rat)
    (dest : List (Option Rat)) (hw : OdeWF ode ncols sd use)
    (hd : dest.length = (ode.length - 1) * (ncols - 1 - sd + use) - use) :
    ∃ s', jCompute ode sd use gamma dest = some s' ∧ s'.index = dest.length ∧
      s'.dest.length = dest.length ∧ ∀ x ∈ s'.dest, x ≠ none := by
  obtain ⟨s', h1, h2, h3⟩ := jCompute_spec ode ncols sd use gamma dest hw hd
  refine ⟨s', h1, h2, ?_, ?_⟩
  · rw [h3, List.length_map, pairVals_length, hd]
    cases ode with
    | nil => exact absurd rfl hw.nonempty
    | cons r0 rest =>
      simp only [Bool.false_eq_true, if_false, List.tail_cons, List.length_cons, Nat.add_sub_cancel]
      exact destSize_eq _ _ _
  · intro x hx
    rw [h3] at hx
    obtain ⟨v, _, rfl⟩ := List.mem_map.mp hx
    simp

/-- **Figure of merit = documented formula.**  For a simulation with at least two rows, non-zero
simulated time and all entries inside ±1e100 (no clamping):
`J = (Σ_{i<m-1} (t_{i+1}-t_i)·(γ·Σ_c u_{i,c}² + [i≥1]·Σ_{s<use} x_{i,s}²)) / t_{m-1}`
where `use = state_dim` if `use_state_dims ≤ 0`. -/
theorem j_eq_documented (ode : List (List Rat)) (ncols sd : Nat) (useArg : Int) (gamma : Rat)
    (hw : OdeWF ode ncols sd (if useArg ≤ 0 then sd else useArg.toNat)) (hm : 2 ≤ ode.length)
    (ht : timeAt ode (ode.length - 1) ≠ 0)
    (hb : ∀ r ∈ ode, ∀ v ∈ r, -D100 < v ∧ v < D100) :
    jFromOde ode sd useArg gamma = .val (docJ ode sd (if useArg ≤ 0 then sd else useArg.toNat) gamma) := by
  rw [jFromOde_eq ode ncols sd useArg gamma hw hm, if_neg ht]
  cases ode with
  | nil => simp at hm
  | cons r0 rest =>
    have hu : (if useArg ≤ 0 then sd else useArg.toNat) ≤ ncols := by
      have := hw.use_le; have := hw.wide; omega
    rw [docJ_eq_pairDoc, List.headD_cons, List.tail_cons,
      pairVals_sum ncols sd _ gamma r0 rest false hu (hw.rows r0 (by simp))
        (fun r hr => hw.rows r (by simp [hr])) hb]

/-- **Figure of merit ≥ 0.**  With `gamma ≥ 0` (guaranteed by `System`), non-decreasing times
starting at a non-negative time, the value returned by `j_from_ode` is non-negative (also when
entries are clamped, and for the constant `1e200` of a failed simulation). -/
theorem j_nonneg (ode : List (List Rat)) (ncols sd : Nat) (useArg : Int) (gamma : Rat) (hg : 0 ≤ gamma)
    (hw : OdeWF ode ncols sd (if useArg ≤ 0 then sd else useArg.toNat))
    (hinc : (ode.map (fun r => r.getLastD 0)).Pairwise (· ≤ ·)) (h0 : 0 ≤ timeAt ode 0)
    (q : Rat) (h : jFromOde ode sd useArg gamma = .val q) : 0 ≤ q := by
  by_cases hm : 2 ≤ ode.length
  · rw [jFromOde_eq ode ncols sd useArg gamma hw hm] at h
    split at h
    · cases h
    · rename_i ht
      cases h
      cases ode with
      | nil => simp at hm
      | cons r0 rest =>
        have hpos : 0 < timeAt (r0 :: rest) ((r0 :: rest).length - 1) := by
          have hle : timeAt (r0 :: rest) 0 ≤ timeAt (r0 :: rest) ((r0 :: rest).length - 1) := by
            have hl : (r0 :: rest).length - 1 < ((r0 :: rest).map (fun r => r.getLastD 0)).length := by simp
            have h0' : 0 < ((r0 :: rest).map (fun r => r.getLastD 0)).length := by simp
            have := List.pairwise_iff_getElem.mp hinc 0 ((r0 :: rest).length - 1) h0' hl
              (by simp at hm ⊢; omega)
            rw [List.getElem_map, List.getElem_map] at this
            rw [timeAt_eq _ 0 (by simp), timeAt_eq _ _ (by simp)]
            exact this
          exact lt_of_le_of_ne (le_trans h0 hle) (Ne.symm ht)
        apply div_nonneg _ (le_of_lt hpos)
        apply List.sum_nonneg
        exact pairVals_nonneg ncols sd _ gamma hg r0 rest false (by simpa using hinc)
  · unfold jFromOde at h
    rw [if_pos (by omega)] at h
    cases h
    unfold D200; positivity

/-! ### non-vacuity: the hypotheses are satisfiable by concrete, non-trivial inputs -/

/-- the documentation example of `j_from_ode`: 4 rows, 3 state and 1 control column -/
def exOde : List (List Rat) := [[1, 2, 3, 4, 0], [5, 6, 7, 8, 1], [9, 6, 4, 3, 3], [7, 4, 2, 1, 7]]

example : OdeWF exOde 5 3 2 := ⟨by decide, by decide, by decide, by decide⟩
example : jFromOde exOde 3 2 (1 / 2) = .val ((8 + 64 + 72 + 50 + 18 + 144 + 324) / 7) := by decide +kernel
example : docJ exOde 3 2 (1 / 2) = 680 / 7 := by decide +kernel

/-- a two-cycle environment (all times scale with the limit `m`): in cycle 1 the integrator makes an
in-range evaluation at `m/2` and an out-of-range one (control `+inf`) at `3m/4`; the limit shrinks
from 4 to `3 - 1/4`; cycle 2 finishes with one interpolator `[0,m]`; 3 rows are built on the grid
`0, m/2, m`; state = `[t]`, control = `[2·state]`. -/
def exEnv : Env where
  start := [.fin 0]
  cdim := 1
  steps := 3
  integ := fun c m =>
    if c = 1 then ⟨[⟨0, -1, [.fin 0], [.fin 1]⟩],
      [⟨[⟨m / 2, m / 2 - 1, [.fin 0], [.fin 1]⟩], .running, (0, m / 2)⟩,
       ⟨[⟨3 * m / 4, 3 * m / 4 - 1, [.posInf], []⟩], .running, (m / 2, m)⟩]⟩
    else ⟨[⟨0, -1, [.fin 0], [.fin 1]⟩], [⟨[⟨m / 4, m / 4 - 1, [.fin 0], [.fin 1]⟩], .finished, (0, m)⟩]⟩
  grid := fun m => [0, m / 2, m]
  dense := fun _ _ t => [.fin t]
  ctrl := fun s _ => [match s.headD .nan with | .fin q => .fin (2 * q) | x => x]
  shrink1 := fun _ b => match b with
    | .fin y => .fin (y - 1 / 4)
    | _ => .negInf
  shrink2 := fun _ _ => .negInf
  nextUp := fun m => m


/-- the runtime assumptions are satisfiable -/
theorem exEnv_ok : EnvOk exEnv where
  steps_pos := by decide
  dense_len := by intros; rfl
  ctrl_len := by intros; rfl
  grid_len := by intros; rfl
  grid_head := by intros; rfl
  grid_inc := by
    intro m hm
    simp only [exEnv, List.pairwise_cons, List.mem_cons, List.not_mem_nil, or_false, forall_eq_or_imp,
      forall_eq, false_imp_iff, implies_true, List.Pairwise.nil, and_true]
    refine ⟨⟨by linarith, hm⟩, by linarith⟩
  grid_le := by
    intro m hm t ht
    simp only [exEnv, List.mem_cons, List.not_mem_nil, or_false] at ht
    rcases ht with rfl | rfl | rfl <;> linarith
  integ_stops := by
    intro c m
    by_cases hc : c = 1
    · simp only [exEnv, hc, if_true, collect, evals_isOk]
      simp [FSt.init, Eval.ok, rowOk, V.isOk, LIM]
      split <;> simp
    · simp only [exEnv, hc, if_false, collect, evals_isOk]
      simp [FSt.init, Eval.ok, rowOk, V.isOk, LIM]
      split <;> simp
  up_ge := by intro m; exact le_refl m
  evals_le := by
    intro c m hm ev hev
    by_cases hc : c = 1
    · simp only [exEnv, hc, if_true, allEvals, List.flatMap_cons, List.flatMap_nil, List.mem_append,
        List.mem_cons, List.not_mem_nil, or_false] at hev
      rcases hev with rfl | rfl | rfl <;> simp only [exEnv] <;> linarith
    · simp only [exEnv, hc, if_false, allEvals, List.flatMap_cons, List.flatMap_nil, List.mem_append,
        List.mem_cons, List.not_mem_nil, or_false] at hev
      rcases hev with rfl | rfl <;> simp only [exEnv] <;> linarith
  evals_prev := by
    intro c m ev hev
    by_cases hc : c = 1
    · simp only [exEnv, hc, if_true, allEvals, List.flatMap_cons, List.flatMap_nil, List.mem_append,
        List.mem_cons, List.not_mem_nil, or_false] at hev
      rcases hev with rfl | rfl | rfl <;> simp
    · simp only [exEnv, hc, if_false, allEvals, List.flatMap_cons, List.flatMap_nil, List.mem_append,
        List.mem_cons, List.not_mem_nil, or_false] at hev
      rcases hev with rfl | rfl <;> simp
  shrink1_lt := by intro a q; simp [exEnv, V.lt]
  shrink1_up := by intro a q m h; simp only [exEnv, V.le, decide_eq_true_eq] at h ⊢; linarith
  shrink2_lt := by intros; rfl


example : (runOde exEnv 4).cycles = 2 := by decide +kernel
example : (runOde exEnv 4).out =
    .rows [[.fin 0, .fin 0, .fin 0], [.fin (11 / 8), .fin (11 / 4), .fin (11 / 8)],
           [.fin (11 / 4), .fin (11 / 2), .fin (11 / 4)]] := by decide +kernel
example : ((runOde exEnv 4).trace.map (·.maxTime)) = [4, 11 / 4] := by decide +kernel
/-- the theorem applied to the example -/
example : GoodRows exEnv.start 1 3 (specCtrl exEnv) 4
    [[.fin 0, .fin 0, .fin 0], [.fin (11 / 8), .fin (11 / 4), .fin (11 / 8)],
     [.fin (11 / 4), .fin (11 / 2), .fin (11 / 4)]] :=
  runOde_rows_ok exEnv exEnv_ok 4 (by decide) _ (by decide +kernel)
/-- a run that ends in the failure row: the controller is out of range at the start state -/
example : (runOde { exEnv with ctrl := fun _ _ => [.posInf],
                               integ := fun _ _ => ⟨[⟨0, -1, [.posInf], []⟩], [⟨[], .running, (0, 0)⟩]⟩ } 4).out
    = .failure [.fin 0, .fin D100, .fin 0] := by decide +kernel

end Ode
