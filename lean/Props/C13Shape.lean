import Gen.MinAnnIdx
/-!
# min-ANN kernels: shape facts beyond index safety (informational, NOT part of the C13 decision)

C13 only asks that no access leaves its array (`Props/C13.lean`).  The two facts below are stronger: they say that the
declared parameter count is exactly what the kernel consumes and that each slice has the length of the state vector.
A tree on which they fail can still satisfy C13 (a dead parameter is harmless; a slice is clamped), so `harness/c13.py`
builds this file separately and reports a failure as a note, never as a violation.
-/
namespace C13Shape
open Gen.MinAnnIdx

theorem minAnn_slices_well_shaped :
    ∀ r ∈ regs, ∀ s ∈ r.paramSlices, s.1 ≤ s.2 ∧ s.2 ≤ r.paramDims ∧ s.2 - s.1 = r.stateDims := by decide

/-- the parameters a kernel reads (single indices and slices) are exactly `0 .. param_dims-1`: the declared parameter
count is neither too small (out-of-bounds read) nor too large (dead parameter) -/
def usedParams (r : Reg) : List Nat :=
  r.paramIdx ++ r.paramSlices.flatMap (fun s => (List.range (s.2 - s.1)).map (· + s.1))

theorem minAnn_params_exactly_declared :
    ∀ r ∈ regs, ∀ i, i < r.paramDims ↔ i ∈ usedParams r := by
  intro r hr i
  have h : ∀ r ∈ regs, (List.range r.paramDims).all (fun i => decide (i ∈ usedParams r)) = true ∧
      (usedParams r).all (fun i => decide (i < r.paramDims)) = true := by decide
  obtain ⟨h1, h2⟩ := h r hr
  constructor
  · intro hi
    have := List.all_eq_true.mp h1 i (List.mem_range.mpr hi)
    simpa using this
  · intro hi
    have := List.all_eq_true.mp h2 i hi
    simpa using this

end C13Shape
