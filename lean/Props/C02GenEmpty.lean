import Gen.BinCountAndEmpty
import Props.C02Gen
/-!
# C02 (tie between source and model) — `Gen/BinCountAndEmpty.lean` equals its hand-written model
(see `Props/C02Gen.lean` for the conversion `mat` and the statements about the model alone)
-/
-- the proofs are re-checked against regenerated text: simp sets are deliberately a superset of what one variant needs
set_option linter.unusedSimpArgs false
set_option linter.unusedVariables false

namespace C02Gen
open Pack (Row)
open LoopGen (OptRel StepRel forIn_map_rel_mem)
open Gen.BinCountAndEmpty

theorem e_get1?_eq : @get1? = @LoopGen.get1? := rfl
theorem e_get2?_eq : @get2? = @LoopGen.get2? := rfl
theorem e_set1?_eq : @set1? = @LoopGen.set1? := rfl
theorem e_fill1_eq : @fill1 = @LoopGen.fill1 := rfl
theorem e_sliceMin?_eq : @sliceMin? = @LoopGen.sliceMin? := rfl
theorem e_pyRange_eq : @pyRange = @LoopGen.pyRange := rfl

/-- **`bin_count_and_empty`: generated code = model**, for every packing and every scratch array `temp` (any
length, any prior content).  Both sides fail on exactly the same inputs: a bin number outside
`[-len(temp), len(temp))` after the `- 1` (access outside `temp`; a negative one inside that range wraps, in the
model and in the generated code alike), or an empty slice `temp[0:total_bins + 1]` (no rows, or no room). -/
theorem bin_count_and_empty_eq_model (rows : List Row) (temp : List Int) :
    bin_count_and_empty (mat rows) temp = (BinObj.binCountAndEmpty rows temp).toOption := by
  rw [binCountAndEmpty_toOption]
  unfold bin_count_and_empty
  simp only [e_get1?_eq, e_get2?_eq, e_set1?_eq, e_fill1_eq, e_sliceMin?_eq, e_pyRange_eq, IDX_BIN, mat_length,
    LoopGen.pyRange_zero_ofNat, LoopGen.range_length_eq_zipIdx]
  apply LoopGen.OptRel.eq
  rw [← LoopGen.foldlM_zipIdx_fst _ rows 0]
  refine LoopGen.OptRel.bind (R' := AccRel) ?_ ?_
  · refine forIn_map_rel_mem _ _ _ _ _ ?_ _ _ ⟨rfl, by simp⟩
    rintro ⟨a, i⟩ hmem ⟨t, tb⟩ c ⟨hc, hinv⟩
    subst hc
    have hrow : rows[i]? = some a := List.mem_zipIdx_iff_getElem?.mp hmem
    simp only [get_bin hrow, accStep, Option.bind_eq_bind, Option.bind_some, ← addAt_toOption]
    cases (LoopGen.get1? t (a.bin - 1)) with
    | none => simp [StepRel]
    | some old =>
      simp only [Option.bind_some]
      cases LoopGen.set1? t (a.bin - 1) (old + 1) with
      | none => simp [StepRel]
      | some t' => simp [StepRel, AccRel]; omega
  · rintro ⟨t, tb⟩ c ⟨hc, hinv⟩
    subst hc
    simp only [sliceMin_toOption t (tb + 1) (by omega : (0 : Int) ≤ tb + 1), Option.bind_eq_bind]
    cases (BinObj.sliceMin t (tb + 1)).toOption <;> simp [OptRel, Int.add_comm]

/-- the generated function on a concrete packing: bins 1 and 2 hold 2 and 1 items; stale scratch content -/
example : bin_count_and_empty [[1, 1, 0, 0, 2, 2], [2, 2, 0, 0, 1, 1], [3, 1, 2, 0, 3, 3]] [7, 7, 7] = some (3 * 1 + 1) := by
  decide
/-- a bin number beyond the scratch array; no rows (empty slice) -/
example : bin_count_and_empty [[1, 4, 0, 0, 2, 2]] [0, 0, 0] = none := by decide
example : bin_count_and_empty [] [0, 0, 0] = none := by decide


end C02Gen
