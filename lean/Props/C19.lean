import Proofs.Text
import Proofs.TextCsv
/-!
# C19 — text forms of instances, solutions and result tables round-trip

Theorems only; models in `Model/Text.lean` (+ `Model/TextCsv.lean`), helper lemmas in
`Proofs/Text.lean` (+ `Proofs/TextCsv.lean`).
-/
namespace Text
open Base Pack

/-! ## (1) compact instance strings -/

/-- **compact_roundtrip** — "converting a bin-packing instance to its compact string … and parsing
the text back always yields an object equal to the original": for every object the constructor
accepts (`san` = `sanitize_name(name) == name`, which never accepts a name containing `;`),
`from_compact_str(to_compact_str(I))` is accepted and equals `I` in all stored fields
(name, bin width/height, every `(w, h, repetitions)` row in order). No size bound: multi-digit,
repeated (`times` present) and unrepeated (`times` elided) items, up to the constructor's limits. -/
theorem compact_roundtrip (san : Str → Bool) (hsan : ∀ s, san s = true → ';' ∉ s)
    (I : NInst) (hv : I.Valid san) : fromCompactStr san (toCompactStr I) = some I :=
  fromCompactStr_toCompactStr san hsan I hv

/-- the ASCII model of `sanitize_name(name) == name` never accepts a `;` -/
theorem nameOkB_no_semi (s : Str) (h : nameOkB s = true) : ';' ∉ s := by
  intro hc
  simp only [nameOkB, Bool.and_eq_true, List.all_eq_true] at h
  have := h.1.1.1.2 ';' hc
  revert this; decide

/-- `compact_roundtrip` for the concrete (ASCII) name check used by the driver -/
theorem compact_roundtrip_ascii (I : NInst) (hv : I.Valid nameOkB) :
    fromCompactStr nameOkB (toCompactStr I) = some I :=
  compact_roundtrip nameOkB nameOkB_no_semi I hv

/-- **derived attributes** — "same data, storage type, bounds and derived attributes such as lower
bounds and item counts": the object read back has the same `n_different_items`, `n_items`,
`total_item_area`, `dtype`, geometric bound and `lower_bound_bins` (`lb` = whatever function of
the instance data the constructor computes), because they are functions of the parsed fields. -/
theorem compact_derived (san : Str → Bool) (hsan : ∀ s, san s = true → ';' ∉ s) (lb : Inst → Int)
    (I : NInst) (hv : I.Valid san) :
    ∃ J, fromCompactStr san (toCompactStr I) = some J ∧ J.derived lb = I.derived lb ∧
      J.Valid san :=
  ⟨I, compact_roundtrip san hsan I hv, rfl, hv⟩

/-- the reader never returns an object the constructor would reject -/
theorem fromCompactStr_valid (san : Str → Bool) (s : Str) (J : NInst)
    (h : fromCompactStr san s = some J) : J.Valid san := by
  unfold fromCompactStr at h
  dsimp only at h
  repeat' split at h
  all_goals try (cases h; done)
  all_goals try (simp at h; done)
  unfold mkInst at h
  dsimp only at h
  split at h
  · cases h; assumption
  · cases h

/-- **instance space** (`instgen/instance_space.py`): `from_str(to_str([I])) = [I]` -/
theorem space_roundtrip (san : Str → Bool) (hsan : ∀ s, san s = true → ';' ∉ s)
    (I : NInst) (hv : I.Valid san) :
    (spaceToStr [I]).bind (spaceFromStr san) = some [I] := by
  simp [spaceToStr, spaceFromStr, compact_roundtrip san hsan I hv]

/-! ## (2) game plans -/

/-- **plan_roundtrip** — for every TTP instance shape (`n ≥ 2` teams, `rounds ≥ 1`, `dt` the
`game_plan_dtype = int_range_to_dtype(-n, n)`), every game plan of that shape with entries in
`-n..n` (byes included) and every list of team names for which `__str__` succeeds:
`from_str(str(P)) = P`.  Only the first line is parsed; the human-readable table is ignored. -/
theorem plan_roundtrip (n rounds : Nat) (dt : DType) (teams : List Str) (P : Plan) (s : Str)
    (hn : 2 ≤ n) (hr : 1 ≤ rounds) (hdt : dtypeFor (-(n : Int)) n = some dt)
    (hP : PlanOk n rounds P) (hs : planToStr teams P = some s) :
    planFromStr n rounds dt s = some P :=
  planFromStr_planToStr n rounds dt teams P s hn hr (dtypeFor_sound _ _ dt hdt) hP hs

/-- `__str__` succeeds whenever there are `n` team names and the plan is in the space -/
theorem planToStr_isSome (n rounds : Nat) (teams : List Str) (P : Plan)
    (ht : teams.length = n) (hP : PlanOk n rounds P) : (planToStr teams P).isSome = true := by
  have hcell : ∀ v : Int, -(n : Int) ≤ v ∧ v ≤ n → ∃ c, planCell teams v = some c := by
    intro v hv
    unfold planCell
    split
    · have : (-v - 1).toNat < teams.length := by omega
      rw [List.getElem?_eq_getElem this]; exact ⟨_, rfl⟩
    · split
      · have : (v - 1).toNat < teams.length := by omega
        rw [List.getElem?_eq_getElem this]; exact ⟨_, rfl⟩
      · exact ⟨_, rfl⟩
  have hrow : ∀ row : List Int, (∀ v ∈ row, -(n : Int) ≤ v ∧ v ≤ n) →
      ∃ cs, row.mapM (planCell teams) = some cs := by
    intro row
    induction row with
    | nil => intro _; exact ⟨[], rfl⟩
    | cons a t ih =>
      intro h
      obtain ⟨c, hc⟩ := hcell a (h a (by simp))
      obtain ⟨cs, hcs⟩ := ih (fun v hv => h v (by simp [hv]))
      exact ⟨c :: cs, by simp [List.mapM_cons, hc, hcs]⟩
  have hall : ∀ Q : Plan, (∀ r ∈ Q, ∀ v ∈ r, -(n : Int) ≤ v ∧ v ≤ n) →
      ∃ rows, Q.mapM (fun row => (row.mapM (planCell teams)).map
        (fun cs => '\n' :: joinSep ' ' cs)) = some rows := by
    intro Q
    induction Q with
    | nil => intro _; exact ⟨[], rfl⟩
    | cons r t ih =>
      intro h
      obtain ⟨cs, hcs⟩ := hrow r (h r (by simp))
      obtain ⟨rows, hrows⟩ := ih (fun x hx => h x (by simp [hx]))
      exact ⟨('\n' :: joinSep ' ' cs) :: rows, by simp [List.mapM_cons, hcs, hrows]⟩
  obtain ⟨rows, hrows⟩ := hall P hP.2.2
  simp [planToStr, hrows]

/-! ## (3) orderings -/

/-- **ordering_roundtrip** — for every permutation `x` of `0..n-1` (`n ≥ 1`; the space requires
`n ≥ 2`), `dt = int_range_to_dtype(0, n-1)` and whatever table of tags follows the first line:
`from_str(to_str(x)) = x`. -/
theorem ordering_roundtrip (n : Nat) (dt : DType) (x : List Int) (tail : Str)
    (hn : 1 ≤ n) (hdt : dtypeFor 0 ((n : Int) - 1) = some dt) (hx : OrdOk n x) :
    ordFromStr n dt (ordToStr x tail) = some x :=
  ordFromStr_ordToStr n dt x tail hn (dtypeFor_sound _ _ dt hdt) hx

/-- the readers only return members of the space -/
theorem planFromStr_ok (n rounds : Nat) (dt : DType) (s : Str) (P : Plan)
    (h : planFromStr n rounds dt s = some P) : PlanOk n rounds P := by
  unfold planFromStr at h
  dsimp only at h
  repeat' split at h
  all_goals try (cases h; done)
  all_goals (cases h; assumption)

theorem ordFromStr_ok (n : Nat) (dt : DType) (s : Str) (x : List Int)
    (h : ordFromStr n dt s = some x) : OrdOk n x := by
  unfold ordFromStr at h
  dsimp only at h
  repeat' split at h
  all_goals try (cases h; done)
  all_goals (cases h; assumption)

/-! ## (4) packings: the text layer -/

/-- **packing text layer** — `PackingSpace.to_str` is the `;`-joined decimal values of the array and
`from_str` starts with `np.fromstring(text, dtype, sep=";")`: for every non-empty list of values that fit the
storage type, the values read back are the values written (then `reshape`, `n_bins := max bin` and
`validate` follow — the validator and the complete `from_str(to_str(y)) = y` are C04's
`PackVal.fromStr_toStr`; here that clause is covered by correspondence on decoded packings). -/
theorem packing_text_roundtrip (dt : DType) (vals : List Int) (hne : vals ≠ [])
    (hfit : ∀ v ∈ vals, dt.lo ≤ v ∧ v ≤ dt.hi) :
    fromstring dt (joinSep ';' (vals.map showInt)) = some vals :=
  fromstring_join dt vals hne hfit

/-! ## (5) CSV tables of `PackingResult` -/
end Text

namespace Csv
open Text

/-- **csv_roundtrip** (`PackingResult`, table level, modulo the embedded moptipy codec) — for every finite
list of records in the domain `PRDomain` (records as the package produces them: accepted by the
constructor, objective names plain, **every bin-bound key `bins.lowerBound` or `bins.lowerBound.<x>` and
at least one present**; records may differ in algorithm / optimised objective / encoding / optional
budget and goal fields — all inside the opaque embedded record — and even in which objectives and bin
bounds they carry), if the writer accepts the table (no duplicate or empty title) then the reader
returns exactly the records written, in file order: all four instance numbers, all objective values, all
objective bounds and all bin bounds **with their keys**.
`PRDomain.codec` is the explicit assumption that moptipy's own `EndResult` CSV codec round-trips. -/
theorem csv_roundtrip {ER : Type} (C : Codec ER) (V : ErView ER) (rs : List (PRec ER))
    (D : PRDomain C V rs) (t : Table) (hw : prWrite C rs = some t) : prRead C V t = some rs :=
  prRead_prWrite C V rs D t hw

/-- `from_csv(to_csv(rs)) = sorted(rs)`: `to_csv` writes the records in the order of `sorted`
(any function; moptipy sorts by the embedded end result), `from_csv` yields them in file order. -/
theorem csv_to_from {ER : Type} (C : Codec ER) (V : ErView ER) (sort : List (PRec ER) → List (PRec ER))
    (rs : List (PRec ER)) (D : PRDomain C V (sort rs)) (t : Table) (hw : prToCsv C sort rs = some t) :
    prFromCsv C V t = some (sort rs) :=
  prRead_prWrite C V (sort rs) D t hw

/-- `csv_write` drops the empty cells at the end of a row and `csv_read` pads them again -/
theorem csv_trim_pad (cells : List Str) : padRow cells.length (trimRow cells) = some cells :=
  padRow_trimRow cells cells.length rfl

/-- the reader's `__init__` finds, on the writer's header, every column where the writer put it
(`expReader`): the layout clause "column titles = embedded columns ++ four fixed ++ sorted bin bounds ++
(lower, value, upper) per sorted objective; reader = selection by title in the order the constructor
consumes the dictionary". -/
theorem csv_reader_layout {ER : Type} (C : Codec ER) (V : ErView ER) (rs : List (PRec ER))
    (D : PRDomain C V rs) (hn : (prHeader C rs).Nodup) :
    prSetup C.keys (prHeader C rs).zipIdx = some (expReader C rs) := by
  obtain ⟨r0, hr0, hbb0⟩ := D.bbSome
  apply prSetup_header C rs hn D.codec.sub D.keysDisj
  · intro k hk
    obtain ⟨r, hr, p, hp, rfl⟩ := of_mem_bbKeys rs hk
    exact D.bbKey r hr p hp
  · intro he
    cases hb : r0.binBounds with
    | nil => exact hbb0 hb
    | cons p l =>
      have := mem_bbKeys rs hr0 (p := p) (by rw [hb]; simp)
      rw [he] at this; cases this
  · intro o ho
    obtain ⟨r, hr, p, hp, rfl⟩ := of_mem_objKeys rs ho
    exact D.objName r hr p hp
  · intro he
    cases ho : r0.objectives with
    | nil => exact objectives_ne_nil_of_ok V (D.ok r0 hr0) ho
    | cons p l =>
      have := mem_objKeys rs hr0 (p := p) (by rw [ho]; simp)
      rw [he] at this; cases this

/-! ### non-vacuity: a concrete codec and a heterogeneous record set in the domain -/

/-- a one-column embedded codec: the record is the algorithm name -/
def tinyCodec : Codec Str where
  titles _ := ["algorithm".toList]
  row _ r := [r]
  keys := ["algorithm".toList, "encoding".toList]
  read f := f "algorithm".toList

def tinyView : ErView Str := ⟨fun _ => sBinCount, fun _ => 5⟩

theorem tinyCodec_roundTrips (data : List Str) : tinyCodec.RoundTrips data where
  nodup := by simp [tinyCodec]
  sub := by simp [tinyCodec]
  len := by simp [tinyCodec]
  back := by
    intro r _ f h _
    exact h ("algorithm".toList, r) (by simp [tinyCodec])

def demoRecs : List (PRec Str) :=
  [⟨"a1".toList, 10, 5, 100, 50, [(sBinCount, 5)],
      [(scopeKey sBinCount sLower, 1), (scopeKey sBinCount sUpper, 9)], [(sBinsLB, 2)]⟩,
   ⟨"a2".toList, 10, 5, 100, 50, [(sBinCount, 5), ("binCountAndEmpty".toList, 517)],
      [(scopeKey sBinCount sLower, 1), (scopeKey sBinCount sUpper, 9),
       (scopeKey "binCountAndEmpty".toList sLower, 100), (scopeKey "binCountAndEmpty".toList sUpper, 1000)],
      [(sBinsLB, 2), ("bins.lowerBound.damv".toList, 1)]⟩]

example : PRDomain tinyCodec tinyView demoRecs where
  ok := by decide
  canon := by decide
  bounds := by decide
  objName := by decide
  bbKey := by decide
  bbSome := by decide
  codec := tinyCodec_roundTrips _
  keysDisj := by decide

example : (prWrite tinyCodec demoRecs).isSome = true := by decide

/-- outside the domain: a record without any bin bound is accepted by the constructor and written, but
the reader rejects the table (observed on the real code as well) -/
def noBoundRecs : List (PRec Str) :=
  [⟨"a1".toList, 10, 5, 100, 50, [(sBinCount, 5)],
      [(scopeKey sBinCount sLower, 1), (scopeKey sBinCount sUpper, 9)], []⟩]

example : (prWrite tinyCodec noBoundRecs).isSome = true ∧
    (prWrite tinyCodec noBoundRecs).bind (prRead tinyCodec tinyView) = none := by decide

/-! ## (6) CSV tables of `PackingStatistics` -/

/-- **csv_roundtrip_statistics** (`PackingStatistics`, table level, modulo the embedded moptipy codecs) — for
every finite list of statistics records in the domain `PSDomain` (records as `from_packing_results`
produces them: accepted by the constructor, all over the same objectives and the same bin-bound keys — all in
the scope `bins.lowerBound`, at least one —, sample size of every objective's statistics = `n` of the end
statistics; records may differ in algorithm / instance / optimised objective / encoding / budgets inside the
opaque end statistics), if the writer produces the table then the reader returns exactly the records
written, in file order.  `PSDomain.codec` and `PSDomain.ss` are the explicit assumptions that moptipy's
`EndStatistics` and pycommons' `SampleStatistics` CSV codecs round-trip (the former fails for tables that mix
records with and without `goal_f`: known finding `stats_goal_mixed_moptipy`). -/
theorem csv_roundtrip_statistics {ES SS : Type} (C : Codec ES) (S : SsCodec SS) (V : EsView ES SS)
    (rs : List (PSRec ES SS)) (D : PSDomain C S V rs) (t : Table) (hw : psWrite C S rs = some t) :
    psRead C S V t = some rs :=
  psRead_psWrite C S V rs D t hw

/-- the layout clause for the statistics reader: on a header `embedded ++ four fixed ++ bin bounds ++ per
objective (lower bound, statistics columns, upper bound)` `__init__` removes the embedded columns, the four
fixed ones, the bin bounds and the objective bounds from the dictionary **before** it selects, per objective
name derived from the bound columns, the remaining columns in that objective's scope (adding the `n` column of
the end statistics) — in any other order `<objective>.lowerBound` would be taken for a statistics column. -/
theorem csv_stat_reader_layout (keys A B ks : List Str) (St : Str → List Str) (idxN : Nat)
    (hn : (A ++ fixedTitles ++ B ++ ks.flatMap (statTitles St)).Nodup) (hA : ∀ t ∈ A, t ∈ keys)
    (hdisj : ∀ k ∈ keys, k ∉ fixedTitles ++ B ++ ks.flatMap (statTitles St))
    (hbb : ∀ k ∈ B, BBKey k) (hbne : B ≠ []) (hBsorted : B.Pairwise (· < ·))
    (hKsorted : ks.Pairwise (· < ·)) (hobj : ∀ o ∈ ks, ObjName o) (hone : ks ≠ [])
    (hscope : ∀ o ∈ ks, ∀ t ∈ St o, (scopeUse o t).isSome)
    (hnb : ∀ o ∈ ks, ∀ t ∈ St o, isBoundKey t = false)
    (hSne : ∀ o ∈ ks, St o ≠ [])
    (hnoN : ∀ o ∈ ks, kN ∉ (St o).filterMap (scopeUse o))
    (hidx : A.zipIdx.lookup kN = some idxN) :
    psSetup keys (A ++ fixedTitles ++ B ++ ks.flatMap (statTitles St)).zipIdx =
      some ⟨A.zipIdx, A.length + 2, A.length + 3, A.length + 1, A.length, B.zipIdx (A.length + 4),
        sortPairs (((ks.flatMap (statTitles St)).zipIdx (A.length + 4 + B.length)).filter (fun c => isBoundKey c.1)),
        ks.map (fun o => (o, selOf o (((ks.flatMap (statTitles St)).zipIdx (A.length + 4 + B.length)).filter
          (fun c => !isBoundKey c.1)) ++ [(kN, idxN)]))⟩ :=
  psSetup_header keys A B ks St idxN hn hA hdisj hbb hbne hBsorted hKsorted hobj hone hscope hnb hSne hnoN hidx

/-! ### non-vacuity for the statistics domain -/

/-- end statistics = (algorithm, n = 2); statistics = one integer, written in the single-value format -/
def tinyEs : Codec Str where
  titles _ := ["algorithm".toList, kN]
  row _ r := [r, "2".toList]
  keys := ["algorithm".toList, kN, "encoding".toList]
  read f := f "algorithm".toList

def tinySs : SsCodec Int where
  titles o _ := [o]
  row _ _ s := [showInt s]
  read o f := (f o).bind parseInt?
  nCell _ := "2".toList

def tinyEsView : EsView Str Int := ⟨fun _ => sBinCount, fun _ s => decide (s = 5), id, id⟩

theorem tinyEs_roundTrips (data : List Str) : tinyEs.RoundTrips data where
  nodup := by simp only [tinyEs]; decide
  sub := by simp [tinyEs]
  len := by simp [tinyEs]
  back := by
    intro r _ f h _
    exact h ("algorithm".toList, r) (by simp [tinyEs])

theorem scopeUse_self (o : Str) : scopeUse o o = some o := by
  unfold scopeUse
  have : ¬ ((o ++ ['.']).isPrefixOf o = true) := by
    rw [List.isPrefixOf_iff_prefix]
    intro ⟨rest, hr⟩
    have := congrArg List.length hr
    simp at this
  simp [this]

theorem tinySs_roundTrips (o : Str) (ho : ObjName o) (hn : o ≠ kN) (col : List Int) : tinySs.RoundTrips o col where
  ne := by simp [tinySs]
  scope := by simp [tinySs, scopeUse_self]
  useNodup := by simp [tinySs, scopeUse_self]
  noN := by simp [tinySs, scopeUse_self]; exact fun e => hn e.symm
  noBound := by simp [tinySs]; exact ho.2.2.2
  len := by simp [tinySs]
  back := by
    intro s _ f h _ _
    obtain ⟨u, hu, hf⟩ := h (o, showInt s) (by simp [tinySs])
    rw [scopeUse_self] at hu
    cases hu
    simp [tinySs, hf, parseInt?_showInt]

def demoStats : List (PSRec Str Int) :=
  [⟨"a1".toList, 10, 5, 100, 50, [(sBinCount, 5), ("binCountAndEmpty".toList, 517)],
      [(scopeKey sBinCount sLower, 1), (scopeKey sBinCount sUpper, 9),
       (scopeKey "binCountAndEmpty".toList sLower, 100), (scopeKey "binCountAndEmpty".toList sUpper, 1000)],
      [(sBinsLB, 2), ("bins.lowerBound.damv".toList, 1)]⟩,
   ⟨"a2".toList, 20, 7, 10, 5, [(sBinCount, 5), ("binCountAndEmpty".toList, 600)],
      [(scopeKey sBinCount sLower, 3), (scopeKey sBinCount sUpper, 9),
       (scopeKey "binCountAndEmpty".toList sLower, 100), (scopeKey "binCountAndEmpty".toList sUpper, 1000)],
      [(sBinsLB, 3), ("bins.lowerBound.damv".toList, 2)]⟩]

example : PSDomain tinyEs tinySs tinyEsView demoStats where
  ok := by decide
  canon := by decide
  bounds := by decide
  objName := by decide
  bbKey := by decide
  bbSome := by decide
  commonObj := by decide
  commonBB := by decide
  codec := tinyEs_roundTrips _
  ss := by
    intro o ho
    have hk : psObjKeys demoStats = [sBinCount, "binCountAndEmpty".toList] := by decide
    rw [hk] at ho
    simp only [List.mem_cons, List.not_mem_nil, or_false] at ho
    rcases ho with rfl | rfl
    · exact tinySs_roundTrips _ (by decide) (by decide) _
    · exact tinySs_roundTrips _ (by decide) (by decide) _
  nCell := by decide
  keysDisj := by decide

example : (psWrite tinyEs tinySs demoStats).isSome = true := by decide

end Csv

namespace Text

/-! ## non-vacuity -/

/-- a valid instance with a repeated item, an unrepeated one and multi-digit values -/
example : (⟨"x1".toList, ⟨500, 50, [⟨3, 5, 1⟩, ⟨20, 5, 12⟩]⟩⟩ : NInst).Valid nameOkB := by decide

example : toCompactStr ⟨"x1".toList, ⟨500, 50, [⟨3, 5, 1⟩, ⟨20, 5, 12⟩]⟩⟩
    = "x1;2;500;50;3,5;20,5,12".toList := by decide

/-- a plan with byes for 2 teams, 2 rounds -/
example : PlanOk 2 2 [[2, -1], [0, 0]] := by decide
example : planToStr ["A".toList, "B".toList] [[2, -1], [0, 0]]
    = some "2;-1;0;0\n\nA B\nB @A\n- -".toList := by decide
example : OrdOk 3 [2, 0, 1] := by decide

end Text
