import Proofs.InstGenErrors
/-!
# C17 — generated bin-packing instances keep the template's size and bin need

Property theorems only (helper lemmas: `Proofs/InstGen.lean` phases, `Proofs/InstGenMerge.lean`
sort/merge/packing bridge, `Proofs/InstGenDecode.lean`, `Proofs/InstGenErrors.lean`).
All decoder theorems hold for an arbitrary `Num X`, i.e. for arbitrary results of
`int(k * selector)` / `int(cut_modulus * cutter)` and arbitrary sign tests, hence for every real
vector; `σ` is the external shuffle, assumed to return a permutation.
-/
namespace InstGen
open Pack

/-- binary64 model: truncation toward zero is symmetric, `int(k * -x) = -int(k * x)`, and a zero
entry (`0.0` or `-0.0`) gives 0. -/
theorem truncMul_sign (k m e : Int) :
    truncMul k ⟨-m, e⟩ = -truncMul k ⟨m, e⟩ ∧ truncMul k ⟨0, e⟩ = 0 := by
  constructor
  · unfold truncMul
    simp only [Int.mul_neg, Int.natAbs_neg]
    by_cases h : k * m = 0
    · simp [h, round53]
    · by_cases hp : k * m < 0
      · rw [if_neg (by omega), if_pos hp]; omega
      · rw [if_pos (by omega), if_neg hp]
  · simp [truncMul, round53]

/-- `InstanceSpace(template)`: for a valid template whose `lower_bound_bins` is at least the
geometric bound (the constructor takes the maximum of both bounds), an accepted space carries the
template's name + "n", bin size and item count, `min_bins = min(lower_bound_bins, n_items)`,
satisfies `SpaceOk` (in particular `n_items ≤ min_bins·W·H`), and `Errors(space)` can be built. -/
theorem mkSpace_ok (name : String) (T : Inst) (lb : Int) (sp : Space) (hv : T.Valid)
    (hlb : geoBound T ≤ lb) (h : mkSpace name T lb = some sp) :
    SpaceOk sp ∧ sp.name = name ++ "n" ∧ sp.W = T.W ∧ sp.H = T.H ∧ sp.nItems = T.nItems ∧
      sp.minBins = min lb T.nItems ∧ (∃ m, maxErrors sp = some m) := by
  have hf := mkSpace_spec h
  exact ⟨hf.spaceOk hv hlb, hf.name_eq, hf.W, hf.H, hf.n, hf.k, hf.maxErrors_some hv hlb⟩

/-- Phase 1 terminates: with a vector of at least `2·(n_items − min_bins)` entries every
`while True:` search finds a cut within `2·cur_n_items` iterations (some item is cuttable in some
direction because `cur_n_items < n_items ≤ min_bins·W·H` = total area), for every oracle. -/
theorem phase1_terminates {X} (num : Num X) (sp : Space) (hs : SpaceOk sp) (x : List X)
    (hx : 2 * (sp.nItems - sp.minBins) ≤ (x.length : Int)) :
    ∃ items, phase1 num (sp.nItems - sp.minBins).toNat sp.minBins x (initItems sp.W sp.H sp.minBins.toNat)
      = some (items, x.drop (2 * (sp.nItems - sp.minBins).toNat)) := by
  have hk := hs.k1
  have hkn := hs.kn
  have hinit : P1 sp (initItems sp.W sp.H sp.minBins.toNat) sp.minBins := by
    refine ⟨?_, ?_, ?_⟩
    · simp [initItems]; omega
    · have := layout_initItems sp.W sp.H sp.minBins.toNat hs.W1 hs.H1
      rwa [Int.toNat_of_nonneg (by omega)] at this
    · rw [areaSum_initItems, Int.toNat_of_nonneg (by omega)]
  obtain ⟨items, h, _⟩ := phase1_ok num sp hs (sp.nItems - sp.minBins).toNat sp.minBins x _
    (by omega) (by omega) hinit hk
  exact ⟨items, h⟩

/-- The fuel bound of the model's search loop is immaterial: once a search returns a cut, every
larger fuel returns the same cut (so `2·cur_n_items` iterations are the unbounded `while True:`). -/
theorem search1_fuel_irrelevant {X} (num : Num X) (cutter : X) (n dir orig : Int) (fuel k : Nat)
    (items : List PItem) (sel : Int) (d : Bool) (r : List PItem)
    (h : search1 num cutter n dir orig fuel items sel d = some r) :
    search1 num cutter n dir orig (fuel + k) items sel d = some r :=
  search1_fuel_mono num cutter n dir orig fuel k items sel d r h

/-- After phase 1 there are exactly `n_items` items of total area `min_bins·W·H`, each with
`1 ≤ w ≤ W`, `1 ≤ h ≤ H`, and their (ghost) places are a packing into the bins `1..min_bins`
without overlap — a guillotine layout. -/
theorem phase1_guillotine {X} (num : Num X) (sp : Space) (hs : SpaceOk sp) (x rest : List X) (items : List PItem)
    (hx : 2 * (sp.nItems - sp.minBins) ≤ (x.length : Int))
    (h : phase1 num (sp.nItems - sp.minBins).toNat sp.minBins x (initItems sp.W sp.H sp.minBins.toNat)
      = some (items, rest)) :
    (items.length : Int) = sp.nItems ∧ areaSum items = sp.minBins * (sp.W * sp.H) ∧
      (∀ p ∈ items, 1 ≤ p.w ∧ p.w ≤ sp.W ∧ 1 ≤ p.h ∧ p.h ≤ sp.H) ∧ Layout sp.W sp.H sp.minBins items := by
  have hk := hs.k1
  have hkn := hs.kn
  have hinit : P1 sp (initItems sp.W sp.H sp.minBins.toNat) sp.minBins := by
    refine ⟨?_, ?_, ?_⟩
    · simp [initItems]; omega
    · have := layout_initItems sp.W sp.H sp.minBins.toNat hs.W1 hs.H1
      rwa [Int.toNat_of_nonneg (by omega)] at this
    · rw [areaSum_initItems, Int.toNat_of_nonneg (by omega)]
  obtain ⟨items', h', hP⟩ := phase1_ok num sp hs (sp.nItems - sp.minBins).toNat sp.minBins x _
    (by omega) (by omega) hinit hk
  rw [h] at h'
  injection h' with h'
  injection h' with h1 _
  subst h1
  refine ⟨hP.len, hP.area, ?_, hP.lay⟩
  intro p hp
  have := hP.lay.inside p hp
  unfold PItem.Inside at this
  omega

/-- Phase 2 (slack cuts), for every even number of remaining entries and every oracle: it
terminates, the item count is unchanged, items only shrink in place so the layout stays a
packing, `current_area` stays the true total area, and the total area never drops below
`min_area` (= `(min_bins − 1)·W·H + 1` in `decode`) nor grows. -/
theorem phase2_inv {X} (num : Num X) (sp : Space) (minArea : Int) (x : List X) (m : Nat)
    (items : List PItem) (hx : x.length = 2 * m) (hne : 1 ≤ items.length)
    (hlay : Layout sp.W sp.H sp.minBins items) (hmin : minArea ≤ areaSum items) :
    ∃ r, phase2 num (items.length : Int) minArea x items (areaSum items) = some r ∧
      r.length = items.length ∧ Layout sp.W sp.H sp.minBins r ∧
      minArea ≤ areaSum r ∧ areaSum r ≤ areaSum items := by
  obtain ⟨r, a', h1, hP, hle⟩ := phase2_ok num sp (items.length : Int) minArea (by omega) m x items
    (areaSum items) hx ⟨rfl, hlay, rfl, hmin⟩
  refine ⟨r, h1, by have := hP.len; omega, hP.lay, ?_, ?_⟩
  · rw [hP.acct]; exact hP.ge
  · rw [hP.acct]; exact hle

/-- Sorting and the run-length merge preserve the item multiset: the merged type list stands for
a permutation of the decoder's items, every multiplicity is ≥ 1 and the types are pairwise
different. -/
theorem merge_preserves_multiset (l : List (Int × Int)) :
    (expand (mergeItems (sortItems l))).Perm l ∧ (∀ it ∈ mergeItems (sortItems l), 1 ≤ it.rep) ∧
      ((mergeItems (sortItems l)).map typ).Nodup := by
  refine ⟨?_, mergeLoop_rep_pos _ _, mergeLoop_nodup _ _ (sortItems_sorted _)⟩
  have : expand (mergeItems (sortItems l)) = sortItems l := expand_mergeLoop _ _ (Nat.le_refl _)
  rw [this]
  exact sortItems_perm l

/-- **Main theorem.** For every template-derived space, every oracle (hence every real vector),
every admissible length `2·(n_items − min_bins) + 2j` and every shuffle permutation: whenever the
`Instance` constructor accepts the generated item list, the instance is valid, has the template's
bin size and item count, can be packed into `min_bins` bins (`Pack.Feasible`, witnessed by the
guillotine layout), its total area lies in `((min_bins−1)·W·H, min_bins·W·H]` and
`ceil(area/(W·H)) = min_bins`.  (With C03's `lowerBound_le_bins` and `lowerBound ≥ geoBound`:
`lower_bound_bins = min_bins`.) -/
theorem decode_instance_ok {X} (num : Num X) (σ : List Item → List Item) (hσ : ∀ l, (σ l).Perm l)
    (sp : Space) (hs : SpaceOk sp) (x : List X) (j : Nat)
    (hx : (x.length : Int) = 2 * (sp.nItems - sp.minBins) + 2 * j) (I : Inst)
    (h : decode num σ sp x = some I) : GoodFor sp I := by
  obtain ⟨flat, merged, _, hm, _, hd, ha1, ha2⟩ := decodeMerged_ok num σ hσ sp hs x j hx
  unfold decode at h
  rw [hm] at h
  simp only [Option.bind_eq_bind, Option.bind_some] at h
  unfold mkInstance at h
  split at h
  · rename_i hv
    injection h with h
    subst h
    exact hd.good hs ha1 ha2 hv
  · simp at h

/-- The constructor accepts (decode does not raise) for every admissible vector when the template
has at most 10^8 items (`Instance` limits multiplicities and the number of types to 10^8, while
`InstanceSpace` admits up to 10^9 items). -/
theorem decode_succeeds {X} (num : Num X) (σ : List Item → List Item) (hσ : ∀ l, (σ l).Perm l)
    (sp : Space) (hs : SpaceOk sp) (hn : sp.nItems ≤ 100000000) (x : List X) (j : Nat)
    (hx : (x.length : Int) = 2 * (sp.nItems - sp.minBins) + 2 * j) :
    ∃ I, decode num σ sp x = some I := by
  obtain ⟨flat, merged, _, hm, _, hd, _, _⟩ := decodeMerged_ok num σ hσ sp hs x j hx
  unfold decode
  rw [hm]
  simp only [Option.bind_eq_bind, Option.bind_some]
  unfold mkInstance
  rw [if_pos (hd.valid hs hn)]
  exact ⟨_, rfl⟩

/-- Decoding is a function of the vector (and of the shuffle, whose seed is a function of the
vector's bytes): the stored instance does not depend on what the receiver list held before, and
the rest of the receiver is untouched. -/
theorem decode_deterministic {X} (num : Num X) (σ : List Item → List Item) (sp : Space) (x : List X)
    (I : Inst) (_h : decode num σ sp x = some I) (y y' : List Inst) :
    (storeResult y I).head? = some I ∧ (storeResult y I).head? = (storeResult y' I).head? ∧
      (storeResult y I).tail = y.tail ∧ (storeResult y I).length = max 1 y.length := by
  cases y <;> cases y' <;> simp [storeResult]

/-- `Errors.evaluate` does not raise on an instance with the space's bin size and item count
(in particular on every decoded instance) and returns a value in `[0, 1]`. -/
theorem errors_in_unit_interval (name : String) (T : Inst) (lb : Int) (sp : Space) (hv : T.Valid)
    (hlb : geoBound T ≤ lb) (h : mkSpace name T lb = some sp) (I : Inst)
    (hW : I.W = sp.W) (hH : I.H = sp.H) (hn : I.nItems = sp.nItems) :
    ∃ v, errorsValue sp I = some v ∧ 0 ≤ v ∧ v ≤ 1 := by
  obtain ⟨m, hm⟩ := (mkSpace_spec h).maxErrors_some hv hlb
  obtain ⟨e, he⟩ := errorsCount_some sp I hW hH hn
  refine ⟨clamp01 ((e : Rat) / (m : Rat)), ?_, clamp01_range _⟩
  simp [errorsValue, hm, he]

/-- `Errors.evaluate(template) = 0`. -/
theorem errors_template_zero (name : String) (T : Inst) (lb : Int) (sp : Space) (hv : T.Valid)
    (hlb : geoBound T ≤ lb) (h : mkSpace name T lb = some sp) : errorsValue sp T = some 0 := by
  obtain ⟨m, hm⟩ := (mkSpace_spec h).maxErrors_some hv hlb
  have he := errorsCount_template (mkSpace_spec h) hv
  simp [errorsValue, hm, he, clamp01_zero]

/-- The final clamps of `Hardness.evaluate` and `ErrorsAndHardness.evaluate` (read over the
rationals) keep the result in `[0, 1]` whatever the runs return. -/
theorem hardness_in_unit_interval (contribs : List Rat) (hard err : Rat) :
    (0 ≤ hardnessValue contribs ∧ hardnessValue contribs ≤ 1) ∧
      (0 ≤ errorsAndHardness hard err ∧ errorsAndHardness hard err ≤ 1) :=
  ⟨clamp01_range _, clamp01_range _⟩

/-- None of the range checks inside `Hardness.evaluate` fires (in exact arithmetic) for a run
whose result lies within the objective's bounds and whose last improvement is within the budget. -/
theorem hardnessRun_no_raise (lb ub q : Rat) (maxFes fe : Int) (h1 : lb < ub) (h2 : lb ≤ q) (h3 : q ≤ ub)
    (h4 : 0 < fe) (h5 : fe ≤ maxFes) (h6 : 2 ≤ maxFes) :
    ∃ v, hardnessRun lb ub q maxFes fe = some v ∧ 0 ≤ v ∧ v ≤ 1 :=
  hardnessRun_some lb ub q maxFes fe h1 h2 h3 h4 h5 h6

end InstGen

/-! ### the hypotheses are satisfiable: a concrete template, vector and decode -/
namespace InstGen
open Pack

/-- the 10×10 template of `fixes/c17_slack_area.py` -/
def exT : Inst := ⟨10, 10, [⟨5, 5, 3⟩, ⟨10, 5, 1⟩, ⟨5, 10, 1⟩, ⟨3, 3, 2⟩]⟩
def exSp : Space := ⟨"tn", 4, 7, 10, 10, 2, 3, 10, 3, 10, 193⟩
/-- `[0.5, -0.25, -1.0, 1.0, 0.0, -0.0, 0.75, 0.5, 0.25, -0.5, 0.3, nextafter(1,0), 0.5, nextafter(1,0)]`:
five phase-1 pairs and two slack pairs -/
def exX : List Dbl := [⟨1, -1⟩, ⟨-1, -2⟩, ⟨-1, 0⟩, ⟨1, 0⟩, ⟨0, 0⟩, ⟨0, 0⟩, ⟨3, -2⟩, ⟨1, -1⟩, ⟨1, -2⟩, ⟨-1, -1⟩,
  ⟨5404319552844595, -54⟩, ⟨9007199254740991, -53⟩, ⟨1, -1⟩, ⟨9007199254740991, -53⟩]

example : exT.Valid := by decide
example : geoBound exT = 2 := by decide
example : mkSpace "t" exT 2 = some exSp := by decide
example : SpaceOk exSp := ⟨by decide, by decide, by decide, by decide, by decide, by decide, by decide⟩
example : (exX.length : Int) = 2 * (exSp.nItems - exSp.minBins) + 2 * 2 := by decide
example : decode dblNum id exSp exX = some ⟨10, 10, [⟨2, 1, 1⟩, ⟨3, 1, 1⟩, ⟨5, 1, 1⟩, ⟨8, 9, 1⟩, ⟨10, 1, 2⟩, ⟨10, 4, 1⟩]⟩ := by
  decide +kernel
/-- the main theorem applied to it: the slack cuts removed 200 − 142 = 58 area units, the bin need stays 2 -/
example : GoodFor exSp ⟨10, 10, [⟨2, 1, 1⟩, ⟨3, 1, 1⟩, ⟨5, 1, 1⟩, ⟨8, 9, 1⟩, ⟨10, 1, 2⟩, ⟨10, 4, 1⟩]⟩ :=
  decode_instance_ok dblNum id (fun _ => List.Perm.refl _) exSp
    ⟨by decide, by decide, by decide, by decide, by decide, by decide, by decide⟩ exX 2 (by decide) _ (by decide +kernel)
example : errorsValue exSp exT = some 0 := errors_template_zero "t" exT 2 exSp (by decide) (by decide) (by decide)
example : ∃ v, hardnessRun 1 10 4 100 37 = some v ∧ 0 ≤ v ∧ v ≤ 1 :=
  hardnessRun_no_raise 1 10 4 100 37 (by decide) (by decide) (by decide) (by decide) (by decide) (by decide)

end InstGen
