import Gen.CountErrors
import Model.TtpErrors
import Proofs.LoopGen
/-!
# C07 (tie between source and model) — the generated `count_errors` equals the hand-written model

`Gen/CountErrors.lean` is regenerated on every run from the current source of `moptipyapps/ttp/errors.py`
(`harness/translate/loop2lean.py`): a shallow embedding of the Python text in the `Option` monad; the scratch arrays
`temp_1`, `temp_2` are mutable variables whose prior contents are inputs.  The theorem below says that this text
computes exactly what `TtpErrors.countErrors?` (the model all C07 theorems are about) computes, for ALL inputs.
A semantic change of the kernel changes the generated definition and this file stops checking.
-/
-- the proofs are re-checked against regenerated text: simp sets are deliberately a superset of what one variant needs
set_option linter.unusedSimpArgs false
set_option linter.unusedVariables false

namespace C07Gen
open Gen.CountErrors
open TtpErrors (Cfg Plan Errs Streak Acc G)
open LoopGen (OptRel StepRel forIn_map_rel forIn_rel)

/-- the prelude copy inside the generated file is the reference copy of `Proofs/LoopGen.lean` -/
theorem get1?_eq : @get1? = @LoopGen.get1? := rfl
theorem get2?_eq : @get2? = @LoopGen.get2? := rfl
theorem getCol?_eq : @getCol? = @LoopGen.getCol? := rfl
theorem set1?_eq : @set1? = @LoopGen.set1? := rfl
theorem set2?_eq : @set2? = @LoopGen.set2? := rfl
theorem fill1_eq : @fill1 = @LoopGen.fill1 := rfl
theorem fill2_eq : @fill2 = @LoopGen.fill2 := rfl
theorem pyFloorDiv_eq : @pyFloorDiv = @LoopGen.pyFloorDiv := rfl
theorem pyRange_eq : @pyRange = @LoopGen.pyRange := rfl
theorem pyEnumerate_eq : @pyEnumerate = @LoopGen.pyEnumerate := rfl

/-! ### the hand-written loops as folds (statements about the model only) -/

theorem foldDays_eq_foldlM (c : Cfg) (p : Plan) (t : Nat) (a : Acc) (d : Nat) (vs : List Int) :
    TtpErrors.foldDays c p t a d vs = (vs.zipIdx d).foldlM (fun a q => TtpErrors.dayStep c p t a q.2 q.1) a := by
  induction vs generalizing a d with
  | nil => rfl
  | cons v r ih =>
    simp only [TtpErrors.foldDays, List.zipIdx_cons, List.foldlM_cons]
    cases TtpErrors.dayStep c p t a d v with
    | none => rfl
    | some a' => exact ih a' (d + 1)

theorem foldTeams_eq_foldlM (c : Cfg) (p : Plan) (g : G) (ts : List Nat) :
    TtpErrors.foldTeams c p g ts = ts.foldlM (TtpErrors.teamStep c p) g := by
  induction ts generalizing g with
  | nil => rfl
  | cons t r ih =>
    simp only [TtpErrors.foldTeams, List.foldlM_cons]
    cases TtpErrors.teamStep c p g t with
    | none => rfl
    | some g' => exact ih g'

/-- one `j` of the final pass, adding to a running total -/
def pairStepL (gpc : Int) (t2 : List (List Int)) (i : Nat) (acc : Int) (j : Nat) : Option Int :=
  match TtpErrors.entry2? t2 i j, TtpErrors.entry2? t2 j i with
  | some ij, some ji => some (acc + (TtpErrors.pairTerm gpc ij ji).1 + (TtpErrors.pairTerm gpc ij ji).2)
  | _, _ => none

theorem pairRow_foldlM (gpc : Int) (t2 : List (List Int)) (i : Nat) (js : List Nat) (acc : Int) :
    js.foldlM (pairStepL gpc t2 i) acc = (TtpErrors.pairRow gpc t2 i js).map fun r => acc + r.1 + r.2 := by
  induction js generalizing acc with
  | nil => simp [TtpErrors.pairRow]
  | cons j r ih =>
    simp only [List.foldlM_cons, TtpErrors.pairRow, pairStepL]
    cases TtpErrors.entry2? t2 i j with
    | none => simp
    | some ij =>
      cases TtpErrors.entry2? t2 j i with
      | none => simp
      | some ji =>
        simp only [Option.bind_eq_bind, Option.bind_some, ih]
        cases TtpErrors.pairRow gpc t2 i r with
        | none => rfl
        | some q => simp only [Option.map_some]; congr 1; omega

theorem pairPass_foldlM (gpc : Int) (t2 : List (List Int)) (is : List Nat) (acc : Int) :
    is.foldlM (fun acc i => (List.range i).foldlM (pairStepL gpc t2 i) acc) acc
      = (TtpErrors.pairPass gpc t2 is).map fun r => acc + r.1 + r.2 := by
  induction is generalizing acc with
  | nil => simp [TtpErrors.pairPass]
  | cons i r ih =>
    simp only [List.foldlM_cons, TtpErrors.pairPass]
    rw [pairRow_foldlM]
    cases TtpErrors.pairRow gpc t2 i (List.range i) with
    | none => rfl
    | some q =>
      simp only [Option.map_some, Option.bind_eq_bind, Option.bind_some]
      rw [ih]
      cases TtpErrors.pairPass gpc t2 r with
      | none => rfl
      | some q' => simp only [Option.map_some]; congr 1; omega

/-- body of the team loop of the model as a sequence: column, day loop, closing of the open streak -/
theorem teamStep_eq_bind (c : Cfg) (p : Plan) (g : G) (t : Nat) :
    TtpErrors.teamStep c p g t
      = (TtpErrors.column? p t).bind fun col =>
          ((col.zipIdx 0).foldlM (fun a q => TtpErrors.dayStep c p t a q.2 q.1)
            { s := Streak.init, e := g.e, t1 := g.t1, t2 := g.t2 }).bind fun a =>
            some { e := { a.e with streakMin := a.e.streakMin + TtpErrors.closeStreak c a.s }, t1 := a.t1, t2 := a.t2 } := by
  unfold TtpErrors.teamStep
  cases TtpErrors.column? p t with
  | none => rfl
  | some col =>
    simp only [Option.bind_some, foldDays_eq_foldlM]
    cases List.foldlM (fun a q => TtpErrors.dayStep c p t a q.2 q.1) _ (col.zipIdx 0) <;> rfl

/-- the model as a sequence: team loop, `days // (teams - 1)`, final pass with a running total -/
theorem countErrors?_eq_bind (n : Nat) (p : Plan) (c : Cfg) (t1 : List Int) (t2 : List (List Int)) :
    TtpErrors.countErrors? n p c t1 t2
      = ((List.range n).foldlM (TtpErrors.teamStep c p)
          { e := {}, t1 := t1.map (fun _ => (-1 : Int)), t2 := t2.map (fun r => r.map (fun _ => (0 : Int))) }).bind fun g =>
          if n = 1 then none else
            (List.range n).foldlM (fun acc i => (List.range i).foldlM
              (pairStepL ((p.length / (n - 1) : Nat) : Int) g.t2 i) acc) (g.e.total - g.e.pairCount - g.e.balance) := by
  unfold TtpErrors.countErrors? TtpErrors.countErrs?
  simp only [foldTeams_eq_foldlM]
  cases List.foldlM (TtpErrors.teamStep c p) _ (List.range n) with
  | none => rfl
  | some g =>
    simp only [Option.bind_some]
    by_cases hn : n = 1
    · simp [hn]
    · simp only [hn, if_false, pairPass_foldlM]
      cases TtpErrors.pairPass _ g.t2 (List.range n) with
      | none => rfl
      | some r => simp only [Option.map_some, TtpErrors.Errs.total]; congr 1; omega

/-! ### arithmetic of the pair index and list facts -/

/-- `idx = a*(a-1)//2 + b if a > b else b*(b-1)//2 + a` on non-negative team numbers is the model's `pairIdx` -/
theorem pairIdx_cast (a b : Nat) :
    (if (a : Int) > (b : Int) then ((a : Int) * ((a : Int) - 1)).fdiv 2 + (b : Int)
      else ((b : Int) * ((b : Int) - 1)).fdiv 2 + (a : Int)) = ((TtpErrors.pairIdx a b : Nat) : Int) := by
  have key : ∀ m : Nat, ((m : Int) * ((m : Int) - 1)).fdiv 2 = ((m * (m - 1) / 2 : Nat) : Int) := by
    intro m
    cases m with
    | zero => simp
    | succ m =>
      have h1 : (((m + 1 : Nat) : Int) - 1) = (m : Int) := by omega
      have h2 : (m + 1 - 1 : Nat) = m := by omega
      rw [h1, h2, Int.fdiv_eq_ediv_of_nonneg _ (by omega)]
      norm_cast
  unfold TtpErrors.pairIdx
  by_cases h : a > b
  · have h' : (a : Int) > (b : Int) := by omega
    simp only [h, h', if_true, key]; norm_cast
  · have h' : ¬ (a : Int) > (b : Int) := by omega
    simp only [h, h', if_false, key]; norm_cast

/-- the same fact when the code selects the branch with an `if` statement instead of a conditional expression -/
theorem pairIdx_split (a b : Nat) :
    (((b : Int) < (a : Int)) ∧ ((a : Int) * ((a : Int) - 1)).fdiv 2 + (b : Int) = ((TtpErrors.pairIdx a b : Nat) : Int)) ∨
    ((¬ (b : Int) < (a : Int)) ∧ ((b : Int) * ((b : Int) - 1)).fdiv 2 + (a : Int) = ((TtpErrors.pairIdx a b : Nat) : Int)) := by
  have h := pairIdx_cast a b
  by_cases hc : (b : Int) < (a : Int)
  · left; exact ⟨hc, by simpa [hc] using h⟩
  · right; exact ⟨hc, by simpa [hc] using h⟩

theorem set_self {l : List Int} {i : Nat} {v : Int} (h : l[i]? = some v) : l.set i v = l := by
  have hi : i < l.length := by
    rcases Nat.lt_or_ge i l.length with h' | h'
    · exact h'
    · simp [List.getElem?_eq_none h'] at h
  have : l[i] = v := by simpa [List.getElem?_eq_getElem hi] using h
  subst this
  exact List.set_getElem_self hi

theorem lt_of_getElem? {α : Type} {l : List α} {i : Nat} {v : α} (h : l[i]? = some v) : i < l.length := by
  rcases Nat.lt_or_ge i l.length with h' | h'
  · exact h'
  · simp [List.getElem?_eq_none h'] at h

/-! ### generated code = model -/

/-- state of the team loop `(temp_1, temp_2, errors)` against the model's `G`; rules 9 and 10 are only counted in
the final pass -/
def GRel (b : List Int × List (List Int) × Int) (g : G) : Prop :=
  b.1 = g.t1 ∧ b.2.1 = g.t2 ∧ b.2.2 = g.e.total ∧ g.e.pairCount = 0 ∧ g.e.balance = 0

/-- state of the day loop `(temp_1, temp_2, errors, is_in_home_streak, home_streak_len, is_in_away_streak,
away_streak_len)` against the model's `Acc`; a streak length is only compared while its streak is open (the value a
length variable holds while its flag is `False` is never read, neither by the code nor by the model) -/
def ARel (b : List Int × List (List Int) × Int × Bool × Int × Bool × Int) (a : Acc) : Prop :=
  b.1 = a.t1 ∧ b.2.1 = a.t2 ∧ b.2.2.1 = a.e.total ∧ b.2.2.2.1 = a.s.inHome ∧
    (if a.s.inHome = true then b.2.2.2.2.1 else 0) = (if a.s.inHome = true then a.s.homeLen else 0) ∧
    b.2.2.2.2.2.1 = a.s.inAway ∧
    (if a.s.inAway = true then b.2.2.2.2.2.2 else 0) = (if a.s.inAway = true then a.s.awayLen else 0) ∧
    a.e.pairCount = 0 ∧ a.e.balance = 0

/-- closes a loop-free leaf: both sides are evaluated with the facts of the case, the totals by `omega` -/
local macro "fin07" : tactic =>
  `(tactic| (simp [LoopGen.StepRel, C07Gen.ARel, TtpErrors.Errs.total, *] <;> omega))

/-- the game-separation part (rules 7 and 8): the cell of `temp_1`, then the cascade on `last_time` -/
local macro "sep07" l:term:max i:term:max d:term:max cfg:term:max : tactic =>
  `(tactic|
    (cases hlast : ($l)[$i]? with
     | none => fin07
     | some last =>
       have hil := lt_of_getElem? hlast
       have hself := set_self hlast
       by_cases h0 : 0 ≤ last
       · by_cases h1 : last < ($d : Int)
         · by_cases h2 : ($d : Int) - last - 1 < ($cfg).smin
           · fin07
           · by_cases h3 : ($cfg).smax < ($d : Int) - last - 1 <;> fin07
         · fin07
       · fin07))

/-- `if team_1 == team_2: continue`, else the separation part -/
local macro "tail07" a:term:max b:term:max l:term:max d:term:max cfg:term:max : tactic =>
  `(tactic|
    (by_cases htk : $a = $b
     · fin07
     · simp only [htk, if_false]
       first
       | sep07 $l (TtpErrors.pairIdx $a $b) $d $cfg
       | (rcases pairIdx_split $a $b with ⟨hc, he⟩ | ⟨hc, he⟩ <;>
            simp only [hc, he, gt_iff_lt, if_true, if_false, LoopGen.get1?_ofNat, LoopGen.set1?_ofNat] <;>
            sep07 $l (TtpErrors.pairIdx $a $b) $d $cfg)))

set_option maxHeartbeats 1600000 in  -- about 170 loop-free leaves, each closed by `simp` + `omega`
/-- **generated code = model**, for every plan `y` (list of rows, any shape, any entries), every number of teams
`n`, all six settings and every prior content of the two scratch arrays (any lengths, ragged included).  `y.shape`
is a parameter of the generated code, instantiated with `(number of rows, n)`; the six settings are the fields of
the model's `Cfg` in the order of the kernel's parameters.  Both sides answer `none` on exactly the same inputs
(a scratch array that is too small, a plan row that is too short, an opponent number outside the plan:
access outside an array; `n = 1`: `days // (teams - 1)` divides by zero).  The returned number is the model's
`Errs.total`.  No well-formedness hypothesis.  All index values the kernel computes are non-negative, so the
negative-index wrap of the generated accessors never takes effect (part of the proof, not an assumption). -/
theorem count_errors_eq_model (y : Plan) (n : Nat) (c : Cfg) (t1 : List Int) (t2 : List (List Int)) :
    count_errors y ((y.length : Int), (n : Int)) c.hmin c.hmax c.amin c.amax c.smin c.smax t1 t2
      = TtpErrors.countErrors? n y c t1 t2 := by
  rw [countErrors?_eq_bind]
  unfold count_errors
  simp only [get1?_eq, get2?_eq, getCol?_eq, set1?_eq, set2?_eq, fill1_eq, fill2_eq, pyFloorDiv_eq, pyRange_eq,
    pyEnumerate_eq, LoopGen.pyRange_zero_ofNat, LoopGen.pyEnumerate]
  apply LoopGen.OptRel.eq
  refine LoopGen.OptRel.bind (R' := GRel) ?_ ?_
  · -- the team loop
    refine forIn_map_rel GRel _ _ _ ?_ _ _ _ ⟨rfl, rfl, rfl, rfl, rfl⟩
    intro t b g hR
    obtain ⟨bt1, bt2, berr⟩ := b
    obtain ⟨ge, gt1, gt2⟩ := g
    obtain ⟨h1, h2, h3, h4, h5⟩ := hR
    simp only at h1 h2 h3 h4 h5
    subst h1 h2 h3
    rw [teamStep_eq_bind]
    simp only [LoopGen.getCol?_ofNat]
    show StepRel GRel ((List.mapM (fun x => x[t]?) y) >>= _) ((List.mapM (fun x => x[t]?) y).bind _)
    cases List.mapM (fun x => x[t]?) y with
    | none => simp [StepRel]
    | some col =>
      simp only [Option.bind_some, Option.bind_eq_bind]
      refine LoopGen.StepRel.bind (R' := ARel) ?_ ?_
      · refine forIn_map_rel ARel _ _ _ ?_ _ _ _ ⟨rfl, rfl, rfl, rfl, rfl, rfl, rfl, h4, h5⟩
        -- one day of one team
        rintro ⟨v, day⟩ ⟨bt1, bt2, berr, bih, bhl, bia, bal⟩ ⟨⟨ih, hl, ia, al⟩, e, at1, at2⟩ ⟨r1, r2, r3, r4, r5, r6, r7, r8, r9⟩
        simp only at r1 r2 r3 r4 r5 r6 r7 r8 r9
        subst r1 r2 r3 r4 r6
        rcases Int.lt_trichotomy v 0 with hv | hv | hv
        · -- away game at `k`
          obtain ⟨k, hk⟩ : ∃ k : Nat, -v - 1 = (k : Int) := ⟨(-v - 1).toNat, by omega⟩
          have hv0 : ¬ v = 0 := by omega
          have hvp : ¬ 0 < v := by omega
          simp only [hv0, hvp, gt_iff_lt, if_true, if_false, hk, pairIdx_cast, LoopGen.get2?_ofNat, LoopGen.get1?_ofNat,
            LoopGen.set1?_ofNat, LoopGen.set2?_ofNat, Int.natCast_inj, TtpErrors.dayStep, Int.toNat_natCast,
            TtpErrors.entry?, TtpErrors.awayStreak, TtpErrors.short, TtpErrors.sepStep, TtpErrors.touch]
          cases hent : (y[day]?.bind fun x => x[k]?) with
          | none => simp [StepRel]
          | some other =>
            simp only [Option.bind_some, Option.bind_eq_bind]
            by_cases hinc : other = (t : Int) + 1 <;> cases bia <;>
              simp only [hinc, ne_eq, not_true_eq_false, not_false_eq_true, Bool.false_eq_true, if_true, if_false]
            -- in an away streak: it continues (rule 6)
            case pos.true | neg.true =>
              simp only [if_true] at r7
              subst r7
              by_cases hmax : c.amax < bal + 1 <;> simp only [hmax, if_true, if_false] <;> tail07 t k bt1 day c
            -- an away streak begins; a home streak ends (rule 3)
            all_goals
              cases bih <;> simp only [Bool.false_eq_true, if_true, if_false]
            case true | true =>
              simp only [if_true] at r5
              subst r5
              by_cases hH : bhl < c.hmin <;> simp only [hH, if_true, if_false] <;> tail07 t k bt1 day c
            all_goals tail07 t k bt1 day c
        · -- bye
          subst hv
          by_cases hA : bal < c.amin <;> by_cases hH : bhl < c.hmin <;> cases bia <;> cases bih <;>
            simp only [Bool.false_eq_true, if_true, if_false] at r5 r7 <;> (try subst r5) <;> (try subst r7) <;>
            simp [TtpErrors.dayStep, TtpErrors.byeStreak, TtpErrors.short, StepRel, ARel, TtpErrors.Errs.total, r8, r9,
              hA, hH] <;> omega
        · -- home game against `k`
          obtain ⟨k, hk⟩ : ∃ k : Nat, v - 1 = (k : Int) := ⟨(v - 1).toNat, by omega⟩
          have hv0 : ¬ v = 0 := by omega
          simp only [hv0, hv, gt_iff_lt, if_true, if_false, hk, pairIdx_cast, LoopGen.get2?_ofNat, LoopGen.get1?_ofNat,
            LoopGen.set1?_ofNat, LoopGen.set2?_ofNat, Int.natCast_inj, TtpErrors.dayStep, Int.toNat_natCast,
            TtpErrors.entry?, TtpErrors.homeStreak, TtpErrors.short, TtpErrors.sepStep, TtpErrors.touch,
            TtpErrors.incr2?]
          cases hent : (y[day]?.bind fun x => x[k]?) with
          | none => simp [StepRel]
          | some other =>
            cases hrow : bt2[t]? with
            | none => simp [StepRel]
            | some row =>
              cases hx : row[k]? with
              | none =>
                have hkl : ¬ k < row.length := fun h => by simp [List.getElem?_eq_getElem h] at hx
                simp [StepRel, hx, hkl]
              | some x =>
                have hkl : k < row.length := lt_of_getElem? hx
                simp only [Option.bind_some, hx, hkl, if_true]
                by_cases hinc : other = -((t : Int) + 1) <;> cases bih <;>
                  simp only [hinc, ne_eq, not_true_eq_false, not_false_eq_true, Bool.false_eq_true, if_true, if_false]
                -- in a home streak: it continues (rule 4)
                case pos.true | neg.true =>
                  simp only [if_true] at r5
                  subst r5
                  by_cases hmax : c.hmax < bhl + 1 <;> simp only [hmax, if_true, if_false] <;> tail07 t k bt1 day c
                -- a home streak begins; an away streak ends (rule 5)
                all_goals
                  cases bia <;> simp only [Bool.false_eq_true, if_true, if_false]
                case true | true =>
                  simp only [if_true] at r7
                  subst r7
                  by_cases hA : bal < c.amin <;> simp only [hA, if_true, if_false] <;> tail07 t k bt1 day c
                all_goals tail07 t k bt1 day c
      · -- after the last day: a streak that is still open can be too short
        rintro ⟨bt1, bt2, berr, bih, bhl, bia, bal⟩ ⟨⟨ih, hl, ia, al⟩, e, at1, at2⟩ ⟨r1, r2, r3, r4, r5, r6, r7, r8, r9⟩
        simp only at r1 r2 r3 r4 r5 r6 r7 r8 r9
        subst r1 r2 r3 r4 r6
        by_cases hA : bal < c.amin <;> by_cases hH : bhl < c.hmin <;> cases bia <;> cases bih <;>
          simp only [Bool.false_eq_true, if_true, if_false] at r5 r7 <;> (try subst r5) <;> (try subst r7) <;>
          simp [TtpErrors.closeStreak, TtpErrors.short, StepRel, GRel, TtpErrors.Errs.total, r8, r9, hA, hH] <;> omega
  · -- `games_per_combo` and the final pass
    rintro ⟨bt1, bt2, berr⟩ ⟨ge, gt1, gt2⟩ ⟨h1, h2, h3, h4, h5⟩
    simp only at h1 h2 h3 h4 h5
    subst h1 h2 h3
    rcases Nat.lt_trichotomy n 1 with hn | hn | hn
    · -- no team: both loops are empty (the value of `days // -1` is never used)
      have hn0 : n = 0 := by omega
      subst hn0
      simp [LoopGen.pyFloorDiv, OptRel, h4, h5]
    · -- one team: `days // 0`
      subst hn
      simp [LoopGen.pyFloorDiv, OptRel]
    · have hn1 : ¬ n = 1 := by omega
      have hd : ((n : Int) - 1) ≠ 0 := by omega
      have hg : LoopGen.pyFloorDiv (y.length : Int) ((n : Int) - 1) = some (((y.length / (n - 1) : Nat)) : Int) := by
        unfold LoopGen.pyFloorDiv
        rw [if_neg hd]
        have h1 : ((n : Int) - 1) = ((n - 1 : Nat) : Int) := by omega
        rw [h1, Int.fdiv_eq_ediv_of_nonneg _ (by omega)]
        norm_cast
      simp only [hg, hn1, if_false, Option.bind_eq_bind, Option.bind_some, bind_pure]
      refine forIn_map_rel _ _ _ _ ?_ _ _ _ (show ge.total - ge.pairCount - ge.balance = ge.total by omega)
      -- one `i` of the final pass
      intro i s s' hs
      have hs' : s' = s := hs
      subst hs'
      refine LoopGen.StepRel.bind_yield ?_
      rw [LoopGen.pyRange_zero_ofNat]
      refine forIn_map_rel _ _ _ _ ?_ _ s' s' rfl
      -- one pair `(i, j)`
      intro j s s'' hs
      have hs' : s'' = s := hs
      subst hs'
      simp only [LoopGen.get2?_ofNat, pairStepL, TtpErrors.entry2?, TtpErrors.pairTerm]
      cases (bt2[i]?.bind fun x => x[j]?) with
      | none => simp [StepRel]
      | some ij =>
        cases (bt2[j]?.bind fun x => x[i]?) with
        | none => simp [StepRel]
        | some ji =>
          by_cases hdiff : ((ij - ji).natAbs : Int) > 1 <;> simp [StepRel, hdiff] <;> omega

/-- the generated function on examples of the kernel's docstring; the scratch arrays start with stale values -/
example : count_errors [[-2, 1], [2, -1]] (2, 2) 1 3 1 3 1 2 [9] [[3, 3], [3, 3]] = some 1 := by decide
example : count_errors
    [[2, -1, 4, -3], [4, 3, -2, -1], [-2, 1, -4, 3], [-4, -3, 2, 1], [3, 4, -1, -2], [-3, -4, 1, 2]] (6, 4)
    1 3 1 3 1 2 (List.replicate 6 77) (List.replicate 4 [5, 5, 5, 5]) = some 2 := by decide
example : count_errors
    [[2, -1, 4, -3], [4, 3, -2, -1], [3, 4, -1, -2], [-2, 1, -4, 3], [-4, -3, 2, 1], [-3, -4, 1, 2]] (6, 4)
    1 2 1 2 1 2 (List.replicate 6 77) (List.replicate 4 [5, 5, 5, 5]) = some 6 := by decide
/-- a bye, a team playing itself, an inconsistent entry -/
example : count_errors [[0, 2], [-2, 2]] (2, 2) 1 3 1 3 1 2 [0] [[0, 0], [0, 0]] = some 6 := by decide
/-- one team: `days // (teams - 1)` divides by zero; `temp_1` too short: access outside the array -/
example : count_errors [[0]] (1, 1) 1 3 1 3 1 2 [] [[0]] = none := by decide
example : count_errors [[-2, 1], [2, -1]] (2, 2) 1 3 1 3 1 2 [] [[3, 3], [3, 3]] = none := by decide

end C07Gen
