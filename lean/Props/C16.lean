import Proofs.Controllers
import Gen.Controllers
import Gen.Systems
/-!
# C16 (part A) — controller blueprints and system equations compute their formulas

Property theorems only.  Every theorem is about a definition of `Gen/Controllers.lean` or
`Gen/Systems.lean`, i.e. about the Lean text that `harness/translate/py2lean.py` regenerates from
the *current* source of `/repo` on every check — a change of a kernel changes the statement that
has to be proved.  The specifications are those of `Model/ControlSpec.lean` (also evaluated by
the model driver on the outputs of the real compiled kernels).

All theorems hold for every linear ordered field `K` (ℚ, ℝ, …) and for arbitrary
interpretations `σ : Syms K` of `pi`, `exp`, `arctan`, `tanh`, `sin`, `cos`.
IEEE-754 rounding is outside (see `ck.assumptions` of `harness/c16.py`).

`inputs_not_modified`: holds by construction of the translation — a generated kernel is a
function of `(state, time, params|control, out)` returning the new `out`; the translator rejects
every store that is not `out[literal] = …`, so a kernel that writes to `state`/`params` has no
`Gen` definition and every theorem below about it stops compiling.  The frame part (`out`
entries that are not assigned keep their content) is a clause of each theorem.  The
implementation is tested for it on every call of the correspondence streams.
-/
namespace C16
open Arith ControlSpec Controllers

/-! ## statements -/

/-- A generic controller kernel as produced by the translator. -/
abbrev GenKernel := ∀ {K : Type}, Ops K → Kernel K

/-- `f` writes exactly `out[0]`, and what it writes is `val` -/
def WritesOut0 (f : GenKernel)
    (val : ∀ {K : Type}, Ops K → (θ s : Nat → K) → K) : Prop :=
  ∀ (K : Type) [Field K] [LinearOrder K] [IsStrictOrderedRing K] (σ : Syms K)
    (s θ out : Nat → K) (t : K),
    f (fieldOps σ) s t θ out 0 = val (fieldOps σ) θ s ∧
      ∀ i, i ≠ 0 → f (fieldOps σ) s t θ out i = out i

/-- The factory registers `f` as `reg`, for `d` state dimensions and one control output, and
`f` is the complete polynomial of degree `k` without constant term: there is a table
`parameter index ↦ monomial` that is a bijection between the `reg.paramDims` declared parameters
and all monomials of degree `1..k` in `d` variables (`CompleteTable`), `reg.paramDims` is their
number `C(d+k,k) − 1`, and the kernel computes `∑ i, θ_i · m_i(s)`. -/
def CompletePolyController (reg : ControllerReg) (exps : List (List Nat)) (d k : Nat)
    (f : GenKernel) : Prop :=
  reg ∈ Gen.Controllers.registrations ∧ reg.stateDims = d ∧ reg.controlDims = 1 ∧
    reg.paramDims = monomialCount d k ∧ CompleteTable exps d k reg.paramDims ∧
    WritesOut0 f (fun o θ s => polyVal o exps θ s)

/-- The factory registers `f` as `reg` with `2·d·k` parameters (`k` anchors in `d` dimensions,
each with `d` coordinates and `d` weights), and for every state and parameter vector `f`
returns the linear law of the FIRST anchor at minimal squared distance. -/
def NearestAnchorController (reg : ControllerReg) (d k : Nat) (f : GenKernel) : Prop :=
  reg ∈ Gen.Controllers.registrations ∧ reg.stateDims = d ∧ reg.controlDims = 1 ∧
    reg.paramDims = 2 * d * k ∧
    ∀ (K : Type) [Field K] [LinearOrder K] [IsStrictOrderedRing K] (σ : Syms K)
      (s θ out : Nat → K) (t : K),
      nearestAnchorLaw (fieldOps σ) d k θ s = some (f (fieldOps σ) s t θ out 0) ∧
        ∀ i, i ≠ 0 → f (fieldOps σ) s t θ out i = out i

/-- The factory registers `f` as `reg` with `n·(d+2)` parameters and `f` is the one-hidden-layer
network of `n` peak neurons `exp(−a²)` evaluated layer by layer. -/
def PeaksController (reg : ControllerReg) (d n : Nat) (f : GenKernel) : Prop :=
  reg ∈ Gen.Controllers.registrations ∧ reg.stateDims = d ∧ reg.controlDims = 1 ∧
    reg.paramDims = n * (d + 2) ∧ WritesOut0 f (fun o θ s => peaksSpec o d n θ s)

/-- `f` (registered as `reg`) writes the components of `spec` to `out[0..n-1]` and nothing else -/
def SystemEquations (reg : SystemReg) (n : Nat) (f : GenKernel)
    (spec : ∀ {K : Type}, Ops K → (Nat → K) → K → List K) : Prop :=
  reg ∈ Gen.Systems.registrations ∧ reg.stateDims = n ∧ reg.controlDims = 1 ∧
    ∀ (K : Type) [Field K] [LinearOrder K] [IsStrictOrderedRing K] (σ : Syms K)
      (s c out : Nat → K) (t : K),
      (List.range n).map (f (fieldOps σ) s t c out) = spec (fieldOps σ) s (c 0) ∧
        ∀ i, n ≤ i → f (fieldOps σ) s t c out i = out i

/-! ## tactics -/

/-- unfold the listed definitions and read the operation table of the field (`simp only`, no
cancellation lemmas, so that the remaining goals are plain polynomial identities) -/
macro "fo_simp" "[" ls:Lean.Parser.Tactic.simpLemma,* "]" : tactic => `(tactic|
  simp only [$ls,*, upd, fo_add, fo_sub, fo_mul, fo_div, fo_neg, fo_ofRat, fo_powN, fo_pi, fo_exp,
    fo_arctan, fo_tanh, fo_sin, fo_cos, fo_lt, fo_le, fo_eq, sumTo_eq_sum, prodTo_eq_prod,
    Finset.sum_range_succ, Finset.sum_range_zero, Finset.prod_range_succ, Finset.prod_range_zero,
    List.range_succ, List.range_zero, List.nil_append, List.cons_append, List.map_cons, List.map_nil,
    List.flatMap_cons, List.flatMap_nil, List.cons.injEq, and_true, if_true,
    Int.cast_ofNat, Nat.cast_ofNat, Int.cast_one, Nat.cast_one, Int.cast_zero, Nat.cast_zero,
    Int.cast_neg, reduceIte, Nat.reduceMul, Nat.reduceAdd, Nat.reduceEqDiff, OfNat.zero_ne_ofNat,
    OfNat.ofNat_ne_zero, zero_ne_one, one_ne_zero, if_false])

/-- frame clause: entries of `out` other than the assigned ones are unchanged -/
macro "frame0" f:ident : tactic => `(tactic|
  (intro i hi; simp [$f:ident, upd, hi]))

macro "poly_proof" f:ident e:ident : tactic => `(tactic|
  (refine ⟨by decide, rfl, rfl, by decide,
      completeTable_of_checks _ _ _ _ (by decide) (by decide) (by decide) (by decide), ?_⟩
   intro K _ _ _ σ s θ out t
   refine ⟨?_, by frame0 $f⟩
   simp [$f:ident, upd, polyVal, monoVal, $e:ident, Finset.sum_range_succ, Finset.prod_range_succ]
   try ring1))

macro "nearest_cases" : tactic => `(tactic|
  (simp only [sqDist_eq_sum, law_eq_sum, Finset.sum_range_succ, Finset.sum_range_zero] at *
   norm_num at *
   all_goals (try split_ifs)
   all_goals intros
   all_goals first | ring1 | (exfalso; linarith)))

set_option hygiene false in
macro "nearest_setup" f:ident d:num k:num : tactic => `(tactic|
  (refine ⟨by decide, rfl, rfl, by decide, ?_⟩
   intro K _ _ _ σ s θ out t
   refine ⟨?_, by frame0 $f⟩
   apply nearestAnchorLaw_eq_some σ $d $k (by decide)
   intro j hj
   rw [isFirstNearest_iff] at hj
   obtain ⟨hk, hle, hlt⟩ := hj
   simp only [$f:ident, upd, fo_add, fo_sub, fo_mul, fo_powN, fo_lt, if_true]))

set_option hygiene false in
macro "nearest2" f:ident d:num : tactic => `(tactic|
  (nearest_setup $f $d 2
   have h0 := hle 0 (by decide)
   have h1 := hle 1 (by decide)
   clear hle
   match j, hk, hlt with
   | 0, _, _ => nearest_cases
   | 1, _, hlt =>
     have l0 := hlt 0 (by decide)
     clear hlt
     nearest_cases))

set_option hygiene false in
macro "nearest3" f:ident d:num : tactic => `(tactic|
  (nearest_setup $f $d 3
   have h0 := hle 0 (by decide)
   have h1 := hle 1 (by decide)
   have h2 := hle 2 (by decide)
   clear hle
   match j, hk, hlt with
   | 0, _, _ => nearest_cases
   | 1, _, hlt =>
     have l0 := hlt 0 (by decide)
     clear hlt
     nearest_cases
   | 2, _, hlt =>
     have l0 := hlt 0 (by decide)
     have l1 := hlt 1 (by decide)
     clear hlt
     nearest_cases))

set_option hygiene false in
macro "nearest4" f:ident d:num : tactic => `(tactic|
  (nearest_setup $f $d 4
   have h0 := hle 0 (by decide)
   have h1 := hle 1 (by decide)
   have h2 := hle 2 (by decide)
   have h3 := hle 3 (by decide)
   clear hle
   match j, hk, hlt with
   | 0, _, _ => nearest_cases
   | 1, _, hlt =>
     have l0 := hlt 0 (by decide)
     clear hlt
     nearest_cases
   | 2, _, hlt =>
     have l0 := hlt 0 (by decide)
     have l1 := hlt 1 (by decide)
     clear hlt
     nearest_cases
   | 3, _, hlt =>
     have l0 := hlt 0 (by decide)
     have l1 := hlt 1 (by decide)
     have l2 := hlt 2 (by decide)
     clear hlt
     nearest_cases))

macro "peaks_proof" f:ident : tactic => `(tactic|
  (refine ⟨by decide, rfl, rfl, by decide, ?_⟩
   intro K _ _ _ σ s θ out t
   refine ⟨?_, by frame0 $f⟩
   simp only [$f:ident, Gen.Controllers.peak, upd, peaksSpec, peakAct, sumTo_eq_sum, fo_add, fo_mul,
     fo_neg, fo_exp, fo_powN, Finset.sum_range_succ, Finset.sum_range_zero, if_true]
   ring_nf))

/-! ## polynomial controllers: complete, one parameter per monomial -/

/-- linear controller, 2 state dimensions: all 2 monomials of degree 1, `param_dims = 2` -/
theorem linear_complete_2d :
    CompletePolyController ⟨"linear", "linear", 2, 1, 2, "linear_2d_1o"⟩
      Gen.Controllers.linear_2d_1o_exps 2 1 @Gen.Controllers.linear_2d_1o := by
  poly_proof Gen.Controllers.linear_2d_1o Gen.Controllers.linear_2d_1o_exps

/-- linear controller, 3 state dimensions: all 3 monomials of degree 1, `param_dims = 3` -/
theorem linear_complete_3d :
    CompletePolyController ⟨"linear", "linear", 3, 1, 3, "linear_3d_1o"⟩
      Gen.Controllers.linear_3d_1o_exps 3 1 @Gen.Controllers.linear_3d_1o := by
  poly_proof Gen.Controllers.linear_3d_1o Gen.Controllers.linear_3d_1o_exps

/-- quadratic controller, 2 state dimensions: all 5 monomials of degree 1..2 -/
theorem quadratic_complete_2d :
    CompletePolyController ⟨"quadratic", "quadratic", 2, 1, 5, "quadratic_2d_1o"⟩
      Gen.Controllers.quadratic_2d_1o_exps 2 2 @Gen.Controllers.quadratic_2d_1o := by
  poly_proof Gen.Controllers.quadratic_2d_1o Gen.Controllers.quadratic_2d_1o_exps

/-- quadratic controller, 3 state dimensions: all 9 monomials of degree 1..2 -/
theorem quadratic_complete_3d :
    CompletePolyController ⟨"quadratic", "quadratic", 3, 1, 9, "quadratic_3d_1o"⟩
      Gen.Controllers.quadratic_3d_1o_exps 3 2 @Gen.Controllers.quadratic_3d_1o := by
  poly_proof Gen.Controllers.quadratic_3d_1o Gen.Controllers.quadratic_3d_1o_exps

/-- cubic controller, 2 state dimensions: all 9 monomials of degree 1..3 -/
theorem cubic_complete_2d :
    CompletePolyController ⟨"cubic", "cubic", 2, 1, 9, "cubic_2d_1o"⟩
      Gen.Controllers.cubic_2d_1o_exps 2 3 @Gen.Controllers.cubic_2d_1o := by
  poly_proof Gen.Controllers.cubic_2d_1o Gen.Controllers.cubic_2d_1o_exps

/-- cubic controller, 3 state dimensions: all 19 monomials of degree 1..3 (including
`s0·s1·s2`, the monomial that was missing before the `fix:` commit 9fbb469) -/
theorem cubic_complete_3d :
    CompletePolyController ⟨"cubic", "cubic", 3, 1, 19, "cubic_3d_1o"⟩
      Gen.Controllers.cubic_3d_1o_exps 3 3 @Gen.Controllers.cubic_3d_1o := by
  poly_proof Gen.Controllers.cubic_3d_1o Gen.Controllers.cubic_3d_1o_exps

/-- The enumeration of the specification has no duplicates, so a `CompleteTable` has exactly
as many entries as there are monomials, and that number is `C(d+k,k) − 1`
(checked for the six (d,k) of the blueprints). -/
theorem monomial_counts :
    ∀ dk ∈ [(2, 1), (3, 1), (2, 2), (3, 2), (2, 3), (3, 3)],
      (monomials dk.1 dk.2).Nodup ∧ (monomials dk.1 dk.2).length = monomialCount dk.1 dk.2 := by
  decide

/-! ## partially linear controllers: the law of the nearest anchor, first anchor wins ties -/

theorem partially_linear_2_nearest_2d :
    NearestAnchorController ⟨"partially_linear", "linear_2", 2, 1, 8, "linear_2d_1o_2"⟩ 2 2
      @Gen.Controllers.linear_2d_1o_2 := by
  nearest2 Gen.Controllers.linear_2d_1o_2 2

theorem partially_linear_2_nearest_3d :
    NearestAnchorController ⟨"partially_linear", "linear_2", 3, 1, 12, "linear_3d_1o_2"⟩ 3 2
      @Gen.Controllers.linear_3d_1o_2 := by
  nearest2 Gen.Controllers.linear_3d_1o_2 3

/-- three anchors (the cascade must update the smallest distance so far: `fix:` 6177b71) -/
theorem partially_linear_3_nearest_2d :
    NearestAnchorController ⟨"partially_linear", "linear_3", 2, 1, 12, "linear_2d_1o_3"⟩ 2 3
      @Gen.Controllers.linear_2d_1o_3 := by
  nearest3 Gen.Controllers.linear_2d_1o_3 2

theorem partially_linear_3_nearest_3d :
    NearestAnchorController ⟨"partially_linear", "linear_3", 3, 1, 18, "linear_3d_1o_3"⟩ 3 3
      @Gen.Controllers.linear_3d_1o_3 := by
  nearest3 Gen.Controllers.linear_3d_1o_3 3

theorem partially_linear_4_nearest_2d :
    NearestAnchorController ⟨"partially_linear", "linear_4", 2, 1, 16, "linear_2d_1o_4"⟩ 2 4
      @Gen.Controllers.linear_2d_1o_4 := by
  nearest4 Gen.Controllers.linear_2d_1o_4 2

theorem partially_linear_4_nearest_3d :
    NearestAnchorController ⟨"partially_linear", "linear_4", 3, 1, 24, "linear_3d_1o_4"⟩ 3 4
      @Gen.Controllers.linear_3d_1o_4 := by
  nearest4 Gen.Controllers.linear_3d_1o_4 3

/-! ## peak networks -/

theorem peaks_1_eq_spec_2d :
    PeaksController ⟨"peaks", "peaks_1", 2, 1, 4, "peaks_2d_1o_1"⟩ 2 1
      @Gen.Controllers.peaks_2d_1o_1 := by
  peaks_proof Gen.Controllers.peaks_2d_1o_1

theorem peaks_2_eq_spec_2d :
    PeaksController ⟨"peaks", "peaks_2", 2, 1, 8, "peaks_2d_1o_2"⟩ 2 2
      @Gen.Controllers.peaks_2d_1o_2 := by
  peaks_proof Gen.Controllers.peaks_2d_1o_2

theorem peaks_3_eq_spec_2d :
    PeaksController ⟨"peaks", "peaks_3", 2, 1, 12, "peaks_2d_1o_3"⟩ 2 3
      @Gen.Controllers.peaks_2d_1o_3 := by
  peaks_proof Gen.Controllers.peaks_2d_1o_3

theorem peaks_1_eq_spec_3d :
    PeaksController ⟨"peaks", "peaks_1", 3, 1, 5, "peaks_3d_1o_1"⟩ 3 1
      @Gen.Controllers.peaks_3d_1o_1 := by
  peaks_proof Gen.Controllers.peaks_3d_1o_1

theorem peaks_2_eq_spec_3d :
    PeaksController ⟨"peaks", "peaks_2", 3, 1, 10, "peaks_3d_1o_2"⟩ 3 2
      @Gen.Controllers.peaks_3d_1o_2 := by
  peaks_proof Gen.Controllers.peaks_3d_1o_2

theorem peaks_3_eq_spec_3d :
    PeaksController ⟨"peaks", "peaks_3", 3, 1, 15, "peaks_3d_1o_3"⟩ 3 3
      @Gen.Controllers.peaks_3d_1o_3 := by
  peaks_proof Gen.Controllers.peaks_3d_1o_3

/-! ## predefined laws -/

/-- Cornejo Maceda's law: four nested `tanh` with protected divisions by the three parameters -/
theorem predefined_cornejo_maceda_eq_spec :
    (⟨"predefined", "cornejo_maceda", 2, 1, 3, "cornejo_maceda"⟩ : ControllerReg)
        ∈ Gen.Controllers.registrations ∧
      WritesOut0 @Gen.Controllers.cornejo_maceda (fun o θ s => cornejoMaceda o θ s) := by
  refine ⟨by decide, ?_⟩
  intro K _ _ _ σ s θ out t
  refine ⟨?_, by frame0 Gen.Controllers.cornejo_maceda⟩
  simp [Gen.Controllers.cornejo_maceda, upd, cornejoMaceda, pdiv]

/-- Table 3-1 (GA): linear in the first two of the three state variables; 2 parameters -/
theorem predefined_table_3_1_ga_eq_spec :
    (⟨"predefined", "table_3_1_ga", 3, 1, 2, "table_3_1_ga"⟩ : ControllerReg)
        ∈ Gen.Controllers.registrations ∧
      WritesOut0 @Gen.Controllers.table_3_1_ga (fun o θ s => table31ga o θ s) := by
  refine ⟨by decide, ?_⟩
  intro K _ _ _ σ s θ out t
  refine ⟨?_, by frame0 Gen.Controllers.table_3_1_ga⟩
  simp [Gen.Controllers.table_3_1_ga, upd, table31ga, Finset.sum_range_succ]

/-- Table 3-1 (LGPC): `θ₂ · sin(θ₃ ⊘ (θ₀ a₁ + θ₁))`; 4 parameters -/
theorem predefined_table_3_1_lgpc_eq_spec :
    (⟨"predefined", "table_3_1_lgpc", 3, 1, 4, "table_3_1_lgpc"⟩ : ControllerReg)
        ∈ Gen.Controllers.registrations ∧
      WritesOut0 @Gen.Controllers.table_3_1_lgpc (fun o θ s => table31lgpc o θ s) := by
  refine ⟨by decide, ?_⟩
  intro K _ _ _ σ s θ out t
  refine ⟨?_, by frame0 Gen.Controllers.table_3_1_lgpc⟩
  fo_simp [Gen.Controllers.table_3_1_lgpc, table31lgpc, pdiv]
  have e : θ 0 * s 0 + θ 1 = s 0 * θ 0 + θ 1 := by ring
  simp only [e]
  by_cases h : s 0 * θ 0 + θ 1 = 0 <;> simp [h]

/-! ## system equations -/

/-- Stuart-Landau: `ȧ₁ = σa₁ − a₂`, `ȧ₂ = σa₂ + a₁ + b`, `σ = 0.1 − a₁² − a₂²` -/
theorem stuart_landau_eq :
    SystemEquations ⟨"make_stuart_landau", "stuart_landau", 2, 1, "stuart_landau_equations"⟩ 2
      @Gen.Systems.stuart_landau_equations (fun o a b => stuartLandau o a b) := by
  refine ⟨by decide, rfl, rfl, ?_⟩
  intro K _ _ _ σ s c out t
  refine ⟨?_, ?_⟩
  · fo_simp [Gen.Systems.stuart_landau_equations, stuartLandau]
    refine ⟨?_, ?_⟩ <;> first | trivial | ring1
  · intro i hi
    have h0 : i ≠ 0 := by omega
    have h1 : i ≠ 1 := by omega
    simp [Gen.Systems.stuart_landau_equations, upd, h0, h1]

/-- Lorenz: `ẋ = 10(y − x)`, `ẏ = x(28 − z) − y + b`, `ż = xy − βz`, `β` the literal of the source -/
theorem lorenz_eq :
    SystemEquations ⟨"make_lorenz", "lorenz", 3, 1, "lorenz_equations"⟩ 3
      @Gen.Systems.lorenz_equations (fun o a b => lorenz o a b) := by
  refine ⟨by decide, rfl, rfl, ?_⟩
  intro K _ _ _ σ s c out t
  refine ⟨?_, ?_⟩
  · fo_simp [Gen.Systems.lorenz_equations, lorenz, lorenzBetaNum, lorenzBetaDen]
    refine ⟨?_, ?_, ?_⟩ <;> first | trivial | ring1
  · intro i hi
    have h0 : i ≠ 0 := by omega
    have h1 : i ≠ 1 := by omega
    have h2 : i ≠ 2 := by omega
    simp [Gen.Systems.lorenz_equations, upd, h0, h1, h2]

/-- the `β` written in the source differs from `8/3` by less than `10⁻¹⁵` -/
theorem lorenz_beta_close :
    |((lorenzBetaNum : ℚ) / (lorenzBetaDen : ℚ)) - 8 / 3| < 1 / 10 ^ 15 := by
  simp only [lorenzBetaNum, lorenzBetaDen]
  rw [abs_lt]
  constructor <;> norm_num

/-- three coupled oscillators, equation (3.1): frequencies `1, π, π²`, growth rates
`σ₁ = −r₁² + r₂² − r₃²`, `σ₂ = 0.1 − r₂²`, `σ₃ = −0.1`, control on `a₄` and `a₆` -/
theorem three_coupled_oscillators_eq :
    SystemEquations ⟨"make_3_couple_oscillators", "3oscillators", 6, 1, "k3_coupled_oscillators"⟩ 6
      @Gen.Systems.k3_coupled_oscillators (fun o a b => oscillators o a b) := by
  refine ⟨by decide, rfl, rfl, ?_⟩
  intro K _ _ _ σ s c out t
  refine ⟨?_, ?_⟩
  · fo_simp [Gen.Systems.k3_coupled_oscillators, Gen.Systems.PI2, oscillators]
    refine ⟨?_, ?_, ?_, ?_, ?_, ?_⟩ <;> first | trivial | ring1
  · intro i hi
    have h0 : i ≠ 0 := by omega
    have h1 : i ≠ 1 := by omega
    have h2 : i ≠ 2 := by omega
    have h3 : i ≠ 3 := by omega
    have h4 : i ≠ 4 := by omega
    have h5 : i ≠ 5 := by omega
    simp [Gen.Systems.k3_coupled_oscillators, upd, h0, h1, h2, h3, h4, h5]

/-! ## index ranges (obligations of C13 for the translated kernels) -/

/-- every registered controller kernel was translated, and every literal index it uses on
`state` / `params` / `out` is below the `state_dims` / `param_dims` / `control_dims` that the
factory passes to `Controller(…)` -/
theorem controller_indices_in_range :
    ∀ r ∈ Gen.Controllers.registrations, ∃ inf ∈ Gen.Controllers.infos,
      inf.name = r.kernel ∧ allBelow inf.stateIdx r.stateDims = true ∧
        allBelow inf.argIdx r.paramDims = true ∧ allBelow inf.outIdx r.controlDims = true := by
  decide

/-- every parameter a controller declares is used by its kernel and vice versa:
the literal `params` indices are exactly `0 .. param_dims − 1` -/
theorem controller_params_all_used :
    ∀ r ∈ Gen.Controllers.registrations, ∃ inf ∈ Gen.Controllers.infos,
      inf.name = r.kernel ∧ inf.argIdx = List.range r.paramDims := by
  decide

/-- the same for the system equations: `state` indices below `state_dims`, `control` indices
below `control_dims`, and the kernel assigns exactly `out[0 .. state_dims − 1]` -/
theorem system_indices_in_range :
    ∀ r ∈ Gen.Systems.registrations, ∃ inf ∈ Gen.Systems.infos,
      inf.name = r.kernel ∧ allBelow inf.stateIdx r.stateDims = true ∧
        allBelow inf.argIdx r.controlDims = true ∧ inf.outIdx = List.range r.stateDims := by
  decide

/-- no translated kernel reads the time argument -/
theorem kernels_time_invariant :
    (∀ inf ∈ Gen.Controllers.infos, inf.usesTime = false) ∧
      (∀ inf ∈ Gen.Systems.infos, inf.usesTime = false) := by
  decide

/-- The theorems above cover every blueprint the factories register: the registered kernels are
exactly these 21 controllers and 3 systems, in this order (a new or renamed blueprint without a
theorem breaks this statement). -/
theorem all_registrations_covered :
    Gen.Controllers.registrations.map (·.kernel) =
        ["linear_2d_1o", "linear_3d_1o", "quadratic_2d_1o", "quadratic_3d_1o", "cubic_2d_1o",
         "cubic_3d_1o", "linear_2d_1o_2", "linear_2d_1o_3", "linear_2d_1o_4", "linear_3d_1o_2",
         "linear_3d_1o_3", "linear_3d_1o_4", "peaks_2d_1o_1", "peaks_2d_1o_2", "peaks_2d_1o_3",
         "peaks_3d_1o_1", "peaks_3d_1o_2", "peaks_3d_1o_3", "cornejo_maceda", "table_3_1_ga",
         "table_3_1_lgpc"] ∧
      Gen.Systems.registrations.map (·.kernel) =
        ["stuart_landau_equations", "lorenz_equations", "k3_coupled_oscillators"] := by
  decide

/-! ## non-vacuity -/

/-- the last parameter of the 3-d cubic controller multiplies `s0·s1·s2`: with the unit parameter
vector `e₁₈` and the state `(2, 3, 5)` the controller returns `30` -/
example :
    Gen.Controllers.cubic_3d_1o (fieldOps (K := ℚ) ⟨0, id, id, id, id, id⟩) (ofList 0 [2, 3, 5]) 0
      (fun i => if i = 18 then 1 else 0) (fun _ => 0) 0 = 30 := by
  refine (cubic_complete_3d.2.2.2.2.2 ℚ ⟨0, id, id, id, id, id⟩ (ofList 0 [2, 3, 5])
    (fun i => if i = 18 then 1 else 0) (fun _ => 0) 0).1.trans ?_
  simp [polyVal, monoVal, Gen.Controllers.cubic_3d_1o_exps, ofList, Finset.sum_range_succ,
    Finset.prod_range_succ]
  norm_num


/-- the hypotheses of the nearest-anchor theorems are satisfiable by a non-trivial input: three
anchors at squared distances 16, 1, 4 — the second one is nearest and its law `2·s₀` is applied -/
example :
    nearestAnchorLaw (fieldOps (K := ℚ) ⟨0, id, id, id, id, id⟩) 2 3
      (ofList 0 [5, 0, 1, 0, 2, 0, 2, 0, 3, 0, 3, 0]) (ofList 0 [1, 0]) = some 2 := by
  rw [(partially_linear_3_nearest_2d.2.2.2.2 ℚ ⟨0, id, id, id, id, id⟩ (ofList 0 [1, 0])
    (ofList 0 [5, 0, 1, 0, 2, 0, 2, 0, 3, 0, 3, 0]) (fun _ => 0) 0).1]
  simp [Gen.Controllers.linear_2d_1o_3, upd, ofList]
  norm_num

end C16
