import Props.C01
import Props.C02
import Props.C05
import Props.C07
import Props.C08
import Props.C09
import Props.C15
import Model.Search
/-!
# C12 — bundled experiment runs are replicable and log true results

C12 is about whole runs of moptipy algorithms under a numpy random generator and an FE budget; there
is no executable Lean model of those that could be tied to the code.  What is proved here is only
the part of the property that is *about moptipyapps' own components*, as short corollaries of the
theorems of C01, C02, C05, C07, C08, C09, C15 (part 1), and what that purity buys for an abstract
run (part 2, `Model/Search.lean` — a shape, NOT a model of moptipy: that tie is an assumption).
The universal statement of C12 itself is checked on sampled runs by `harness/c12.py` with the
compiled specifications of those properties as independent oracles (evidence level `other`).
-/
namespace C12
open Pack

/-! ## part 1: one objective-function evaluation is a pure function and equals its documentation -/

/-- **bin packing (encoding 1, every objective)**: for a valid instance and a signed permutation,
whatever the destination packing (`y0`, `y0'`) and the objective's scratch array (`t`, `t'`) contained
before, decoding succeeds, yields the same feasible packing and bin count, and every one of the seven
objectives returns the documented value `(k-1)·scale + tie` of that packing — so the value registered
for `x` in one run is the value registered for `x` in the repeated run and the value an independent
re-evaluation of the logged packing yields. (Encoding 2: `Ibl.decode2_feasible`; its statelessness
is the subject of C14.) -/
theorem binpacking_fe_pure (o : BinObj.Obj) (I : Inst) (hv : I.Valid) (x : List Int)
    (hx : SignedPermOf I x) (y0 y0' : List Row) (t t' : List Int)
    (hy : x.length ≤ y0.length) (hy' : x.length ≤ y0'.length)
    (ht : I.nItems ≤ t.length) (ht' : I.nItems ≤ t'.length) :
    ∃ rows rows' k, Ibl.decode1? I x y0 = some (rows, k) ∧ Ibl.decode1? I x y0' = some (rows', k) ∧
      rows'.take x.length = rows.take x.length ∧ Feasible I (rows.take x.length) k ∧
      BinObj.eval o I (rows.take x.length) t = .ok (BinObj.spec o I (rows.take x.length) k) ∧
      BinObj.eval o I (rows'.take x.length) t' = .ok (BinObj.spec o I (rows.take x.length) k) := by
  obtain ⟨rows, k, h1, hf, _⟩ := Ibl.decode1_feasible I hv x hx y0 hy
  obtain ⟨rows', k', h1', _, _⟩ := Ibl.decode1_feasible I hv x hx y0' hy'
  have hs := Ibl.decode1_stateless I x y0 y0' hy hy'
  rw [h1, h1'] at hs
  simp only [Option.map_some, Option.some.injEq, Prod.mk.injEq] at hs
  obtain ⟨hrows, hk⟩ := hs
  subst hk
  refine ⟨rows, rows', k, h1, h1', hrows.symm, hf, BinObj.obj_eq_spec o hv hf t ht, ?_⟩
  rw [← hrows]
  exact BinObj.obj_eq_spec o hv hf t' ht'

/-- **bin packing, re-evaluation of a logged packing**: any two evaluations of an objective on the same
rows agree, whatever the scratch arrays held (feasible or not, error cases included). -/
theorem binpacking_reevaluation (o : BinObj.Obj) (I : Inst) (rows : List Row) (t t' : List Int)
    (h : t.length = t'.length) : BinObj.eval o I rows t = BinObj.eval o I rows t' :=
  BinObj.scratch_irrelevant o I rows t t' h

/-- **TSP**: on an `n × n` matrix and a non-empty tour over `0..n-1` the kernel stays inside its
arrays and returns the cyclic edge sum — the value the harness recomputes for the final tour. -/
theorem tsp_value_true (d : Tsp.Matrix) (n : Nat) (x : List Nat) (hd : Tsp.Square d n) (hx : x ≠ [])
    (hr : ∀ c ∈ x, c < n) : Tsp.tourLen? d x = some (Tsp.cyclicSum d x) := by
  rw [Tsp.tourLen?_noOOB d n x hd hx hr, Tsp.tourLen_eq_cyclicSum d x hx]

/-- **QAP**: on non-negative `n × n` matrices and a permutation the compiled kernel returns the
documented double sum (as long as it is below `2^63`). -/
theorem qap_value_true (f d : Qap.Matrix) (n : Nat) (p : List Nat) (hf : Qap.Square f n)
    (hd : Qap.Square d n) (nf : Qap.NonNeg f) (nd : Qap.NonNeg d) (hp : Qap.IsPerm p n)
    (hb : Qap.qapSpec f d p < 2 ^ 63) : Qap.qapEval? f d (Qap.asInts p) = some (Qap.qapSpec f d p) :=
  Qap.qapEval_exact f d n p hf hd nf nd hp hb

/-- **TTP plan length**: on every plan of the game-plan space the kernel returns the documented
tournament walk length. -/
theorem ttp_length_true (y : TtpLength.Plan) (n rounds : Nat) (d : Tsp.Matrix) (pen : Int)
    (hd : Tsp.Square d n) (hy : TtpLength.InSpace y n rounds) :
    TtpLength.planLength? y n d pen = some (TtpLength.walkLength y n d pen) :=
  TtpLength.planLength?_eq_walk y n rounds d pen hd hy

/-- **TTP errors**: on every plan of the game-plan space, with scratch arrays of the allocated sizes
and ANY content, the kernel returns a value, and it is the value for clean scratch arrays: two
evaluations of the same plan (in one run, in the repeated run, in a re-evaluation) agree. -/
theorem ttp_errors_pure (n rounds : Nat) (c : TtpErrors.Cfg) (p : TtpErrors.Plan) (t1 t1' : List Int)
    (t2 t2' : List (List Int)) (hn : 2 ≤ n) (hp : TtpErrors.InSpace n rounds p)
    (hs : TtpErrors.ScratchOk n t1 t2) (hs' : TtpErrors.ScratchOk n t1' t2') :
    ∃ v, TtpErrors.countErrors? n p c t1 t2 = some v ∧ TtpErrors.countErrors? n p c t1' t2' = some v := by
  obtain ⟨v, h1, h2⟩ := TtpErrors.countErrors_noOOB n rounds c p t1 t2 hn hp hs
  obtain ⟨v', h1', h2'⟩ := TtpErrors.countErrors_noOOB n rounds c p t1' t2' hn hp hs'
  rw [h2] at h2'
  cases h2'
  exact ⟨v, h1, h1'⟩

/-- **TTP game decoding**: the decoded plan does not depend on what the destination held before. -/
theorem ttp_decoding_pure (x : List Int) (days n : Nat) (y0 y0' : GameEnc.Plan)
    (hs : GameEnc.Shape y0 days n) (hs' : GameEnc.Shape y0' days n) :
    GameEnc.mapGames x days n y0 = GameEnc.mapGames x days n y0' :=
  GameEnc.mapGames_stateless x days n y0 y0' hs hs'

/-! ## part 2: what purity buys for a run (abstract process, see `Model/Search.lean`) -/
open Search

variable {X A R S : Type}

theorem record_true (f : X → Int) (p : Proc X) (x : X) (h : p.bestF = f p.best) :
    (record p x (f x)).bestF = f (record p x (f x)).best := by
  unfold record; split <;> simp_all

theorem record_fes (p : Proc X) (x : X) (v : Int) : (record p x v).fes = p.fes + 1 := by
  unfold record; split <;> rfl

theorem record_lastImp (p : Proc X) (x : X) (v : Int) (h : 1 ≤ p.lastImp ∧ p.lastImp ≤ p.fes) :
    1 ≤ (record p x v).lastImp ∧ (record p x v).lastImp ≤ (record p x v).fes := by
  unfold record
  split
  · simp
  · simp only; omega

theorem loop_inv (alg : Algo X A R) (f : X → Int) (goal : Int) :
    ∀ (n : Nat) (a : A) (r : R) (x : X) (v : Int) (p : Proc X),
      p.bestF = f p.best → 1 ≤ p.lastImp ∧ p.lastImp ≤ p.fes →
      (loop alg f goal n a r x v p).bestF = f (loop alg f goal n a r x v p).best ∧
      (loop alg f goal n a r x v p).fes ≤ p.fes + n ∧
      1 ≤ (loop alg f goal n a r x v p).lastImp ∧
      (loop alg f goal n a r x v p).lastImp ≤ (loop alg f goal n a r x v p).fes := by
  intro n
  induction n with
  | zero => intro a r x v p h1 h2; simp [loop, h1, h2]
  | succ n ih =>
    intro a r x v p h1 h2
    unfold loop
    dsimp only
    split
    · exact ⟨h1, by omega, h2.1, h2.2⟩
    · have := ih (alg.next a r x v).1 (alg.next a r x v).2.1 (alg.next a r x v).2.2
        (f (alg.next a r x v).2.2) (record p (alg.next a r x v).2.2 (f (alg.next a r x v).2.2))
        (record_true f p _ h1) (record_lastImp p _ _ h2)
      rw [record_fes] at this
      refine ⟨this.1, by omega, this.2.2.1, this.2.2.2⟩

/-- **logs a true result, within the budget**: whatever the algorithm, the objective, the seed and the
goal, the reported best value is the objective value of the reported best solution, at most `budget`
FEs are consumed, and the last improvement lies within the consumed FEs. -/
theorem run_true_within_budget (alg : Algo X A R) (f : X → Int) (goal : Int) (budget : Nat) (seed : R)
    (hb : 1 ≤ budget) :
    (run alg f goal budget seed).bestF = f (run alg f goal budget seed).best ∧
    (run alg f goal budget seed).fes ≤ budget ∧
    1 ≤ (run alg f goal budget seed).lastImp ∧
    (run alg f goal budget seed).lastImp ≤ (run alg f goal budget seed).fes := by
  unfold run
  dsimp only
  have := loop_inv alg f goal (budget - 1) (alg.init seed).1 (alg.init seed).2.1 (alg.init seed).2.2
    (f (alg.init seed).2.2) ⟨(alg.init seed).2.2, f (alg.init seed).2.2, 1, 1⟩ rfl (by simp)
  refine ⟨this.1, ?_, this.2.2.1, this.2.2.2⟩
  have h := this.2.1
  dsimp only at h
  omega

theorem loopS_eq_loop (alg : Algo X A R) (fS : S → X → Int × S) (f : X → Int) (goal : Int)
    (h : ∀ s x, (fS s x).1 = f x) :
    ∀ (n : Nat) (a : A) (r : R) (x : X) (v : Int) (s : S) (p : Proc X),
      loopS alg fS goal n a r x v s p = loop alg f goal n a r x v p := by
  intro n
  induction n with
  | zero => intro a r x v s p; rfl
  | succ n ih =>
    intro a r x v s p
    unfold loopS loop
    split
    · rfl
    · simp only [h]
      exact ih _ _ _ _ _ _

/-- **replicable**: if the value an objective implementation returns does not depend on its scratch
state (what `binpacking_fe_pure`, `ttp_errors_pure`, … establish for moptipyapps' components), then two
runs of the same algorithm with the same seed (= the same random stream, the assumption about moptipy
and numpy), goal and budget report the same best solution, best value, FE count and last-improvement
FE — whatever the scratch state held at the start of either run. -/
theorem run_replicable (alg : Algo X A R) (fS : S → X → Int × S) (goal : Int) (budget : Nat) (seed : R)
    (hpure : ∀ s s' x, (fS s x).1 = (fS s' x).1) (s0 s0' : S) :
    runS alg fS goal budget seed s0 = runS alg fS goal budget seed s0' := by
  have h : ∀ s x, (fS s x).1 = (fun x => (fS s0 x).1) x := fun s x => hpure s s0 x
  unfold runS
  simp only [loopS_eq_loop alg fS _ goal h, hpure s0' s0]

/-- the stateful run equals the pure run of part 2, hence also logs a true result within its budget -/
theorem runS_eq_run (alg : Algo X A R) (fS : S → X → Int × S) (f : X → Int) (goal : Int) (budget : Nat)
    (seed : R) (h : ∀ s x, (fS s x).1 = f x) (s0 : S) :
    runS alg fS goal budget seed s0 = run alg f goal budget seed := by
  unfold runS run
  simp only [loopS_eq_loop alg fS f goal h, h]

/-! ## the hypotheses are satisfiable / the statements are not vacuous -/

/-- a toy algorithm: candidates `seed, seed+1, …`; objective `|x - 5|` with a scratch counter -/
def toyAlg : Algo Int Unit Int := ⟨fun s => ((), s + 1, s), fun _ r _ _ => ((), r + 1, r)⟩
def toyF (s : Nat) (x : Int) : Int × Nat := ((x - 5).natAbs, s + 1)

example : (runS toyAlg toyF 0 10 2 0).best = 5 ∧ (runS toyAlg toyF 0 10 2 0).bestF = 0 ∧
    (runS toyAlg toyF 0 10 2 0).fes = 4 ∧ (runS toyAlg toyF 0 10 2 77).lastImp = 4 := by decide

example : runS toyAlg toyF 0 10 2 0 = runS toyAlg toyF 0 10 2 99 :=
  run_replicable toyAlg toyF 0 10 2 (fun _ _ _ => rfl) 0 99

end C12
