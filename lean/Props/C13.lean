import Gen.MinAnnIdx
/-!
# C13 — index safety of the min-ANN controller kernels (generated obligation)

`Gen/MinAnnIdx.lean` is regenerated on every run from the current source of
`dynamic_control/controllers/min_ann.py` (`harness/translate/minann_idx.py`): it lists every literal subscript of the
six kernels and the dimensions they are registered with.  The search loops of these kernels are float-controlled and
not modelled, but they contain no array access other than the listed ones, so index safety is decided here.
(The index theorems of all other kernels live in the `Props/Cxx.lean` files of their properties; `harness/c13.py`
audits them together.)
-/
namespace C13
open Gen.MinAnnIdx

/-- every literal access of a registered min-ANN kernel is inside its array: `state[i]` with `i < state_dims`,
`params[i]` with `i < param_dims`, `out[i]` with `i < control_dims`.  (Slices `params[a:b]` are clamped by numpy/numba
and can never leave the array; their shape is the subject of `Props/C13Shape.lean`, which is informational only.) -/
def Reg.Safe (r : Reg) : Prop :=
  (∀ i ∈ r.stateIdx, i < r.stateDims) ∧ (∀ i ∈ r.paramIdx, i < r.paramDims) ∧ (∀ i ∈ r.outIdx, i < r.controlDims)

instance (r : Reg) : Decidable (Reg.Safe r) := by unfold Reg.Safe; infer_instance

theorem minAnn_indices_in_range : ∀ r ∈ regs, Reg.Safe r := by decide

/-- there is something to check: six kernels are registered -/
example : regs.length = 6 := by decide

end C13
