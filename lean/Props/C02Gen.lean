import Model.BinObj
import Proofs.LoopGen
/-!
# C02 (tie between source and model) — the generated bin-packing objective kernels equal the hand-written models

`Gen/BinCountAnd{LastEmpty,Empty,LastSmall,Small}.lean` are regenerated on every run from the current source of
`moptipyapps/binpacking2d/objectives/bin_count_and_*.py` (`harness/translate/loop2lean.py`): shallow embeddings of the
Python text in the `Option` monad.  The hand-written models of `Model/BinObj.lean` (which all C02 theorems are about)
read a packing as a list of `Pack.Row` records — an `n × 6` matrix by construction — while the generated code reads a
list of rows of integers through checked accessors.  The theorems below relate the two through the explicit
conversion `mat` (a record is the row `[id, bin, left, bottom, right, top]`, the column numbers are the `IDX_*`
constants of the source, also regenerated) and hold for ALL packings of that shape and all scratch arrays.
The two kernels with a scratch array can fail; the model distinguishes `Err.oob` and `Err.empty`, the generated code
has one failure (`none`), so the model's answer is compared through `Except.toOption`.
(The two skyline kernels contain a `while` loop and are outside the translator's subset: it refuses them.)

This file holds the conversion and the statements about the models alone; the four theorems live in
`Props/C02Gen{LastEmpty,Empty,LastSmall,Small}.lean`, one file per generated kernel, so that a change of one kernel
leaves the theorems about the other three checked.
-/
-- the proofs are re-checked against regenerated text: simp sets are deliberately a superset of what one variant needs
set_option linter.unusedSimpArgs false
set_option linter.unusedVariables false

namespace C02Gen
open Pack (Row)
open LoopGen (OptRel StepRel forIn_map_rel_mem)

/-- a packing record as the row of the `n × 6` matrix -/
def rowList (a : Row) : List Int := [a.id, a.bin, a.l, a.b, a.r, a.t]

/-- a packing as the matrix the kernels receive -/
def mat (rows : List Row) : List (List Int) := rows.map rowList

theorem mat_length (rows : List Row) : (mat rows).length = rows.length := by simp [mat]

/-- reading column `j` of row `i` of the matrix -/
theorem get2?_mat {rows : List Row} {i : Nat} {a : Row} (h : rows[i]? = some a) (j : Nat) :
    LoopGen.get2? (mat rows) (i : Int) (j : Int) = (rowList a)[j]? := by
  rw [LoopGen.get2?_ofNat]
  simp [mat, h]

theorem get_bin {rows : List Row} {i : Nat} {a : Row} (h : rows[i]? = some a) :
    LoopGen.get2? (mat rows) (i : Int) 1 = some a.bin := by simpa [rowList] using get2?_mat h 1
theorem get_l {rows : List Row} {i : Nat} {a : Row} (h : rows[i]? = some a) :
    LoopGen.get2? (mat rows) (i : Int) 2 = some a.l := by simpa [rowList] using get2?_mat h 2
theorem get_b {rows : List Row} {i : Nat} {a : Row} (h : rows[i]? = some a) :
    LoopGen.get2? (mat rows) (i : Int) 3 = some a.b := by simpa [rowList] using get2?_mat h 3
theorem get_r {rows : List Row} {i : Nat} {a : Row} (h : rows[i]? = some a) :
    LoopGen.get2? (mat rows) (i : Int) 4 = some a.r := by simpa [rowList] using get2?_mat h 4
theorem get_t {rows : List Row} {i : Nat} {a : Row} (h : rows[i]? = some a) :
    LoopGen.get2? (mat rows) (i : Int) 5 = some a.t := by simpa [rowList] using get2?_mat h 5

/-! ### the hand-written loops as folds (statements about the model only) -/

def lastEmptyStep (st : Int × Int) (a : Row) : Int × Int :=
  if a.bin > st.1 then (a.bin, 1) else if a.bin = st.1 then (st.1, st.2 + 1) else st

theorem lastEmptyLoop_eq (rows : List Row) (cb cs : Int) :
    some (BinObj.lastEmptyLoop rows cb cs) = rows.foldlM (fun st a => some (lastEmptyStep st a)) (cb, cs) := by
  induction rows generalizing cb cs with
  | nil => rfl
  | cons a r ih =>
    simp only [BinObj.lastEmptyLoop, List.foldlM_cons, lastEmptyStep, Option.bind_eq_bind, Option.bind_some]
    split
    · exact ih _ _
    · split <;> exact ih _ _

def lastSmallStep (st : Int × Int) (a : Row) : Int × Int :=
  if a.bin < st.1 then st
  else if a.bin > st.1 then (a.bin, (a.r - a.l) * (a.t - a.b))
  else if a.bin = st.1 then (st.1, st.2 + (a.r - a.l) * (a.t - a.b)) else st

theorem lastSmallLoop_eq (rows : List Row) (cb ca : Int) :
    some (BinObj.lastSmallLoop rows cb ca) = rows.foldlM (fun st a => some (lastSmallStep st a)) (cb, ca) := by
  induction rows generalizing cb ca with
  | nil => rfl
  | cons a r ih =>
    simp only [BinObj.lastSmallLoop, List.foldlM_cons, lastSmallStep, Option.bind_eq_bind, Option.bind_some]
    split
    · exact ih _ _
    · split
      · exact ih _ _
      · split <;> exact ih _ _

def accStep (wt : Row → Int) (st : List Int × Int) (a : Row) : Option (List Int × Int) :=
  (BinObj.addAt st.1 (a.bin - 1) (wt a)).toOption.map fun t' => (t', max st.2 (a.bin - 1))

theorem accLoop_toOption (wt : Row → Int) (rows : List Row) (temp : List Int) (tb : Int) :
    (BinObj.accLoop wt rows temp tb).toOption = rows.foldlM (accStep wt) (temp, tb) := by
  induction rows generalizing temp tb with
  | nil => rfl
  | cons a r ih =>
    simp only [BinObj.accLoop, List.foldlM_cons, accStep]
    cases h : BinObj.addAt temp (a.bin - 1) (wt a) with
    | error e => simp [Except.toOption]
    | ok t' => simpa [Except.toOption] using ih t' _

theorem binCountAndEmpty_toOption (rows : List Row) (temp : List Int) :
    (BinObj.binCountAndEmpty rows temp).toOption
      = (rows.foldlM (accStep fun _ => 1) (BinObj.fill0 temp, -1)).bind fun st =>
          (BinObj.sliceMin st.1 (st.2 + 1)).toOption.map fun m => (rows.length : Int) * st.2 + m := by
  unfold BinObj.binCountAndEmpty
  rw [← accLoop_toOption]
  cases BinObj.accLoop (fun _ => 1) rows (BinObj.fill0 temp) (-1) with
  | error e => rfl
  | ok st =>
    obtain ⟨t', tb⟩ := st
    simp only [Except.toOption, Option.bind_some]
    cases BinObj.sliceMin t' (tb + 1) <;> rfl

theorem binCountAndSmall_toOption (rows : List Row) (binArea : Int) (temp : List Int) :
    (BinObj.binCountAndSmall rows binArea temp).toOption
      = (rows.foldlM (accStep BinObj.rarea) (BinObj.fill0 temp, 0)).bind fun st =>
          (BinObj.sliceMin st.1 (st.2 + 1)).toOption.map fun m => binArea * st.2 + m := by
  unfold BinObj.binCountAndSmall
  rw [← accLoop_toOption]
  cases BinObj.accLoop BinObj.rarea rows (BinObj.fill0 temp) 0 with
  | error e => rfl
  | ok st =>
    obtain ⟨t', tb⟩ := st
    simp only [Except.toOption, Option.bind_some]
    cases BinObj.sliceMin t' (tb + 1) <;> rfl

/-! ### the primitives of the generated code against those of the model -/

/-- the two formulations of numba's index resolution (negative wrap) agree -/
theorem idx?_eq (len : Nat) (i : Int) : LoopGen.idx? len i = BinObj.idx? len i := by
  unfold LoopGen.idx? BinObj.idx?
  by_cases h1 : i < 0
  · by_cases h2 : 0 ≤ i + len
    · have h3 : ¬ (0 ≤ i ∧ i < len) := by omega
      have h4 : -(len : Int) ≤ i ∧ i < 0 := by omega
      simp [h1, h2, h3, h4]
    · have h3 : ¬ (0 ≤ i ∧ i < len) := by omega
      have h4 : ¬ (-(len : Int) ≤ i ∧ i < 0) := by omega
      simp [h1, h2, h3, h4] <;> omega
  · by_cases h2 : i < len
    · have h3 : 0 ≤ i ∧ i < len := by omega
      simp [h1, h2, h3]
    · have h3 : ¬ (0 ≤ i ∧ i < len) := by omega
      have h4 : ¬ (-(len : Int) ≤ i ∧ i < 0) := by omega
      simp [h1, h2, h3, h4]

/-- `temp[i] += v`: read, add, write back -/
theorem addAt_toOption (t : List Int) (i v : Int) :
    ((LoopGen.get1? t i).bind fun old => LoopGen.set1? t i (old + v)) = (BinObj.addAt t i v).toOption := by
  unfold LoopGen.get1? LoopGen.set1? BinObj.addAt
  rw [idx?_eq]
  cases BinObj.idx? t.length i with
  | none => rfl
  | some j =>
    simp only [Option.bind_some, Option.map_some]
    cases t[j]? <;> rfl

/-- `temp[0:stop].min()` for `stop ≥ 0` -/
theorem sliceMin_toOption (t : List Int) (stop : Int) (h : 0 ≤ stop) :
    LoopGen.sliceMin? t 0 stop = (BinObj.sliceMin t stop).toOption := by
  unfold LoopGen.sliceMin? BinObj.sliceMin
  rw [LoopGen.pySlice_zero_nonneg t stop h]
  cases t.take stop.toNat <;> rfl

/-- loop state `(temp, total_bins)` of the two kernels with a scratch array: equal, and `total_bins ≥ -1`
(so the slice end `total_bins + 1` is never negative: numpy would count a negative end from the back) -/
def AccRel (b c : List Int × Int) : Prop := c = b ∧ -1 ≤ b.2

end C02Gen
