import Gen.SwapDistance
import Model.Order1d
import Proofs.LoopGen
import Proofs.Order1dSwap
/-!
# C20 (tie between source and model) — the generated `swap_distance` equals the hand-written model

`Gen/SwapDistance.lean` is regenerated on every run from the current source of
`moptipyapps/order1d/distances.py:swap_distance` (`harness/translate/loop2lean.py`): a shallow embedding of the
Python text in the `Option` monad.  Two things of the source are not modelled by the translator and are PARAMETERS of
the generated function:

* `np.argsort` — the parameter `np_argsort : List Int → List Int`; the theorems instantiate it with the hand-written
  model's `Order1d.argsort` (read as Python ints), the same function the model's own theorems use;
* the `while j != i` loop — translated BY FUEL: at most `fuel` iterations, and running out of fuel is a failure
  (`none`), like an access outside an array.  The hand-written model bounds the same loop with the fuel `2·n`
  (`Order1d.walk`, result `Res.diverge`).

`swap_distance_eq_model` is the exact statement at the model's own fuel `2·n`, for ALL inputs (the three failures of
the model — outside an array, divergence, error — all read as `none`).  `swap_distance_fuel_ge` extends it to every
fuel `≥ 2·n` whenever the model returns a value, in particular (`swap_distance_perm`) under exactly the hypotheses of
the model's own theorems: both arguments permutations of `0..n-1`.
-/
-- the proofs are re-checked against regenerated text: simp sets are deliberately a superset of what one variant needs
set_option linter.unusedSimpArgs false
set_option linter.unusedVariables false

namespace C20Gen
open Order1d (Res)
open LoopGen (OptRel StepRel StepRel2)

/-- a result of the model read as an `Option`: every failure (`err`, `oob`, `diverge`) is `none` -/
def toOpt {α : Type} : Res α → Option α
  | .ok a => some a
  | _ => none

/-- the model's `argsort` with the positions read as Python ints -/
def argsortInt (p : List Int) : List Int := (Order1d.argsort p).map Int.ofNat

/-! ### the hand-written loops as loops (statements about the model only) -/

/-- one iteration of `while j != i: unchecked[j] = False; j = x[j]`; the state is `(unchecked, j)` -/
def wstep (x : List Int) (i : Nat) (s : List Bool × Int) : Option (ForInStep (List Bool × Int)) :=
  if s.2 = (i : Int) then some (.done s) else
    (Order1d.wrapIdx s.1.length s.2).bind fun ju =>
      (Order1d.wrapIdx x.length s.2).bind fun jx =>
        (x[jx]?).map fun j' => .yield (s.1.set ju false, j')

/-- the model's walk with fuel `l.length` is the loop by fuel over `l`, followed by the check that it ended -/
theorem walk_toOpt (x : List Int) (i : Nat) (l : List Nat) (j : Int) (u : List Bool) :
    toOpt (Order1d.walk x i l.length j u)
      = (forIn l (u, j) (fun _ s => wstep x i s)).bind fun s => if s.2 = (i : Int) then some s.1 else none := by
  induction l generalizing j u with
  | nil =>
    rw [List.length_nil, Order1d.walk]
    by_cases h : j = (i : Int) <;> simp [h, toOpt]
  | cons a r ih =>
    rw [List.length_cons, Order1d.walk, List.forIn_cons]
    by_cases h : j = (i : Int)
    · simp [h, toOpt, wstep]
    · simp only [h, if_false, wstep]
      cases Order1d.wrapIdx u.length j with
      | none => simp [toOpt]
      | some ju =>
        cases Order1d.wrapIdx x.length j with
        | none => simp [toOpt]
        | some jx =>
          cases hx : x[jx]? with
          | none => simp [toOpt, hx]
          | some j' => simpa [hx, wstep] using ih j' (u.set ju false)

/-- body of `for i in range(n)` in the model, with the fuel of the walk as a parameter (the model uses `2·n`);
the state is `(unchecked, result)` -/
def cstep (x : List Int) (f : Nat) (s : List Bool × Int) (i : Nat) : Option (List Bool × Int) :=
  match s.1[i]? with
  | none => none
  | some false => some s
  | some true => (x[i]?).bind fun j => (toOpt (Order1d.walk x i f j (s.1.set i false))).map fun u' => (u', s.2 + 1)

theorem cyclesLoop_toOpt (x : List Int) (n : Nat) (is : List Nat) (u : List Bool) (r : Int) :
    toOpt (Order1d.cyclesLoop x n is u r) = (is.foldlM (cstep x (2 * n)) (u, r)).map (·.2) := by
  induction is generalizing u r with
  | nil => simp [Order1d.cyclesLoop, toOpt]
  | cons i rest ih =>
    rw [Order1d.cyclesLoop, List.foldlM_cons]
    simp only [cstep]
    cases hu : u[i]? with
    | none => simp [toOpt]
    | some b =>
      cases b with
      | false => simpa using ih u r
      | true =>
        cases hx : x[i]? with
        | none => simp [toOpt]
        | some j =>
          simp only [Option.bind_some, Option.bind_eq_bind]
          cases hw : Order1d.walk x i (2 * n) j (u.set i false) with
          | ok u' => simpa [toOpt] using ih u' (r + 1)
          | err => simp [toOpt]
          | oob => simp [toOpt]
          | diverge => simp [toOpt]

/-- the model as a sequence: fancy indexing, the loop over the positions, `n - result` -/
theorem swapDistance_toOpt (p1 p2 : List Int) :
    toOpt (Order1d.swapDistance p1 p2)
      = (Order1d.composeX p1 p2).bind fun x =>
          ((List.range p1.length).foldlM (cstep x (2 * p1.length)) (List.replicate p1.length true, 0)).map
            fun s => (p1.length : Int) - s.2 := by
  unfold Order1d.swapDistance
  cases Order1d.composeX p1 p2 with
  | none => rfl
  | some x =>
    have h := cyclesLoop_toOpt x p1.length (List.range p1.length) (List.replicate p1.length true) 0
    simp only [Option.bind_some]
    cases hc : Order1d.cyclesLoop x p1.length (List.range p1.length) (List.replicate p1.length true) 0 with
    | ok r =>
      rw [hc] at h
      cases hf : List.foldlM (cstep x (2 * p1.length)) (List.replicate p1.length true, 0) (List.range p1.length) with
      | none => rw [hf] at h; simp [toOpt] at h
      | some s => rw [hf] at h; simp [toOpt] at h; simp [toOpt, h]
    | err =>
      rw [hc] at h
      cases hf : List.foldlM (cstep x (2 * p1.length)) (List.replicate p1.length true, 0) (List.range p1.length) with
      | none => simp [toOpt]
      | some s => rw [hf] at h; simp [toOpt] at h
    | oob =>
      rw [hc] at h
      cases hf : List.foldlM (cstep x (2 * p1.length)) (List.replicate p1.length true, 0) (List.range p1.length) with
      | none => simp [toOpt]
      | some s => rw [hf] at h; simp [toOpt] at h
    | diverge =>
      rw [hc] at h
      cases hf : List.foldlM (cstep x (2 * p1.length)) (List.replicate p1.length true, 0) (List.range p1.length) with
      | none => simp [toOpt]
      | some s => rw [hf] at h; simp [toOpt] at h

/-! ### the primitives of the generated code against those of the model -/

/-- the two formulations of the index rule (negative wrap) agree -/
theorem idx?_eq_wrapIdx (len : Nat) (k : Int) : LoopGen.idx? len k = Order1d.wrapIdx len k := by
  unfold LoopGen.idx? Order1d.wrapIdx
  by_cases h1 : k < 0
  · by_cases h2 : 0 ≤ k + len
    · have h3 : ¬ (0 ≤ k ∧ k < len) := by omega
      have h4 : -(len : Int) ≤ k ∧ k < 0 := by omega
      simp [h1, h2, h3, h4]
    · have h3 : ¬ (0 ≤ k ∧ k < len) := by omega
      have h4 : ¬ (-(len : Int) ≤ k ∧ k < 0) := by omega
      simp [h1, h2, h3, h4] <;> omega
  · by_cases h2 : k < len
    · have h3 : 0 ≤ k ∧ k < len := by omega
      simp [h1, h2, h3]
    · have h3 : ¬ (0 ≤ k ∧ k < len) := by omega
      have h4 : ¬ (-(len : Int) ≤ k ∧ k < 0) := by omega
      simp [h1, h2, h3, h4]

/-- `p2[np.argsort(p1)]` with the model's `argsort` is the model's `composeX` -/
theorem gather_eq_composeX (p1 p2 : List Int) :
    LoopGen.gather? p2 (argsortInt p1) = Order1d.composeX p1 p2 := by
  unfold LoopGen.gather? argsortInt Order1d.composeX
  rw [List.mapM_map]
  congr 1
  funext k
  simp [LoopGen.get1?_ofNat]

theorem getB?_ofNat (u : List Bool) (i : Nat) : LoopGen.getB? u (i : Int) = u[i]? := by
  unfold LoopGen.getB?
  rw [LoopGen.idx?_ofNat]
  by_cases h : i < u.length
  · simp [h]
  · simp [h] <;> omega

theorem setB?_ofNat (u : List Bool) (i : Nat) (v : Bool) :
    LoopGen.setB? u (i : Int) v = if i < u.length then some (u.set i v) else none := by
  unfold LoopGen.setB?
  rw [LoopGen.idx?_ofNat]
  by_cases h : i < u.length <;> simp [h]

/-! ### generated code = model -/

section
open Gen.SwapDistance

theorem get1?_eq : @get1? = @LoopGen.get1? := rfl
theorem gather?_eq : @gather? = @LoopGen.gather? := rfl
theorem onesB?_eq : @onesB? = @LoopGen.onesB? := rfl
theorem getB?_eq : @getB? = @LoopGen.getB? := rfl
theorem setB?_eq : @setB? = @LoopGen.setB? := rfl
theorem pyRange_eq : @pyRange = @LoopGen.pyRange := rfl

/-- the generated code with ANY fuel against the model's loops with the same fuel for the walk -/
theorem swap_distance_fuel (fuel : Nat) (p1 p2 : List Int) :
    swap_distance argsortInt fuel p1 p2
      = (Order1d.composeX p1 p2).bind fun x =>
          ((List.range p1.length).foldlM (cstep x fuel) (List.replicate p1.length true, 0)).map
            fun s => (p1.length : Int) - s.2 := by
  unfold swap_distance
  have hones : LoopGen.onesB? (p1.length : Int) = some (List.replicate p1.length true) := by
    unfold LoopGen.onesB?
    have : ¬ ((p1.length : Int) < 0) := by omega
    simp [this]
  simp only [get1?_eq, gather?_eq, onesB?_eq, getB?_eq, setB?_eq, pyRange_eq, gather_eq_composeX, hones,
    LoopGen.pyRange_zero_ofNat]
  cases Order1d.composeX p1 p2 with
  | none => rfl
  | some x =>
    simp only [Option.bind_some, Option.bind_eq_bind, Option.map_eq_bind]
    apply LoopGen.OptRel.eq
    refine LoopGen.OptRel.bind (R' := fun b c => c = b) ?_ ?_
    · refine LoopGen.forIn_map_rel _ _ _ _ ?_ _ _ _ rfl
      -- one position `i`
      rintro i ⟨u, r⟩ c hc
      have hc' : c = (u, r) := hc
      subst hc'
      simp only [getB?_ofNat, setB?_ofNat, LoopGen.get1?_ofNat, cstep]
      cases hu : u[i]? with
      | none => simp [StepRel]
      | some b =>
        cases b with
        | false => simp [StepRel]
        | true =>
          have hil : i < u.length := LoopGen.lt_of_getElem? hu
          simp only [Option.bind_some, if_true, hil]
          cases hx : x[i]? with
          | none => simp [StepRel]
          | some j =>
            simp only [Option.bind_some, Option.bind_eq_bind]
            -- the walk: the loop by fuel against the model's walk with the same fuel
            have hw := walk_toOpt x i (List.range fuel) j (u.set i false)
            rw [List.length_range] at hw
            rw [hw, Option.map_bind]
            refine LoopGen.StepRel.bind (R' := fun b c => c = b) ?_ ?_
            · refine LoopGen.forIn_rel_break _ _ _ ?_ _ _ _ rfl
              -- one iteration of the `while` loop
              rintro _ ⟨u', j'⟩ c hc
              have hc' : c = (u', j') := hc
              subst hc'
              refine LoopGen.StepRel2.of_eq ?_
              unfold wstep LoopGen.setB? LoopGen.get1?
              simp only [idx?_eq_wrapIdx]
              by_cases hji : j' = (i : Int)
              · simp [hji]
              · have hji' : ¬ (i : Int) = j' := fun h => hji h.symm
                simp only [hji, hji', ne_eq, not_false_eq_true, not_true_eq_false, if_false, if_true]
                cases Order1d.wrapIdx u'.length j' with
                | none => simp
                | some ju =>
                  cases Order1d.wrapIdx x.length j' with
                  | none => simp
                  | some jx => cases hxx : x[jx]? <;> simp [hxx]
            · -- after the loop: the fuel must not have run out
              rintro ⟨u', j'⟩ c hc
              have hc' : c = (u', j') := hc
              subst hc'
              by_cases hji : j' = (i : Int)
              · simp [hji, StepRel]
              · have hji' : ¬ (i : Int) = j' := fun h => hji h.symm
                simp [hji, hji', StepRel]
    · rintro b c hc
      have hc' : c = b := hc
      subst hc'
      simp [OptRel]

/-- **generated code = model at the model's own fuel `2·n`**, for ALL inputs: any two integer lists (need not be
permutations, need not have the same length).  Every failure of the model — fancy indexing or `unchecked[j]` /
`x[j]` outside its array, a walk that does not come back within `2·n` steps — is `none` on the generated side, and
conversely. -/
theorem swap_distance_eq_model (p1 p2 : List Int) :
    swap_distance argsortInt (2 * p1.length) p1 p2 = toOpt (Order1d.swapDistance p1 p2) := by
  rw [swap_distance_fuel, swapDistance_toOpt]

/-! ### more fuel -/

theorem walk_self (x : List Int) (i : Nat) (f : Nat) (u : List Bool) : Order1d.walk x i f (i : Int) u = .ok u := by
  cases f <;> rw [Order1d.walk] <;> simp

theorem walk_mono (x : List Int) (i : Nat) (k : Nat) :
    ∀ (f : Nat) (j : Int) (u u' : List Bool),
      Order1d.walk x i f j u = .ok u' → Order1d.walk x i (f + k) j u = .ok u' := by
  intro f
  induction f with
  | zero =>
    intro j u u' h
    rw [Order1d.walk] at h
    by_cases hj : j = (i : Int)
    · subst hj
      rw [walk_self]
      simpa using h
    · simp [hj] at h
  | succ f ih =>
    intro j u u' h
    rw [Order1d.walk] at h
    have e : f + 1 + k = (f + k) + 1 := by omega
    rw [e, Order1d.walk]
    by_cases hj : j = (i : Int)
    · simpa [hj] using h
    · simp only [hj, if_false] at h ⊢
      cases hu : Order1d.wrapIdx u.length j with
      | none => simp [hu] at h
      | some ju =>
        cases hxl : Order1d.wrapIdx x.length j with
        | none => simp [hu, hxl] at h
        | some jx =>
          cases hxx : x[jx]? with
          | none => simp [hu, hxl, hxx] at h
          | some j' =>
            simp only [hu, hxl, hxx] at h ⊢
            exact ih _ _ _ h

theorem cstep_mono (x : List Int) (f k : Nat) (s t : List Bool × Int) (i : Nat)
    (h : cstep x f s i = some t) : cstep x (f + k) s i = some t := by
  unfold cstep at h ⊢
  cases hu : s.1[i]? with
  | none => simp [hu] at h
  | some b =>
    cases b with
    | false => simpa [hu] using h
    | true =>
      cases hx : x[i]? with
      | none => simp [hu, hx] at h
      | some j =>
        simp only [hu, hx, Option.bind_some, Option.bind_eq_bind] at h ⊢
        cases hw : Order1d.walk x i f j (s.1.set i false) with
        | ok u' => rw [walk_mono x i k f j _ u' hw]; simpa [hw] using h
        | err => simp [hw, toOpt] at h
        | oob => simp [hw, toOpt] at h
        | diverge => simp [hw, toOpt] at h

theorem foldlM_mono {σ α : Type} (g g' : σ → α → Option σ) (hg : ∀ s a t, g s a = some t → g' s a = some t)
    (l : List α) : ∀ s t, l.foldlM g s = some t → l.foldlM g' s = some t := by
  induction l with
  | nil => intro s t h; simpa using h
  | cons a r ih =>
    intro s t h
    simp only [List.foldlM_cons] at h ⊢
    cases hs : g s a with
    | none => simp [hs] at h
    | some s' =>
      rw [hg s a s' hs]
      simp only [hs, Option.bind_some, Option.bind_eq_bind] at h ⊢
      exact ih s' t h

/-- **more fuel changes nothing when the model returns a value**: for every fuel `≥ 2·n` the generated code returns
the model's value.  (When the model answers `diverge` at `2·n`, more fuel cannot help either — the comment at
`Order1d.walk` — but that is not needed for any input the kernel is specified on and is not proved here.) -/
theorem swap_distance_fuel_ge (p1 p2 : List Int) (fuel : Nat) (hf : 2 * p1.length ≤ fuel) (v : Int)
    (h : Order1d.swapDistance p1 p2 = .ok v) : swap_distance argsortInt fuel p1 p2 = some v := by
  have h0 := swap_distance_eq_model p1 p2
  rw [h, swap_distance_fuel] at h0
  rw [swap_distance_fuel]
  obtain ⟨k, rfl⟩ : ∃ k, fuel = 2 * p1.length + k := ⟨fuel - 2 * p1.length, by omega⟩
  cases hx : Order1d.composeX p1 p2 with
  | none => simp [hx, toOpt] at h0
  | some x =>
    simp only [hx, Option.bind_some, toOpt] at h0 ⊢
    cases hfold : List.foldlM (cstep x (2 * p1.length)) (List.replicate p1.length true, 0) (List.range p1.length) with
    | none => simp [hfold] at h0
    | some s =>
      rw [foldlM_mono _ _ (fun s a t => cstep_mono x (2 * p1.length) k s t a) _ _ _ hfold]
      simpa [hfold] using h0

/-- **under the hypotheses of the model's own theorems** (both arguments permutations of `0..n-1`): the `while`
loop ends, nothing is accessed outside an array, and for every fuel `≥ 2·n` the generated code returns `n` minus
the number of cycles — the value `Order1d.swapDistance_eq_n_minus_cycles` proves for the model. -/
theorem swap_distance_perm (p1 p2 : List Nat) (n : Nat) (h1 : Order1d.IsPerm p1 n) (h2 : Order1d.IsPerm p2 n)
    (fuel : Nat) (hf : 2 * n ≤ fuel) :
    swap_distance argsortInt fuel (p1.map Int.ofNat) (p2.map Int.ofNat)
      = some ((n : Int) - (Order1d.numCycles (Order1d.sigma p1 p2) n : Nat)) := by
  have hlen : p1.length = n := by simpa using h1.length_eq
  exact swap_distance_fuel_ge _ _ fuel (by simpa [hlen] using hf) _ (Order1d.swapDistance_perm h1 h2)

/-- the generated function on concrete inputs: a 5-cycle needs 4 swaps and 4 iterations of the `while` loop
(3 are not enough: the fuel runs out); the identity needs none.  (`np_argsort` is given as the constant
answer for the first argument: the model's `argsort` is a merge sort, which `decide` does not unfold.) -/
example : swap_distance (fun _ => [0, 1, 2, 3, 4]) 10 [0, 1, 2, 3, 4] [1, 2, 3, 4, 0] = some 4 := by decide
example : swap_distance (fun _ => [0, 1, 2, 3, 4]) 4 [0, 1, 2, 3, 4] [1, 2, 3, 4, 0] = some 4 := by decide
example : swap_distance (fun _ => [0, 1, 2, 3, 4]) 3 [0, 1, 2, 3, 4] [1, 2, 3, 4, 0] = none := by decide
example : swap_distance (fun _ => [1, 2, 0, 3]) 8 [2, 0, 1, 3] [2, 0, 1, 3] = some 0 := by decide
/-- not a permutation: the walk from position 0 never comes back (the model says `diverge`) -/
example : swap_distance (fun _ => [0, 1, 2]) 6 [0, 1, 2] [1, 1, 2] = none := by decide

end

end C20Gen
