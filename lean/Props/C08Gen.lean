import Gen.PlanLength
import Model.TtpLength
import Proofs.LoopGen
/-!
# C08 (tie between source and model) — the generated `game_plan_length` equals the hand-written model

`Gen/PlanLength.lean` is regenerated on every run from the current source of `moptipyapps/ttp/plan_length.py`
(`harness/translate/loop2lean.py`): a shallow embedding of the Python text in the `Option` monad.  The theorem below
says that this text computes exactly what `TtpLength.planLength?` (the model all C08 theorems are about) computes,
for ALL inputs, including the ones on which the model answers `none` (= an access outside an array).
A semantic change of the kernel changes the generated definition and this file stops checking.
-/
-- the proofs are re-checked against regenerated text: simp sets are deliberately a superset of what one variant needs
set_option linter.unusedSimpArgs false

namespace C08Gen
open Gen.PlanLength TtpLength
open LoopGen (OptRel StepRel forIn_map_rel get2?_ofNat)

/-- the prelude copy inside the generated file is the reference copy of `Proofs/LoopGen.lean` -/
theorem get2?_eq : @get2? = @LoopGen.get2? := rfl
theorem pyRange_eq : @pyRange = @LoopGen.pyRange := rfl

/-! ### the hand-written loops as folds (statements about the model only) -/

/-- one day of one team in the model; the state is `(length, current_location)` -/
def dayStep (y : Plan) (d : Tsp.Matrix) (pen : Int) (team : Nat) (st : Int × Nat) (day : Nat) :
    Option (Int × Nat) :=
  match Tsp.entry? y day team with
  | none => none
  | some v =>
    match nextLoc? team v with
    | none => some (st.1 + pen, st.2)
    | some nxt =>
      if st.2 = nxt then some st
      else match Tsp.entry? d st.2 nxt with
        | none => none
        | some x => some (st.1 + x, nxt)

theorem dayLoop?_eq_foldlM (y : Plan) (d : Tsp.Matrix) (pen : Int) (team : Nat) (days : List Nat) (len : Int)
    (cur : Nat) : dayLoop? y d pen team days len cur = days.foldlM (dayStep y d pen team) (len, cur) := by
  induction days generalizing len cur with
  | nil => rfl
  | cons day r ih =>
    simp only [dayLoop?, List.foldlM_cons, dayStep]
    cases Tsp.entry? y day team with
    | none => rfl
    | some v =>
      simp only []
      cases nextLoc? team v with
      | none => exact ih _ _
      | some nxt =>
        simp only []
        by_cases h : cur = nxt
        · simp only [h, if_true]; exact ih _ _
        · simp only [h, if_false]
          cases Tsp.entry? d cur nxt with
          | none => rfl
          | some x => exact ih _ _

/-- the body of the team loop: the day loop, then the leg back home -/
theorem teamWalk?_eq_bind (y : Plan) (d : Tsp.Matrix) (pen : Int) (days team : Nat) (len : Int) :
    teamWalk? y d pen days team len
      = (dayLoop? y d pen team (List.range days) len team).bind fun r =>
          if r.2 ≠ team then (Tsp.entry? d r.2 team).bind fun x => some (r.1 + x) else some r.1 := by
  unfold teamWalk?
  cases dayLoop? y d pen team (List.range days) len team with
  | none => rfl
  | some r =>
    obtain ⟨len', cur⟩ := r
    by_cases h : cur = team
    · simp [h]
    · simp only [ne_eq, h, not_false_eq_true, if_true, Option.bind_some]
      cases Tsp.entry? d cur team <;> rfl

theorem teamsLoop?_eq_foldlM (y : Plan) (d : Tsp.Matrix) (pen : Int) (days : Nat) (teams : List Nat) (len : Int) :
    teamsLoop? y d pen days teams len = teams.foldlM (fun len team => teamWalk? y d pen days team len) len := by
  induction teams generalizing len with
  | nil => rfl
  | cons team r ih =>
    simp only [teamsLoop?, List.foldlM_cons]
    cases teamWalk? y d pen days team len with
    | none => rfl
    | some l => exact ih _

/-! ### generated code = model -/

/-- the loop state of the generated code `(length, current_location : Int)` against the model's
`(length, current_location : Nat)`: the location is never negative -/
def StateRel (b : Int × Int) (c : Int × Nat) : Prop := b.1 = c.1 ∧ b.2 = (c.2 : Int)

/-- **generated code = model**, for every plan `y` (list of rows, any shape, any entries), every number of teams,
every distance matrix and every penalty.  `y.shape` is a parameter of the generated code (a list of rows does not
know its width when it has no rows): it is instantiated with `(number of rows, teams)`, where `teams` is the
model's explicit parameter.  No well-formedness hypothesis: plans that are too narrow, opponents outside the
distance matrix … make both sides answer `none` on exactly the same inputs. -/
theorem game_plan_length_eq_model (y : Plan) (teams : Nat) (d : Tsp.Matrix) (pen : Int) :
    game_plan_length y ((y.length : Int), (teams : Int)) d pen = planLength? y teams d pen := by
  unfold game_plan_length planLength?
  simp only [get2?_eq, pyRange_eq, LoopGen.pyRange_zero_ofNat, bind_pure, teamsLoop?_eq_foldlM]
  have toEq : ∀ {o o' : Option Int}, OptRel (fun b c => c = id b) o o' → o = o' := fun h => by
    simpa using LoopGen.OptRel.map_eq h
  apply toEq
  refine forIn_map_rel _ _ _ _ ?_ _ _ _ rfl
  -- one execution of the body of the team loop
  intro team len c hc
  have hc' : c = len := hc
  subst hc'
  clear hc
  simp only [id, teamWalk?_eq_bind]
  refine LoopGen.StepRel.bind (R' := StateRel) ?_ ?_
  · -- the day loop
    rw [dayLoop?_eq_foldlM]
    refine forIn_map_rel StateRel _ _ _ ?_ _ (c, (team : Int)) (c, team) ⟨rfl, rfl⟩
    -- one execution of the body of the day loop
    rintro day ⟨l, cur⟩ ⟨l', cur'⟩ ⟨h1, h2⟩
    simp only at h1 h2
    subst h1 h2
    simp only [get2?_ofNat, dayStep, nextLoc?, Tsp.entry?]
    cases (y[day]?).bind (·[team]?) with
    | none => simp [StepRel]
    | some v =>
      simp only [Option.bind_eq_bind, Option.bind_some]
      rcases Int.lt_trichotomy v 0 with hv | hv | hv
      · -- away game: the opponent's town `(-v) - 1` is a natural number
        obtain ⟨k, hk⟩ : ∃ k : Nat, -v - 1 = (k : Int) := ⟨(-v - 1).toNat, by omega⟩
        simp only [hv, if_true, hk, Int.toNat_natCast, get2?_ofNat, Int.natCast_inj]
        by_cases hc : cur' = k
        · simp [hc, StepRel, StateRel]
        · cases (d[cur']?.bind fun x => x[k]?) <;> simp [hc, StepRel, StateRel, Int.natCast_inj]
      · -- bye
        subst hv; simp [StepRel, StateRel]
      · -- home game
        have hn : ¬ v < 0 := by omega
        simp only [hn, hv, if_true, if_false, Int.natCast_inj]
        by_cases hc : cur' = team
        · simp [hc, StepRel, StateRel]
        · cases (d[cur']?.bind fun x => x[team]?) <;> simp [hc, StepRel, StateRel, Int.natCast_inj]
  · -- the leg back home
    rintro ⟨l, cur⟩ ⟨l', cur'⟩ ⟨h1, h2⟩
    simp only at h1 h2
    subst h1 h2
    simp only [get2?_ofNat, Tsp.entry?, ne_eq, Int.natCast_inj]
    by_cases hc : cur' = team
    · simp [hc, StepRel]
    · cases (d[cur']?.bind fun x => x[team]?) <;> simp [hc, StepRel, Int.natCast_inj]

/-- the generated function on the example of the kernel's docstring (4 teams, 6 days): 30 + 38 + 31 + 46 -/
example : game_plan_length
    [[2, -1, 4, -3], [-2, 1, -4, 3], [3, 4, -1, -2], [-3, -4, 1, 2], [4, 3, -2, -1], [-4, -3, 2, 1]] (6, 4)
    [[0, 1, 2, 3], [7, 0, 4, 5], [8, 10, 0, 6], [9, 11, 12, 0]] 0 = some 145 := by decide
/-- the same plan with a bye for team 1 on day 2 and penalty `2 * 12 + 1` -/
example : game_plan_length
    [[2, -1, 4, -3], [0, 1, -4, 3], [3, 4, -1, -2], [-3, -4, 1, 2], [4, 3, -2, -1], [-4, -3, 2, 1]] (6, 4)
    [[0, 1, 2, 3], [7, 0, 4, 5], [8, 10, 0, 6], [9, 11, 12, 0]] 25 = some 162 := by decide
/-- an opponent outside the distance matrix -/
example : game_plan_length [[-3, 1]] (1, 2) [[0, 1], [1, 0]] 0 = none := by decide

end C08Gen
