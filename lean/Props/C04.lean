import Proofs.PackVal
/-!
# C04 — packing validation accepts exactly the feasible packings; text round trip

Property theorems only (helper lemmas live in `Proofs/PackVal.lean`).  The model
(`Model/PackVal.lean`) mirrors `PackingSpace.validate / to_str / from_str` as they are after the
two `fix:` commits (size clause with `or`, bin size limit 10^12); the specification is
`Pack.Feasible` (`Model/Pack.lean`), written from the property text.
-/
namespace PackVal
open Base Pack ListLemmas

/-- **Validation succeeds iff the packing is feasible for the instance** — both directions, every
instance the constructor accepts, every packing object (any dtype tag, any list of rows of any
lengths, any `n_bins`): the packing belongs to the instance, has its integer type and the shape
`(n_items, 6)`, and is `Feasible`: every id valid with that item's dimensions in one of the two
orientations, inside the bin, each id with its prescribed multiplicity, no two rectangles of one
bin overlapping, bins numbered `1..n_bins` without gaps. -/
theorem validate_ok_iff (I : Inst) (hV : I.Valid) (P : Packing) :
    validate I P = .ok () ↔
      (P.ownInst = true ∧ I.dtype? = some P.dtype ∧ P.HasShape I.nItems ∧
        Feasible I P.rowsR P.nBins) := by
  rw [validate_ok_parts]
  constructor
  · rintro ⟨h1, h2, h3, _, h5⟩
    have hlen : (P.rowsR.length : Int) = I.nItems := by rw [rowsR_length P h3.2]; exact h3.1
    exact ⟨h1, h2, h3, (checks_iff_feasible I hV P.rowsR P.nBins hlen).mp h5⟩
  · rintro ⟨h1, h2, h3, h4⟩
    have hlen : (P.rowsR.length : Int) = I.nItems := by rw [rowsR_length P h3.2]; exact h3.1
    exact ⟨h1, h2, h3, ⟨hV.1, hV.2.1, hV.2.2.1, hV.2.2.2.1⟩,
      (checks_iff_feasible I hV P.rowsR P.nBins hlen).mpr h4⟩

/-- the `acc=` token of the driver (`acceptsB I P`, the guarded Boolean form of `Accepts`, i.e. of the
right-hand side above) is true exactly when the validator model accepts -/
theorem accepts_iff_validate (I : Inst) (hV : I.Valid) (P : Packing) :
    acceptsB I P = true ↔ validate I P = .ok () :=
  (acceptsB_iff I P).trans (validate_ok_iff I hV P).symm

/-- every instance the constructor accepts has a storage type: `create()` yields a packing and
the "integer type" clause of the property can be met (the `dtype` branch of `fromStr` is dead). -/
theorem dtype_exists (I : Inst) (hV : I.Valid) : ∃ t, I.dtype? = some t := dtype?_isSome' I hV

/-- **Checking only the ids that occur suffices** (the `Counter` holds no entry for an id that
never occurs): with valid ids, `n_items = Σ rep` rows and every repetition ≥ 1, "each occurring
id occurs as often as prescribed" already gives "every id `1..n_types` has its prescribed
count". -/
theorem mult_check_suffices (I : Inst) (rows : List Row)
    (hrep : ∀ it ∈ I.items, 1 ≤ it.rep) (hlen : (rows.length : Int) = I.nItems)
    (hid : ∀ a ∈ rows, 1 ≤ a.id ∧ a.id ≤ (I.nTypes : Int))
    (hocc : ∀ a ∈ rows, ∃ it, I.item? a.id = some it ∧ it.rep = (count rows a.id : Int)) :
    ∀ i ∈ List.range I.nTypes,
      ((rows.filter (fun a => a.id = (i : Int) + 1)).length : Int) = (I.items.getD i default).rep :=
  mult_check_suffices' I rows hrep hlen hid hocc

/-- **`min(bins) = 1 ∧ max(bins) − min(bins) + 1 = len(bins)`  ⇔  `bins = {1..len(bins)}`**
for every finite set of integers (a duplicate-free list) with minimum `mn` and maximum `mx`. -/
theorem bins_contiguous_iff (s : List Int) (hn : s.Nodup) (mn mx : Int)
    (hmin : s.min? = some mn) (hmax : s.max? = some mx) :
    (mn = 1 ∧ mx - mn + 1 = (s.length : Int)) ↔ ∀ v : Int, v ∈ s ↔ 1 ≤ v ∧ v ≤ (s.length : Int) :=
  bins_contiguous_iff' s hn mn mx hmin hmax

/-- **The inner loop** (for every row `i`: no other row `j ≠ i` of the same bin intersects it)
is pairwise non-overlap inside each bin. -/
theorem overlap_loop_iff_pairwise (all : List Row) :
    (∀ i (h : i < all.length), firstOverlap all i all[i] = none) ↔
      all.Pairwise (fun a c => a.bin = c.bin → a.Disjoint c) :=
  overlap_loop_iff_pairwise' all

/-- the validator never reads outside the instance matrix (`inst[item_id - 1, …]` comes after the
id range check; the multiplicity loop only sees ids that passed it) — for *every* input. -/
theorem validate_no_oob (I : Inst) (P : Packing) : validate I P ≠ .error .oob :=
  validate_no_oob' I P

/-- the text form is the `;`-separated list of the decimal values, row by row: the strict
tokenizer reads back exactly the flattened matrix (character level, via `Int.toInt?_repr`). -/
theorem toStr_tokens (P : Packing) (h : P.flat ≠ []) :
    splitSemi (toStr P).toList = P.flat.map (fun v => v.repr.toList) ∧
      parseInts (toStr P) = some P.flat := by
  refine ⟨?_, parseInts_toStr P h⟩
  unfold toStr
  rw [String.toList_ofList]
  exact splitSemi_joinSemi _ (by simpa using h)
    (fun t ht => by obtain ⟨v, _, rfl⟩ := List.mem_map.mp ht; exact repr_no_semi v)

/-- **Parsing the text form of a valid packing yields a packing equal to the original**
(instance, dtype, all rows, `n_bins` reconstructed as the maximum bin id) — no assumption on
the instance. -/
theorem fromStr_toStr (I : Inst) (P : Packing) (h : validate I P = .ok ()) :
    fromStr I (toStr P) = .ok P := fromStr_toStr' I P h

/-- **`from_str` subjects whatever it parsed to the same validation**: a packing it returns —
from *any* text — passed `validate`, hence is feasible for the instance. -/
theorem fromStr_validates (I : Inst) (hV : I.Valid) (s : String) (Q : Packing)
    (h : fromStr I s = .ok Q) :
    validate I Q = .ok () ∧ Q.HasShape I.nItems ∧ I.dtype? = some Q.dtype ∧
      Feasible I Q.rowsR Q.nBins := by
  have hv := fromStr_validates' I s Q h
  have := (validate_ok_iff I hV Q).mp hv
  exact ⟨hv, this.2.2.1, this.2.1, this.2.2.2⟩

/-! ### non-vacuity and the two repaired defects as concrete evaluations -/

instance : DecidableEq (Except Err Unit) := fun a b =>
  match a, b with
  | .ok _, .ok _ => isTrue rfl
  | .error e, .error f =>
    if h : e = f then isTrue (h ▸ rfl) else isFalse (fun h' => by cases h'; exact h rfl)
  | .ok _, .error _ => isFalse (fun h => by cases h)
  | .error _, .ok _ => isFalse (fun h => by cases h)

def exI : Inst := ⟨10, 10, [⟨10, 5, 2⟩, ⟨3, 3, 1⟩]⟩
def exP : Packing := ⟨true, .int8, [[1, 2, 0, 0, 5, 10], [2, 1, 0, 5, 3, 8], [1, 1, 0, 0, 10, 5]], 2⟩

example : exI.Valid := by decide
example : exI.dtype? = some .int8 := by decide
example : validate exI exP = .ok () := by decide
example : Feasible exI exP.rowsR exP.nBins := by decide
example : fromStr exI (toStr exP) = .ok exP := fromStr_toStr exI exP (by decide)
example : toStr exP = "1;2;0;0;5;10;2;1;0;5;3;8;1;1;0;0;10;5" := by decide
/-- 5×7 for a 10×5 item: one side equals the *other* side of the item — rejected by the size
clause as it is now (accepted before `fix:` 2f230dc) -/
example : validate ⟨20, 20, [⟨10, 5, 1⟩]⟩ ⟨true, .int8, [[1, 1, 0, 0, 5, 7]], 1⟩ = .error (.dims 0) := by
  decide
/-- a bin wider than 10^9 (the constructor allows 10^12): accepted (rejected before `fix:` 087758c) -/
example : validate ⟨3000000000, 5, [⟨7, 5, 1⟩]⟩ ⟨true, .int64, [[1, 1, 2999999993, 0, 3000000000, 5]], 1⟩
    = .ok () := by decide
/-- an id that never occurs is still noticed: ids `2,2` for items `(3×3,1),(3×3,1)` -/
example : validate ⟨9, 3, [⟨3, 3, 1⟩, ⟨3, 3, 1⟩]⟩ ⟨true, .int8, [[2, 1, 0, 0, 3, 3], [2, 1, 3, 0, 6, 3]], 1⟩
    = .error (.mult 2) := by decide

end PackVal
