import Gen.MapGames
import Model.GameEnc
import Proofs.LoopGen
/-!
# C15 (tie between source and model) — the generated `map_games` equals the hand-written model

`Gen/MapGames.lean` is regenerated on every run from the current source of `moptipyapps/ttp/game_encoding.py`
(`harness/translate/loop2lean.py`): a shallow embedding of the Python text in the `Option` monad; the destination
array `y` is a mutable variable whose prior content is an input, the result is its final content.  The theorem
below says that this text computes exactly what `GameEnc.mapGames` (the model all C15 theorems about the decoder
are about) computes, for ALL inputs.  The hand-written model distinguishes two kinds of failure
(`Err.oob`, `Err.zdiv`); the generated code has one (`none`), so the model's answer is compared through
`Except.toOption`.
A semantic change of the kernel changes the generated definition and this file stops checking.
-/
-- the proofs are re-checked against regenerated text: simp sets are deliberately a superset of what one variant needs
set_option linter.unusedSimpArgs false

namespace C15Gen
open Gen.MapGames
open GameEnc (Plan Err)
open LoopGen (OptRel StepRel StepRel2 forIn_rel forIn_map_rel_break)

/-- the prelude copy inside the generated file is the reference copy of `Proofs/LoopGen.lean` -/
theorem get2?_eq : @get2? = @LoopGen.get2? := rfl
theorem set2?_eq : @set2? = @LoopGen.set2? := rfl
theorem fill2_eq : @fill2 = @LoopGen.fill2 := rfl
theorem pyFloorDiv_eq : @pyFloorDiv = @LoopGen.pyFloorDiv := rfl
theorem pyMod_eq : @Gen.MapGames.pyMod = @LoopGen.pyMod := rfl
theorem pyRange_eq : @pyRange = @LoopGen.pyRange := rfl

/-! ### the primitives of the generated code against those of the model -/

theorem pyFloorDiv_toOption (a b : Int) : LoopGen.pyFloorDiv a b = (GameEnc.floorDiv a b).toOption := by
  unfold LoopGen.pyFloorDiv GameEnc.floorDiv; split <;> rfl

theorem pyMod_toOption (a b : Int) : LoopGen.pyMod a b = (GameEnc.pyMod a b).toOption := by
  unfold LoopGen.pyMod GameEnc.pyMod; split <;> rfl

theorem idx?_nonneg (len : Nat) (t : Int) (ht : 0 ≤ t) :
    LoopGen.idx? len t = if t.toNat < len then some t.toNat else none := by
  unfold LoopGen.idx?
  have h1 : ¬ t < 0 := by omega
  simp only [h1, if_false]
  by_cases h2 : t < len
  · have : t.toNat < len := by omega
    simp [h2, this]
  · have : ¬ t.toNat < len := by omega
    simp [h2, this]

/-- a read with a non-negative column value (the model calls a negative column `oob`, the generated code would
wrap it: the two agree because the kernel never produces one) -/
theorem get2?_nonneg (y : Plan) (d : Nat) (t : Int) (ht : 0 ≤ t) :
    LoopGen.get2? y d t = (GameEnc.get y d t).toOption := by
  unfold LoopGen.get2? GameEnc.get
  have h1 : ¬ t < 0 := by omega
  simp only [LoopGen.idx?_ofNat, h1, if_false]
  by_cases hd : d < y.length
  · simp only [hd, if_true, Option.bind_some, List.getElem?_eq_getElem hd, idx?_nonneg _ _ ht]
    by_cases hc : t.toNat < y[d].length
    · simp [hc, Except.toOption]
    · simp [hc, Except.toOption]
  · simp [hd, Except.toOption]

theorem set2?_nonneg (y : Plan) (d : Nat) (t : Int) (v : Int) (ht : 0 ≤ t) :
    LoopGen.set2? y d t v = (GameEnc.set y d t v).toOption := by
  unfold LoopGen.set2? GameEnc.set
  have h1 : ¬ t < 0 := by omega
  simp only [LoopGen.idx?_ofNat, h1, if_false]
  by_cases hd : d < y.length
  · simp only [hd, if_true, Option.bind_some, List.getElem?_eq_getElem hd, idx?_nonneg _ _ ht]
    by_cases hc : t.toNat < y[d].length
    · simp [hc, Except.toOption]
    · simp [hc, Except.toOption]
  · simp [hd, Except.toOption]

/-! ### the hand-written loops as loops (statements about the model only) -/

/-- one day of the model's placement loop; `done` = the game was placed (`break`) -/
def placeStep (h a : Int) (day : Nat) (y : Plan) : Option (ForInStep Plan) :=
  (GameEnc.get y day h).toOption.bind fun vh =>
    if vh ≠ 0 then some (.yield y) else
    (GameEnc.get y day a).toOption.bind fun va =>
      if va ≠ 0 then some (.yield y) else
      (GameEnc.set y day h (a + 1)).toOption.bind fun y1 => ((GameEnc.set y1 day a (-(h + 1))).toOption).map .done

theorem placeGame_toOption (h a : Int) (k day : Nat) (y : Plan) :
    (GameEnc.placeGame h a k day y).toOption = forIn (List.range' day k) y (placeStep h a) := by
  induction k generalizing day y with
  | zero => simp [GameEnc.placeGame, Except.toOption]
  | succ k ih =>
    simp only [List.range'_succ, List.forIn_cons, GameEnc.placeGame, placeStep]
    cases h1 : GameEnc.get y day h with
    | error e => simp [Except.toOption, bind, Except.bind]
    | ok vh =>
      by_cases hv : vh = 0
      · subst hv
        cases h2 : GameEnc.get y day a with
        | error e => simp [Except.toOption, bind, Except.bind]
        | ok va =>
          by_cases hw : va = 0
          · subst hw
            cases h3 : GameEnc.set y day h (a + 1) with
            | error e => simp [Except.toOption, bind, Except.bind]
            | ok y1 =>
              cases h4 : GameEnc.set y1 day a (-(h + 1)) with
              | error e => simp [Except.toOption, bind, Except.bind, h4]
              | ok y2 => simp [Except.toOption, bind, Except.bind, h4]
          · simpa [Except.toOption, bind, Except.bind, hw] using ih (day + 1) y
      · simpa [Except.toOption, bind, Except.bind, hv] using ih (day + 1) y

/-- one game of the model's outer loop -/
def gameStep (days : Nat) (n : Int) (y : Plan) (game : Int) : Option Plan :=
  (GameEnc.floorDiv game (n - 1)).toOption.bind fun q =>
    (GameEnc.pyMod q n).toOption.bind fun h =>
      (GameEnc.pyMod game (n - 1)).toOption.bind fun a =>
        forIn (List.range' 0 days) y (placeStep h (if a ≥ h then a + 1 else a))

theorem gameLoop_toOption (days : Nat) (n : Int) (xs : List Int) (y : Plan) :
    (GameEnc.gameLoop days n xs y).toOption = xs.foldlM (gameStep days n) y := by
  induction xs generalizing y with
  | nil => simp [GameEnc.gameLoop, Except.toOption]
  | cons game r ih =>
    simp only [GameEnc.gameLoop, List.foldlM_cons, gameStep, ← placeGame_toOption]
    cases h1 : GameEnc.floorDiv game (n - 1) with
    | error e => simp [Except.toOption, bind, Except.bind]
    | ok q =>
      cases h2 : GameEnc.pyMod q n with
      | error e => simp [Except.toOption, bind, Except.bind, h2]
      | ok h =>
        cases h3 : GameEnc.pyMod game (n - 1) with
        | error e => simp [Except.toOption, bind, Except.bind, h2, h3]
        | ok a =>
          have hge : (a ≥ h) = (h ≤ a) := rfl
          cases h4 : GameEnc.placeGame h (if h ≤ a then a + 1 else a) days 0 y with
          | error e => simp [Except.toOption, bind, Except.bind, h2, h3, h4]
          | ok y1 => simpa [Except.toOption, bind, Except.bind, h2, h3, h4] using ih y1

/-! ### generated code = model -/

/-- **generated code = model**, for every permutation array `x` (any integers), every shape `(days, n)` and every
prior content `y0` of the destination (any list of rows, ragged or of the wrong shape included).  `y.shape` is a
parameter of the generated code, instantiated with the model's `(days, n)`.  The result is the final content of
`y`; both sides fail on exactly the same inputs (`n ≤ 1`: division by zero; a destination that is smaller than
its declared shape: access outside the array).  No well-formedness hypothesis. -/
theorem map_games_eq_model (x : List Int) (days n : Nat) (y0 : Plan) :
    map_games x y0 ((days : Int), (n : Int)) = (GameEnc.mapGames x days n y0).toOption := by
  unfold map_games GameEnc.mapGames
  simp only [get2?_eq, set2?_eq, fill2_eq, pyFloorDiv_eq, pyMod_eq, pyRange_eq, LoopGen.pyRange_zero_ofNat, bind_pure,
    gameLoop_toOption]
  have toEq : ∀ {o o' : Option Plan}, OptRel (fun b c => c = id b) o o' → o = o' := fun h => by
    simpa using LoopGen.OptRel.map_eq h
  apply toEq
  refine forIn_rel _ _ _ ?_ _ _ _ (show GameEnc.fill0 y0 = id (LoopGen.fill2 y0 0) from rfl)
  -- one game
  intro game y c hc
  have hc' : c = y := hc
  subst hc'
  clear hc
  simp only [pyFloorDiv_toOption, pyMod_toOption, gameStep, id]
  cases h1 : GameEnc.floorDiv game ((n : Int) - 1) with
  | error e => simp [Except.toOption, StepRel, h1]
  | ok q =>
    cases h2 : GameEnc.pyMod q (n : Int) with
    | error e => simp [Except.toOption, StepRel, h1, h2]
    | ok h =>
      cases h3 : GameEnc.pyMod game ((n : Int) - 1) with
      | error e => simp [Except.toOption, StepRel, h1, h2, h3]
      | ok a =>
        -- all divisions are defined: `n ≥ 2`, so both team indices are non-negative
        have hn1 : (n : Int) - 1 ≠ 0 := by
          intro h0; unfold GameEnc.floorDiv at h1; rw [if_pos h0] at h1; cases h1
        have hn0 : (n : Int) ≠ 0 := by
          intro h0; unfold GameEnc.pyMod at h2; rw [if_pos h0] at h2; cases h2
        have hh : h = q.fmod n := by
          unfold GameEnc.pyMod at h2; rw [if_neg hn0] at h2; exact (Except.ok.inj h2).symm
        have ha : a = game.fmod ((n : Int) - 1) := by
          unfold GameEnc.pyMod at h3; rw [if_neg hn1] at h3; exact (Except.ok.inj h3).symm
        have hh0 : 0 ≤ h := hh ▸ Int.fmod_nonneg_of_pos q (by omega)
        have ha0 : 0 ≤ a := ha ▸ Int.fmod_nonneg_of_pos game (by omega)
        have ha1 : 0 ≤ a + 1 := by omega
        simp only [h1, h2, h3, List.range_eq_range', Except.toOption, Option.bind_eq_bind, Option.bind_some]
        -- `if away_idx >= home_idx: away_idx += 1`, then the placement loop (with `break`)
        by_cases hah : a ≥ h <;> simp only [hah, if_true, if_false] <;>
          refine LoopGen.StepRel.bind_yield (forIn_map_rel_break (fun b c => c = b) _ _ _ ?_ _ c c rfl) <;>
          -- one day of the placement loop
          (intro day y y' hy
           have hy' : y' = y := hy
           subst hy'
           simp only [get2?_nonneg _ _ _ hh0, get2?_nonneg _ _ _ ha0, get2?_nonneg _ _ _ ha1,
             set2?_nonneg _ _ _ _ hh0, set2?_nonneg _ _ _ _ ha0, set2?_nonneg _ _ _ _ ha1, placeStep]
           refine LoopGen.StepRel2.of_eq ?_
           simp [Option.map_eq_bind, Function.comp_def])

/-- the generated function on the 4-team, 2-round example of the kernel's docstring (the blueprint permutation
`0..23`), started on a destination full of stale values -/
example : map_games (List.range 24 |>.map Int.ofNat) (List.replicate 6 [9, 9, 9, 9]) (6, 4)
    = some [[2, -1, 4, -3], [3, 4, -1, -2], [4, 3, -2, -1], [-2, 1, -4, 3], [-3, -4, 1, 2], [-4, -3, 2, 1]] := by
  decide
/-- a game that finds no free day is dropped -/
example : map_games [0, 0, 1] [[7, 7]] (1, 2) = some [[2, -1]] := by decide
/-- one team: `div = 0`, the first game divides by zero; no game: the plan is only zeroed -/
example : map_games [0] [[5]] (1, 1) = none := by decide
example : map_games [] [[5]] (1, 1) = some [[0]] := by decide
/-- a destination with fewer rows than its declared shape -/
example : map_games [0] [] (1, 2) = none := by decide

end C15Gen
