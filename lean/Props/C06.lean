import Proofs.TspEa
import Props.C05
/-!
# C06 — the TSP-specific (1+1) EA and (1+1) FEA report true tour lengths

Property theorems only (helper lemmas: `Proofs/TspEa.lean`; the tour-length facts of C05 are
reused).  `cyclicSum` is the documented tour length (C05), `IsPerm x n` = "`x` is a permutation
of the cities `0..n-1`", `TrueReg d n x y` = `IsPerm x n ∧ y = cyclicSum d x`.
The random stream is universally quantified: the start tour `x0` (result of `shuffle`) and the
list `moves` of drawn index pairs (`MovesInRange` = what `integers(n-1)` can return).
-/
namespace TspEa
open Tsp ListLemmas

/-! ## the reversal move -/

/-- the in-place slice assignment of the kernels (both forms, `i = 0` and `i > 0`) is exactly
the reversal of the segment between positions `i` and `j`: new[k] = old[i+j-k] inside, old[k] outside -/
theorem rev_is_segment_reversal (x : List Nat) (i j : Nat) (hij : i ≤ j) (hj : j < x.length) :
    applyRev x i j = revSpec x i j := applyRev_eq_revSpec x i j hij hj

/-- **rev_perm**: a reversal move maps permutations of the cities to permutations of the cities
(for every index pair whatsoever) -/
theorem rev_perm (x : List Nat) (n i j : Nat) (hp : IsPerm x n) : IsPerm (applyRev x i j) n :=
  applyRev_isPerm i j hp

/-- **delta_correct**: on a symmetric matrix, for a permutation `x` and indices `i < j < n` other than
the whole array `(0, n-1)`, the O(1) delta the kernels compute — from `x[i-1]` (which wraps to `x[n-1]`
for `i = 0`), `x[i]`, `x[j]`, `x[(j+1) % n]` — is exactly the change of the tour length caused by
reversing the segment.  (The `solve` loops only produce `j ≤ n-2`; the theorem also covers `j = n-1`, `i > 0`.) -/
theorem delta_correct (d : Matrix) (n : Nat) (x : List Nat) (i j : Nat) (dy : Int)
    (hsym : Symmetric d n) (hp : IsPerm x n) (hij : i < j) (hj : j < n) (hne : ¬(i = 0 ∧ j + 1 = n))
    (h : delta? i j n d x = some dy) :
    cyclicSum d (revSpec x i j) = cyclicSum d x + dy ∧
    tourLen d (applyRev x i j) = tourLen d x + dy := by
  have hl := isPerm_length hp
  have hc := delta_correct' hsym hp hij hj hne h
  have hx : x ≠ [] := by intro e; subst e; simp at hl; omega
  have hx' : applyRev x i j ≠ [] := by
    intro e
    have := (applyRev_perm x i j).length_eq
    rw [e] at this; simp at this; exact hx (List.eq_nil_of_length_eq_zero this.symm)
  refine ⟨?_, ?_⟩
  · rw [← rev_is_segment_reversal x i j (by omega) (by omega)]; exact hc
  · rw [tourLen_eq_cyclicSum d _ hx', tourLen_eq_cyclicSum d _ hx]; exact hc

/-- the EA kernel applies the move exactly when the reversed tour is not longer, and returns the
true length of the tour it leaves in `x` -/
theorem rev_if_not_worse_spec (d : Matrix) (n : Nat) (x : List Nat) (y : Int) (i j : Nat) (x' : List Nat) (y' : Int)
    (hsym : Symmetric d n) (hp : IsPerm x n) (hij : i < j) (hj : j < n) (hne : ¬(i = 0 ∧ j + 1 = n))
    (hy : y = cyclicSum d x) (h : revIfNotWorse? i j n d x y = some (x', y')) :
    TrueReg d n x' y' ∧
    ((cyclicSum d (revSpec x i j) ≤ cyclicSum d x ∧ x' = revSpec x i j) ∨
     (cyclicSum d x < cyclicSum d (revSpec x i j) ∧ x' = x)) := by
  obtain ⟨h1, h2, _⟩ := ea_step hsym hp hij hj hne hy h
  refine ⟨⟨h1, h2⟩, ?_⟩
  unfold revIfNotWorse? at h
  cases hd : delta? i j n d x with
  | none => simp [hd] at h
  | some dy =>
    have hc := (delta_correct d n x i j dy hsym hp hij hj hne hd).1
    have hr := rev_is_segment_reversal x i j (by omega) (by rw [isPerm_length hp]; omega)
    simp only [hd, Option.bind_eq_bind, Option.bind_some] at h
    split at h <;> simp only [Option.pure_def, Option.some.injEq, Prod.mk.injEq] at h <;> obtain ⟨rfl, _⟩ := h
    · exact Or.inl ⟨by omega, hr⟩
    · exact Or.inr ⟨by omega, rfl⟩

/-! ## the EA -/

/-- **ea_registers_truth**: for every symmetric matrix, every start permutation and every sequence of
drawn index pairs, every pair `(x, y)` the EA hands to `process.register` is a permutation of the
cities together with its exact tour length -/
theorem ea_registers_truth (d : Matrix) (n : Nat) (x0 : List Nat) (moves : List (Nat × Nat))
    (tr : List (List Nat × Int)) (hsym : Symmetric d n) (hp : IsPerm x0 n) (hm : MovesInRange n moves)
    (h : eaSolve? n d x0 moves = some tr) : ∀ r ∈ tr, TrueReg d n r.1 r.2 := by
  unfold eaSolve? at h
  simp only [Option.bind_eq_bind, Option.bind_eq_some_iff] at h
  obtain ⟨y0, hy0, hl⟩ := h
  have hx : x0 ≠ [] := by intro e; subst e; simp [tourLen?] at hy0
  have hy : y0 = cyclicSum d x0 := by rw [tourLen?_some hy0, tourLen_eq_cyclicSum d x0 hx]
  exact (eaLoop_inv d n hsym moves x0 y0 tr hm hp hy hl).1

/-- **ea_monotone**: the EA never replaces its current tour by a longer one: the true tour lengths of
the start tour and of the successively registered tours never increase (any later one ≤ any earlier one) -/
theorem ea_monotone (d : Matrix) (n : Nat) (x0 : List Nat) (moves : List (Nat × Nat))
    (tr : List (List Nat × Int)) (hsym : Symmetric d n) (hp : IsPerm x0 n) (hm : MovesInRange n moves)
    (h : eaSolve? n d x0 moves = some tr) :
    List.Pairwise (fun a b => b ≤ a) (cyclicSum d x0 :: tr.map (fun r => cyclicSum d r.1)) := by
  have htruth := ea_registers_truth d n x0 moves tr hsym hp hm h
  unfold eaSolve? at h
  simp only [Option.bind_eq_bind, Option.bind_eq_some_iff] at h
  obtain ⟨y0, hy0, hl⟩ := h
  have hx : x0 ≠ [] := by intro e; subst e; simp [tourLen?] at hy0
  have hy : y0 = cyclicSum d x0 := by rw [tourLen?_some hy0, tourLen_eq_cyclicSum d x0 hx]
  have := (eaLoop_inv d n hsym moves x0 y0 tr hm hp hy hl).2
  have e : tr.map (fun r => cyclicSum d r.1) = tr.map (·.2) := by
    apply List.map_congr_left
    intro r hr; exact (htruth r hr).2.symm
  rw [e, ← hy]; exact this

/-! ## the FEA -/

/-- **fea_registers_truth**: the same for the FEA, whatever the frequency table makes it accept -/
theorem fea_registers_truth (d : Matrix) (n : Nat) (ub : Int) (x0 : List Nat) (moves : List (Nat × Nat))
    (out : FeaOut) (hsym : Symmetric d n) (hp : IsPerm x0 n) (hm : MovesInRange n moves)
    (h : feaSolve? n d ub x0 moves = some out) : ∀ r ∈ out.trace, TrueReg d n r.x r.y := by
  obtain ⟨_, y0, hf, hy0, hl, _⟩ := feaSolve?_some h
  have hx : x0 ≠ [] := by intro e; subst e; simp [tourLen?] at hy0
  have hy : y0 = cyclicSum d x0 := by rw [tourLen?_some hy0, tourLen_eq_cyclicSum d x0 hx]
  intro r hr
  exact ((feaLoop_inv d n hsym moves _ x0 y0 _ hf _ hm hp hy hl).1 r hr).1

/-- every index the FEA uses on `h` is the length of some tour (a permutation of the cities) -/
theorem fea_h_index_is_tour_length (d : Matrix) (n : Nat) (ub : Int) (x0 : List Nat)
    (moves : List (Nat × Nat)) (out : FeaOut) (hsym : Symmetric d n) (hp : IsPerm x0 n)
    (hm : MovesInRange n moves) (h : feaSolve? n d ub x0 moves = some out) :
    (∀ r ∈ out.trace, IsTourLen d n r.idx1 ∧ IsTourLen d n r.idx2) ∧ IsTourLen d n out.lastIdx := by
  obtain ⟨_, y0, hf, hy0, hl, _⟩ := feaSolve?_some h
  have hx : x0 ≠ [] := by intro e; subst e; simp [tourLen?] at hy0
  have hy : y0 = cyclicSum d x0 := by rw [tourLen?_some hy0, tourLen_eq_cyclicSum d x0 hx]
  obtain ⟨i1, i2, _⟩ := feaLoop_inv d n hsym moves _ x0 y0 _ hf _ hm hp hy hl
  exact ⟨fun r hr => (i1 r hr).2, i2⟩

/-- what an accepted symmetric instance provides to the algorithms -/
theorem instance_facts (lbG : Int) (M : Matrix) (mult : Int) (I : Inst)
    (hI : mkInstance lbG M mult = some I) (hs : I.sym = true) :
    Square I.stored I.n ∧ Symmetric I.stored I.n ∧ 2 ≤ I.n ∧ 0 ≤ I.ub ∧
    ∀ z, IsPerm z I.n → 0 ≤ cyclicSum I.stored z ∧ cyclicSum I.stored z ≤ I.ub := by
  obtain ⟨hst, _, hn, hsq, hub, _, hnn, hsym, _⟩ := mkInstance_spec lbG M mult I hI
  rw [hst]
  have hb : ∀ z, IsPerm z I.n → 0 ≤ cyclicSum M z ∧ cyclicSum M z ≤ I.ub := by
    intro z hz
    have hl := isPerm_length hz
    have hz0 : z ≠ [] := by intro e; subst e; simp at hl; omega
    have := tour_between_bounds M I.n z hn hz
    rw [tourLen_eq_cyclicSum M z hz0] at this
    omega
  refine ⟨hsq, ?_, hn, ?_, hb⟩
  · rw [hs] at hsym
    exact (symmetric_flag_iff M I.n).mp hsym.symm
  · have hid : IsPerm (List.range I.n) I.n := List.Perm.refl _
    have := hb _ hid; omega

/-- **fea_h_index_in_range**: on every accepted symmetric instance, for every start permutation and every
sequence of drawn pairs, every index the FEA uses on its frequency table — `h[y]`, `h[y2]` in the kernel and
`h[y]` in the final logging fix-up — lies between 0 and the instance's upper tour-length bound, i.e. inside
the table `zeros(ub + 1)` (the table keeps that length) -/
theorem fea_h_index_in_range (lbG : Int) (M : Matrix) (mult : Int) (I : Inst) (x0 : List Nat)
    (moves : List (Nat × Nat)) (out : FeaOut) (hI : mkInstance lbG M mult = some I) (hs : I.sym = true)
    (hp : IsPerm x0 I.n) (hm : MovesInRange I.n moves)
    (h : feaSolve? I.n I.stored I.ub x0 moves = some out) :
    (∀ r ∈ out.trace, 0 ≤ r.idx1 ∧ r.idx1 ≤ I.ub ∧ 0 ≤ r.idx2 ∧ r.idx2 ≤ I.ub) ∧
    0 ≤ out.lastIdx ∧ out.lastIdx ≤ I.ub ∧ (out.h.size : Int) = I.ub + 1 := by
  obtain ⟨_, hsym, _, hub, hb⟩ := instance_facts lbG M mult I hI hs
  obtain ⟨i1, ⟨z, hz, hzl⟩⟩ := fea_h_index_is_tour_length I.stored I.n I.ub x0 moves out hsym hp hm h
  obtain ⟨_, y0, hf, hy0, hl, hsz⟩ := feaSolve?_some h
  have hx : x0 ≠ [] := by intro e; subst e; simp [tourLen?] at hy0
  have hy : y0 = cyclicSum I.stored x0 := by rw [tourLen?_some hy0, tourLen_eq_cyclicSum _ x0 hx]
  have hsz2 := (feaLoop_inv I.stored I.n hsym moves _ x0 y0 _ hf _ hm hp hy hl).2.2
  refine ⟨?_, ?_, ?_, ?_⟩
  · intro r hr
    obtain ⟨⟨z1, hz1, e1⟩, ⟨z2, hz2, e2⟩⟩ := i1 r hr
    have b1 := hb z1 hz1
    have b2 := hb z2 hz2
    omega
  · have := hb z hz; omega
  · have := hb z hz; omega
  · rw [hsz, hsz2]; simp; omega

/-! ## no access outside the arrays (re-used by C13) -/

/-- the EA kernel is memory safe for *any* two indices `< n` on any tour of length `n` over cities `< n`
(no symmetry, no permutation needed): all reads of `x` (including `x[i-1]` at `i = 0` and
`x[(j+1) % n]`) and of the matrix are inside -/
theorem rev_if_not_worse_noOOB (d : Matrix) (n : Nat) (x : List Nat) (y : Int) (i j : Nat)
    (hd : Square d n) (hlen : x.length = n) (hr : ∀ c ∈ x, c < n) (hi : i < n) (hj : j < n) :
    (revIfNotWorse? i j n d x y).isSome = true := by
  obtain ⟨r, h⟩ := revIfNotWorse?_ok y hd hlen hr hi hj
  simp [h]

/-- the EA's `solve` never leaves an array, for every square matrix, start permutation and drawn pairs -/
theorem ea_noOOB (d : Matrix) (n : Nat) (x0 : List Nat) (moves : List (Nat × Nat)) (hd : Square d n)
    (hn : 1 ≤ n) (hp : IsPerm x0 n) (hm : MovesInRange n moves) :
    (eaSolve? n d x0 moves).isSome = true := by
  have hl := isPerm_length hp
  have hx : x0 ≠ [] := by intro e; subst e; simp at hl; omega
  unfold eaSolve?
  rw [tourLen?_noOOB d n x0 hd hx (isPerm_lt hp)]
  obtain ⟨tr, h⟩ := eaLoop?_ok d n hd moves x0 (tourLen d x0) hm hp
  simp [h]

/-- the FEA kernel is memory safe — including its two read-modify-writes on `h` — whenever `y` is the
true length of the permutation `x` and `h` is as long as the largest tour length + 1 -/
theorem rev_if_h_not_worse_noOOB (d : Matrix) (n : Nat) (x : List Nat) (y : Int) (i j : Nat) (h : Array Int)
    (hd : Square d n) (hsym : Symmetric d n) (hp : IsPerm x n) (hij : i < j) (hj : j < n)
    (hne : ¬(i = 0 ∧ j + 1 = n)) (hy : y = cyclicSum d x)
    (hb : ∀ z, IsPerm z n → 0 ≤ cyclicSum d z ∧ cyclicSum d z < h.size) :
    (revIfHNotWorse? i j n d h x y).isSome = true := by
  obtain ⟨o, e⟩ := revIfHNotWorse?_ok (hh := h) hd hsym hp hij hj hne hy hb
  simp [e]

/-- the FEA's `solve` (table of length `ub + 1`, final logging fix-up included) never leaves an array on
an accepted symmetric instance -/
theorem fea_noOOB (lbG : Int) (M : Matrix) (mult : Int) (I : Inst) (x0 : List Nat)
    (moves : List (Nat × Nat)) (hI : mkInstance lbG M mult = some I) (hs : I.sym = true)
    (hp : IsPerm x0 I.n) (hm : MovesInRange I.n moves) :
    (feaSolve? I.n I.stored I.ub x0 moves).isSome = true := by
  obtain ⟨hd, hsym, hn, hub, hb⟩ := instance_facts lbG M mult I hI hs
  have hl := isPerm_length hp
  have hx : x0 ≠ [] := by intro e; subst e; simp at hl; omega
  have htl : tourLen? I.stored x0 = some (cyclicSum I.stored x0) := by
    rw [tourLen?_noOOB _ I.n x0 hd hx (isPerm_lt hp), tourLen_eq_cyclicSum _ x0 hx]
  obtain ⟨out, e⟩ := feaSolve?_ok I.stored I.n I.ub x0 moves hd hsym hb hp hm hub htl
  simp [e]

/-! ## machine integers -/

/-- **no overflow in the kernels**: on an accepted instance every matrix entry lies in `[0, ub]` and
`ub ≤ 10^15 + 1`; hence every intermediate value of `d1 + d2 - d3 - d4` lies within `±2·(10^15+1)`,
far inside int64 (and `y + dy` is a tour length in `[0, ub]` by `fea_h_index_in_range`) -/
theorem kernel_arith_no_overflow (lbG : Int) (M : Matrix) (mult : Int) (I : Inst)
    (hI : mkInstance lbG M mult = some I) (c1 c2 c3 c4 c5 c6 c7 c8 : Nat)
    (h1 : c1 < I.n) (h2 : c2 < I.n) (h3 : c3 < I.n) (h4 : c4 < I.n) (h5 : c5 < I.n) (h6 : c6 < I.n)
    (h7 : c7 < I.n) (h8 : c8 < I.n) :
    -(2 : Int) ^ 62 < entry I.stored c1 c2 + entry I.stored c3 c4 ∧
    entry I.stored c1 c2 + entry I.stored c3 c4 < 2 ^ 62 ∧
    -(2 : Int) ^ 62 < entry I.stored c1 c2 + entry I.stored c3 c4 - entry I.stored c5 c6 ∧
    entry I.stored c1 c2 + entry I.stored c3 c4 - entry I.stored c5 c6 < 2 ^ 62 ∧
    -(2 : Int) ^ 62 < entry I.stored c1 c2 + entry I.stored c3 c4 - entry I.stored c5 c6 - entry I.stored c7 c8 ∧
    entry I.stored c1 c2 + entry I.stored c3 c4 - entry I.stored c5 c6 - entry I.stored c7 c8 < 2 ^ 62 := by
  obtain ⟨hst, _, hn, _, hub, _, _, _, hlim, _, hnn, hdiag⟩ := mkInstance_spec lbG M mult I hI
  rw [hst]
  have hfar : ∀ i < I.n, 0 ≤ rowFar M I.n i := by
    intro i hi
    have hj : ∃ j, j < I.n ∧ i ≠ j := by
      by_cases h0 : i = 0
      · exact ⟨1, by omega, by omega⟩
      · exact ⟨0, by omega, h0⟩
    obtain ⟨j, hj, hij⟩ := hj
    have := entry_le_rowFar M I.n i j hj hij
    have := entry_nonneg' M hnn i j
    omega
  have hle : ∀ i < I.n, ∀ j < I.n, entry M i j ≤ I.ub := by
    intro i hi j hj
    have hs : rowFar M I.n i ≤ sumFar M I.n :=
      le_sum_of_nonneg (rowFar M I.n) (List.range I.n) (fun k hk => hfar k (List.mem_range.mp hk)) i
        (List.mem_range.mpr hi)
    by_cases hij : i = j
    · subst hij; rw [hdiag i hi]; have := hfar i hi; omega
    · have := entry_le_rowFar M I.n i j hj hij; omega
  have n1 := entry_nonneg' M hnn
  have u1 := hle c1 h1 c2 h2
  have u2 := hle c3 h3 c4 h4
  have u3 := hle c5 h5 c6 h6
  have u4 := hle c7 h7 c8 h8
  have := n1 c1 c2; have := n1 c3 c4; have := n1 c5 c6; have := n1 c7 c8
  unfold LIMIT at hlim
  omega

/-! ## non-vacuity and the excluded index pair -/

def exM : Matrix := [[0, 3, 9, 4, 7], [3, 0, 5, 8, 2], [9, 5, 0, 6, 1], [4, 8, 6, 0, 10], [7, 2, 1, 10, 0]]

example : (mkInstance 0 exM 1).map (fun I => (I.sym, I.n, I.ub)) = some (true, 5, 46) := by decide
example : IsPerm [3, 1, 4, 0, 2] 5 := by unfold IsPerm; decide
example : MovesInRange 5 [(0, 2), (3, 1), (2, 2), (0, 3), (1, 2)] := by unfold MovesInRange; decide
example : eaSolve? 5 exM [3, 1, 4, 0, 2] [(0, 2), (3, 1), (2, 2), (0, 3), (1, 2)]
    = some [([4, 1, 3, 0, 2], 24), ([4, 1, 3, 0, 2], 24), ([4, 1, 3, 0, 2], 24)] := by decide
example : (feaSolve? 5 exM 46 [3, 1, 4, 0, 2] [(0, 2), (3, 1), (2, 2), (0, 3), (1, 2)]).map
    (fun o => o.trace.map (fun r => (r.x, r.y, r.idx1, r.idx2)))
    = some [([4, 1, 3, 0, 2], 24, 32, 24), ([4, 0, 3, 1, 2], 25, 24, 25), ([4, 3, 0, 1, 2], 23, 25, 23)] := by
  decide

/-- the index pair `(0, n-1)` (whole array) that `delta_correct` excludes really is wrong for the formula:
the kernel would report 22 for a tour of length 24 -/
example : revIfNotWorse? 0 4 5 exM [4, 1, 3, 0, 2] 24 = some ([2, 0, 3, 1, 4], 22) ∧
    cyclicSum exM [2, 0, 3, 1, 4] = 24 := by decide

end TspEa
