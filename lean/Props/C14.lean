import Proofs.IblSpec
import Proofs.IblSpec1
import Proofs.IblSpec2
import Proofs.IblSpecSeq
/-!
# C14 — the two IBL decoders follow the documented bottom-left rule, statelessly

Property theorems only.  The *specification* (`Model/IblSpec.lean`) is written from the documentation
(module docstrings and the docstrings of `__move_down`, `__move_left`, `_decode`): bins as lists of
placed items, falls to the highest stop level, left slides to the rightmost stop, downward moves first,
next fit / first fit.  The *model* of the code (`Model/Ibl.lean`, proved feasible in C01) works on a flat
destination array with index windows, running minima of distances and two scratch arrays.
Helper lemmas: `Proofs/IblSpec.lean` (moves, loop), `Proofs/IblSpec1.lean` (encoding 1),
`Proofs/IblSpec2.lean` (encoding 2), `Proofs/IblSpecSeq.lean` (calls and histories).
-/
namespace IblSpec
open Pack Ibl

/-- **moving down** ("as far as possible … not deeper than the top-y coordinate of the other box"):
the code's minimum over distances equals the distance to the documented stop level — the highest top
edge among the placed items that share x-range with the item and are not above it, or the floor —
for every window and every item; hence the same new position and the same "did it move" answer. -/
theorem minDown_eq_dropDown (win : List Row) (c : Row) :
    minDown win c = c.b - dropLevel win c ∧ c.down (minDown win c) = dropDown win c ∧
    (minDown win c > 0 ↔ (dropDown win c).b < c.b) := by
  refine ⟨minDown_eq win c, down_eq_dropDown win c, ?_⟩
  rw [dropDown_b, minDown_eq]; omega

/-- **moving left** ("until either its right side reaches the left end of the object beneath it or until
its left side touches another object"): the code's minimum over distances (with its `continue` for
items behind the moving one, the "directly below" branch and the `elif` branch) equals the distance to
the documented stop — the rightmost of: the wall, the right edge of an item on the left that shares
y-range, the left end of a supporting item minus the item's width — for proper rectangles. -/
theorem minLeft_eq_slideLeft (win : List Row) (c : Row) (hw : ∀ p ∈ win, p.l < p.r) (hc : c.l < c.r) :
    minLeft win c = c.l - leftLevel win c ∧ c.left (minLeft win c) = slideLeft win c ∧
    (minLeft win c > 0 ↔ (slideLeft win c).l < c.l) := by
  refine ⟨minLeft_eq win c hw hc, left_eq_slideLeft win c hw hc, ?_⟩
  rw [slideLeft_l, minLeft_eq win c hw hc]; omega

/-- **the loop** `while move_down or move_left` is the documented "move down as far as possible, then
left, downward movements preferred, repeated until no movement is possible". -/
theorem settle_eq_settleSpec (win : List Row) (hw : ∀ p ∈ win, p.l < p.r) (c : Row) (hc : c.l < c.r) :
    settle (fuelFor c) win c = settleSpec win c :=
  settle_eq_settleN win hw _ c hc

/-- **the specification's loop bound is never reached**: the result of `settleSpec` is at rest (neither a
fall nor a left slide would move it), and any larger bound gives the same result — for every list of
placed items and every start position, without any hypothesis. -/
theorem settleSpec_terminates (placed : List Row) (c : Row) :
    AtRest placed (settleSpec placed c) ∧
    ∀ m, c.b.toNat + c.l.toNat < m → settleN m placed c = settleSpec placed c :=
  ⟨settleN_at_rest placed _ c (by omega),
   fun m hm => settleN_fuel_irrelevant placed _ m c (by omega) hm⟩

/-- `settleSpec` is *the* rest position of the documented move relation (`Move`: a fall if it moves the
item, otherwise a left slide if it moves it): it is reachable by moves, and every position that is
reachable and at rest equals it. -/
theorem settleSpec_unique_rest (placed : List Row) (c : Row) :
    Moves placed c (settleSpec placed c) ∧
    ∀ r, Moves placed c r → AtRest placed r → r = settleSpec placed c :=
  ⟨settleN_moves placed _ c,
   fun r hr ha => rest_unique placed c r _ hr ha (settleN_moves placed _ c) (settleSpec_terminates placed c).1⟩

/-- **orientation**: the code's id/width/height lookup (`-(id+1)` indexing, swapped columns, forced swap)
is "the item |v|, rotated when negated, rotated again when it would not fit otherwise" — for every
integer `v` (both are undefined for `v = 0` and for ids beyond the instance). -/
theorem orient_eq_dims (I : Inst) (v : Int) : orient I v = dims? I v := orient_eq_dims? I v

/-- **the index window of encoding 2 is the bin**: whenever the decoder state satisfies the invariant
`Inv2` (it always does, `Ibl.run2_inv`), the rows `bin_starts[b-1] ≤ j < bin_ends[b-1]` with
`y[j].bin == b` that the move kernels scan are exactly all rows of bin `b` written so far, in placement
order. -/
theorem window2_eq_bin (I : Inst) (xs : List Int) (st : St2) (hinv : Inv2 I xs st) (b : Int) (hb1 : 1 ≤ b)
    (hb2 : b ≤ st.binId) (s e : Int) (hs : st.starts[(b - 1).toNat]? = some s)
    (he : st.ends[(b - 1).toNat]? = some e) :
    window2? st.done s e b = some (st.done.filter (fun p => p.bin = b)) :=
  window2_eq_bin' I xs st hinv b hb1 hb2 s e hs he

/-- **C14, encoding 1**: for every valid instance, every signed permutation of its items and every prior
content of the destination, `_decode` writes exactly the packing the documented procedure prescribes
(`nextFit`: items in permutation order, only the most recently opened bin is tried, a new bin is opened
as soon as the item does not fit, bin numbers in order of opening) into rows `0..n-1`, reports the
documented bin count, and leaves the other rows alone. -/
theorem decode1_eq_nextFit (I : Inst) (hv : I.Valid) (x : List Int) (hx : SignedPermOf I x)
    (y0 : List Row) (hy : x.length ≤ y0.length) :
    ∃ rows k, nextFit I x = some (rows, k) ∧ rows.length = x.length ∧
      decode1? I x y0 = some (rows ++ y0.drop x.length, k) :=
  decode1_refines I hv x hx y0 hy

/-- **C14, encoding 2**: same for the first-fit variant, for every prior content of the destination and of
the two scratch arrays `bin_starts`, `bin_ends` (each with room for one entry per item): the rows written
are exactly `firstFit` (all open bins tried, starting with the first). -/
theorem decode2_eq_firstFit (I : Inst) (hv : I.Valid) (x : List Int) (hx : SignedPermOf I x)
    (y0 : List Row) (s0 e0 : List Int) (hy : x.length ≤ y0.length)
    (hs : x.length ≤ s0.length) (hse : s0.length = e0.length) :
    ∃ rows k s e, firstFit I x = some (rows, k) ∧ rows.length = x.length ∧
      decode2? I x y0 s0 e0 = some (rows ++ y0.drop x.length, k, s, e) ∧
      s.length = s0.length ∧ e.length = e0.length :=
  decode2_refines I hv x hx y0 s0 e0 hy hs hse

/-- **statelessness, encoding 2**: packing and bin count do not depend on the prior content of the
destination nor of the scratch arrays (for encoding 1 this is `Ibl.decode1_stateless` of C01). -/
theorem decode2_stateless (I : Inst) (hv : I.Valid) (x : List Int) (hx : SignedPermOf I x)
    (y0 y0' : List Row) (s0 e0 s0' e0' : List Int)
    (hy : x.length ≤ y0.length) (hs : x.length ≤ s0.length) (hse : s0.length = e0.length)
    (hy' : x.length ≤ y0'.length) (hs' : x.length ≤ s0'.length) (hse' : s0'.length = e0'.length) :
    (decode2? I x y0 s0 e0).map (fun r => (r.1.take x.length, r.2.1)) =
      (decode2? I x y0' s0' e0').map (fun r => (r.1.take x.length, r.2.1)) := by
  obtain ⟨rows, k, s, e, h1, h2, h3, _, _⟩ := decode2_refines I hv x hx y0 s0 e0 hy hs hse
  obtain ⟨rows', k', s', e', h1', h2', h3', _, _⟩ := decode2_refines I hv x hx y0' s0' e0' hy' hs' hse'
  rw [h1] at h1'
  simp only [Option.some.injEq, Prod.mk.injEq] at h1'
  obtain ⟨rfl, rfl⟩ := h1'
  rw [h3, h3']
  simp only [Option.map_some]
  rw [← h2, List.take_left', List.take_left'] <;> rfl

/-- **statelessness over histories**: take ONE destination packing and ONE encoder object of each kind
(memory `m0`: destination rows, `bin_starts`, `bin_ends`, arbitrary initial contents with room for the
instance's items), run any history `hist` of decode calls (either encoding, any signed permutations) on
them, each call starting from what the previous one left behind, and then decode `x`: the packing and
the bin count obtained for `x` are the documented ones (`specOf I two x`, a function of the instance and
`x` alone) — hence the same as with any other memory `m1`, e.g. a fresh encoder and a fresh destination. -/
theorem decode_sequence_stateless (I : Inst) (hv : I.Valid) (hist : List (Bool × List Int))
    (hall : ∀ c ∈ hist, SignedPermOf I c.2) (two : Bool) (x : List Int) (hx : SignedPermOf I x)
    (m0 m1 : Mem) (h0 : Room x.length m0) (h1 : Room x.length m1) :
    ∃ m, decodeHistory I hist m0 = some m ∧ (specOf I two x).isSome ∧
      (decodeCall I m two x).map (fun r => (r.1.y.take x.length, r.2)) = specOf I two x ∧
      (decodeCall I m1 two x).map (fun r => (r.1.y.take x.length, r.2)) = specOf I two x := by
  have hn : ((x.length : Nat) : Int) = I.nItems := hx.1
  obtain ⟨m, hm, hroom⟩ := decodeHistory_room I hv x.length hist hall hn m0 h0
  obtain ⟨ma, rows, k, a1, a2, a3, a4, _⟩ := decodeCall_refines I hv two x hx m hroom
  obtain ⟨mb, rows', k', b1, b2, b3, b4, _⟩ := decodeCall_refines I hv two x hx m1 h1
  refine ⟨m, hm, by rw [a2]; rfl, ?_, ?_⟩
  · rw [a1, a2, Option.map_some, a4, ← a3, List.take_left']; rfl
  · rw [b1, b2, Option.map_some, b4, ← b3, List.take_left']; rfl

/-! ### non-vacuity and corner cases of the rule on concrete inputs -/

/-- column `A` (5×6) at the left wall, low blocker `D` (1×1), support `S` (4×2), overhang `B` (7×2) resting
on `A` with free space beneath, narrow `C` (1×4) -/
def exOver : Inst := ⟨10, 12, [⟨5, 6, 1⟩, ⟨1, 1, 1⟩, ⟨4, 2, 1⟩, ⟨7, 2, 1⟩, ⟨1, 4, 1⟩]⟩
example : exOver.Valid := by decide
example : SignedPermOf exOver [1, 2, 3, 4, 5] := by decide

def exPlaced : List Row := [⟨1, 1, 0, 0, 5, 6⟩, ⟨2, 1, 5, 0, 6, 1⟩, ⟨3, 1, 6, 0, 10, 2⟩, ⟨4, 1, 0, 6, 7, 8⟩]

/-- `C` falls onto the support `S` (its top then touches the overhang's bottom, y = 6) … -/
example : dropDown exPlaced ⟨5, 0, 9, 12, 10, 16⟩ = ⟨5, 0, 9, 2, 10, 6⟩ := by decide
/-- … slides left UNDER the overhang until its right edge reaches the left end of the supporting item
`S` (x = 6; at the same time it touches the column `A`) … -/
example : slideLeft exPlaced ⟨5, 0, 9, 2, 10, 6⟩ = ⟨5, 0, 5, 2, 6, 6⟩ := by decide
/-- … and falls again although the overhang's bottom touches its top (an item with `bottom = top of the
moving item` is *above* it and does not block), down onto `D` -/
example : dropDown exPlaced ⟨5, 0, 5, 2, 6, 6⟩ = ⟨5, 0, 5, 1, 6, 5⟩ := by decide
example : settleSpec exPlaced ⟨5, 0, 9, 12, 10, 16⟩ = ⟨5, 0, 5, 1, 6, 5⟩ := by decide
example : nextFit exOver [1, 2, 3, 4, 5] = some (exPlaced ++ [⟨5, 1, 5, 1, 6, 5⟩], 1) := by decide
example : firstFit exOver [1, 2, 3, 4, 5] = some (exPlaced ++ [⟨5, 1, 5, 1, 6, 5⟩], 1) := by decide
example : (decode1? exOver [1, 2, 3, 4, 5] (List.replicate 5 ⟨9, 9, 9, 9, 9, 9⟩)) =
    some (exPlaced ++ [⟨5, 1, 5, 1, 6, 5⟩], 1) := by decide

/-- the docstring example of `__move_left`: the box stops where its right edge reaches the left end
(x = 35) of the supporting item — strictly before any wall or blocker — and goes on to the wall next -/
def exDoc : List Row := [⟨1, 1, 0, 0, 30, 10⟩, ⟨2, 1, 35, 0, 45, 30⟩, ⟨3, 1, 0, 10, 10, 20⟩]
example : slideLeft exDoc ⟨4, 1, 40, 30, 50, 40⟩ = ⟨4, 1, 25, 30, 35, 40⟩ := by decide
example : slideLeft exDoc ⟨4, 1, 25, 30, 35, 40⟩ = ⟨4, 1, 0, 30, 10, 40⟩ := by decide
example : slideLeft exDoc ⟨4, 1, 25, 10, 35, 20⟩ = ⟨4, 1, 10, 10, 20, 20⟩ := by decide
example : minLeft exDoc ⟨4, 1, 40, 30, 50, 40⟩ = 15 := by decide

/-- two bins, a forced rotation, first fit ≠ next fit: the last item goes back into bin 1 with first fit -/
def exTwo : Inst := ⟨10, 5, [⟨3, 8, 1⟩, ⟨6, 4, 1⟩, ⟨2, 2, 1⟩]⟩
example : exTwo.Valid := by decide
example : SignedPermOf exTwo [2, -1, 3] := by decide
example : nextFit exTwo [2, -1, 3] = some ([⟨2, 1, 0, 0, 6, 4⟩, ⟨1, 2, 0, 0, 8, 3⟩, ⟨3, 2, 8, 0, 10, 2⟩], 2) := by decide
example : firstFit exTwo [2, -1, 3] = some ([⟨2, 1, 0, 0, 6, 4⟩, ⟨1, 2, 0, 0, 8, 3⟩, ⟨3, 1, 6, 0, 8, 2⟩], 2) := by decide
/-- a history on one memory: encoding 2, then encoding 1, then the decode under test with encoding 2 -/
example : (decodeHistory exTwo [(true, [3, 2, 1]), (false, [-3, 1, -2])]
    ⟨List.replicate 3 ⟨7, 3, 1, 1, 2, 2⟩, [5, 5, 5], [0, 9, 1]⟩).bind
      (fun m => (decodeCall exTwo m true [2, -1, 3]).map (fun r => (r.1.y.take 3, r.2))) = firstFit exTwo [2, -1, 3] := by
  decide

end IblSpec
