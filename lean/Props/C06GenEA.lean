import Gen.RevIfNotWorse
import Props.C06Gen
/-!
# C06 (tie between source and model) — `Gen/RevIfNotWorse.lean` equals its hand-written model
(see `Props/C06Gen.lean` for the statements about the primitives)
-/
-- the proofs are re-checked against regenerated text: simp sets are deliberately a superset of what one variant needs
set_option linter.unusedSimpArgs false
set_option linter.unusedVariables false

namespace C06Gen
open Gen.RevIfNotWorse

theorem ea_get1?_eq : @get1? = @LoopGen.get1? := rfl
theorem ea_get2?_eq : @get2? = @LoopGen.get2? := rfl
theorem ea_pyMod_eq : @pyMod = @LoopGen.pyMod := rfl
theorem ea_getSlice_eq : @getSlice = @LoopGen.getSlice := rfl
theorem ea_setSlice?_eq : @setSlice? = @LoopGen.setSlice? := rfl

/-- **`rev_if_not_worse`: generated code = model**, for all positions `i`, `j`, every city count `n`, every matrix
(any shape), every tour (any list of cities, need not be a permutation) and every current length `y`.  The result
of the generated function is `(x after the call, returned length)`: the in-place update of `x` is part of the
statement.  Both sides answer `none` on exactly the same inputs (a position or a city outside its array, `n = 0`).
Conversions: positions and cities are natural numbers in the model and Python ints in the generated code. -/
theorem rev_if_not_worse_eq_model (i j n : Nat) (d : Tsp.Matrix) (x : List Nat) (y : Int) :
    rev_if_not_worse (i : Int) (j : Int) (n : Int) d (x.map Int.ofNat) y
      = (TspEa.revIfNotWorse? i j n d x y).map fun r => (r.1.map Int.ofNat, r.2) := by
  unfold rev_if_not_worse TspEa.revIfNotWorse? TspEa.delta?
  simp only [ea_get1?_eq, ea_get2?_eq, ea_pyMod_eq, ea_getSlice_eq, ea_setSlice?_eq, get1?_tour, getW?_nat,
    pyMod_succ, LoopGen.setSlice?_none_lo]
  -- the four reads of the tour, `% n_cities`, the four reads of the matrix: the same sequence on both sides
  cases hxi : x[i]? with
  | none => simp
  | some xi =>
  cases hxim1 : TspEa.getW? x ((i : Int) - 1) with
  | none => simp
  | some xim1 =>
  cases hxj : x[j]? with
  | none => simp
  | some xj =>
  by_cases hn : n = 0
  · simp [hn]
  cases hxjp1 : x[(j + 1) % n]? with
  | none => simp only [hn, if_false, Option.bind_some, Option.bind_eq_bind, getW?_nat, hxjp1, Option.map_none,
      Option.bind_none, Option.map_some]
  | some xjp1 =>
  simp only [hn, if_false, Option.map_some, Option.bind_eq_bind, Option.bind_some, getW?_nat, hxjp1,
    Int.ofNat_eq_natCast, LoopGen.get2?_ofNat, Tsp.entry?]
  cases (d[xim1]?.bind fun r => r[xj]?) with
  | none => simp
  | some a =>
  cases (d[xi]?.bind fun r => r[xjp1]?) with
  | none => simp
  | some b =>
  cases (d[xim1]?.bind fun r => r[xi]?) with
  | none => simp
  | some c =>
  cases (d[xj]?.bind fun r => r[xjp1]?) with
  | none => simp
  | some e =>
  simp only [Option.bind_some, Option.pure_def]
  have hil : i < x.length := LoopGen.lt_of_getElem? hxi
  have hjl : j < x.length := LoopGen.lt_of_getElem? hxj
  by_cases hdy : a + b - c - e ≤ 0
  · simp only [hdy, if_true, Option.map_some, map_applyRev, Int.natCast_eq_zero]
    by_cases hi0 : i = 0
    · subst hi0
      have := LoopGen.setSlice_rev0 (x.map Int.ofNat) j (by simpa using hjl)
      simp [this]
    · have := LoopGen.setSlice_revI (x.map Int.ofNat) i j (by omega) (by simpa using hil) (by simpa using hjl)
      simp only [hi0, if_false, this, Option.bind_some]
      try (by_cases hij : i ≤ j <;> simp [hij])
  · simp [hdy]


/-- the generated function on a concrete 5-city instance: the move `(1, 3)` on the tour `0 3 2 1 4` removes the
two crossing edges (length 12 → 8); a move that would lengthen the tour leaves it unchanged -/
example : rev_if_not_worse 1 3 5
    [[0, 1, 2, 3, 4], [1, 0, 1, 2, 3], [2, 1, 0, 1, 2], [3, 2, 1, 0, 1], [4, 3, 2, 1, 0]] [0, 3, 2, 1, 4] 12
    = some ([0, 1, 2, 3, 4], 8) := by decide
example : rev_if_not_worse 1 2 5
    [[0, 1, 2, 3, 4], [1, 0, 1, 2, 3], [2, 1, 0, 1, 2], [3, 2, 1, 0, 1], [4, 3, 2, 1, 0]] [0, 1, 2, 3, 4] 8
    = some ([0, 1, 2, 3, 4], 8) := by decide

end C06Gen
