import Proofs.LowerBoundFinal
import Proofs.LowerBoundTrivial
/-!
# C03 — the bin-count lower bound never exceeds an achievable packing

Property theorems only (helper lemmas: `Proofs/LowerBound*.lean`).  Model: `Model/LowerBound.lean`
(`__cutsq`, `__lb_q`, `_lower_bound_damv`, the geometric bound and `lower_bound_bins` of
`Instance.__new__`).  Specification: `Pack.Feasible` (rotation by 90° allowed) of `Model/Pack.lean`.
-/
namespace Pack
open LB

/-! ## the geometric half -/

/-- the constructor's `item_area // bin_area (+1)` is `⌈total item area / bin area⌉` -/
theorem geo_isCeil (I : Inst) (hv : I.Valid) :
    IsCeilDiv I.totalArea (I.W * I.H) I.lowerBoundGeo := by
  obtain ⟨hW, _, hH, _⟩ := hv
  unfold Inst.lowerBoundGeo
  rw [Int.mul_comm I.H I.W]
  exact ceilDiv_isCeil _ _ (Int.mul_pos (by omega) (by omega))

/-- clause "at least the area bound": `lower_bound_bins = max(damv, geo) ≥ ⌈area / bin area⌉` -/
theorem geo_le_lowerBound (I : Inst) : I.lowerBoundGeo ≤ I.lowerBoundBins := by
  unfold Inst.lowerBoundBins; omega

/-- the area bound never exceeds the number of bins of a feasible packing -/
theorem geo_le_bins (I : Inst) (rows : List Row) (k : Int) (hv : I.Valid)
    (hf : Feasible I rows k) : I.lowerBoundGeo ≤ k := by
  have h := feasible_area_le I rows k hv hf
  obtain ⟨hW, _, hH, _⟩ := hv
  unfold Inst.lowerBoundGeo
  rw [Int.mul_comm I.H I.W]
  exact ceilDiv_le _ _ _ (Int.mul_pos (by omega) (by omega)) h

/-- a feasible packing of a valid instance uses at least one bin -/
theorem bins_pos (I : Inst) (rows : List Row) (k : Int) (hv : I.Valid) (hf : Feasible I rows k) :
    1 ≤ k := by
  have hn := Inst.nItems_pos I hv
  obtain ⟨hlen, _, _, _, _, hbin, _⟩ := hf
  cases rows with
  | nil => simp at hlen; omega
  | cons a t => have := hbin a (by simp); omega

/-! ## no Python exception for valid instances -/

/-- for a valid instance no divisor of `__lb_q` is zero and the range of `q` is not empty
(the model's total functions agree with Python) -/
theorem damv_defined (I : Inst) (hv : I.Valid) : damvRaises I.W I.H = false := by
  obtain ⟨hW, _, hH, _⟩ := hv
  unfold damvRaises frame
  have key : ∀ a b : Int, 1 ≤ b → b ≤ a → ((b / 2 + 1 ≤ 0 || a == 0 || a / (b / 2 + 1) == 0) = false) := by
    intro a b hb hab
    have hm : 0 < b / 2 + 1 := by omega
    have : 1 ≤ a / (b / 2 + 1) := Int.le_ediv_of_mul_le hm (by omega)
    simp; omega
  split
  · exact key _ _ (by omega) (by omega)
  · exact key _ _ (by omega) (by omega)

/-- the fuel of the model's `while h > 1` loop never runs out -/
theorem cutLoop_fuel_enough (f : Nat) (w h : Int) (hf : h.toNat ≤ f) :
    cutLoop f w h = cutLoop h.toNat w h := cutLoop_fuel f h.toNat w h hf (Nat.le_refl _)

/-! ## layer 1: the squares cut from the items tile them -/

/-- `__cutsq` returns a non-increasing list -/
theorem cutsq_sorted (items : List Item) : (cutsq items).Pairwise (· ≥ ·) := sortDesc_sorted _

/-- **CUTSQ tiles the items**: from every feasible packing of the items (rotation allowed) into `k`
bins one gets a placement of *all* squares of `__cutsq` — pairwise non-overlapping, inside the
bins — into the same `k` bins. -/
theorem cutsq_tiles (I : Inst) (rows : List Row) (k : Int) (hv : I.Valid) (hf : Feasible I rows k) :
    ∃ P : List Row, SqPacking I.W I.H k P ∧ (cutsq I.items).Perm (P.map Row.side) := by
  obtain ⟨P, hP, hperm⟩ := exists_square_packing I rows k hv hf
  exact ⟨P, hP, (sortDesc_perm _).trans hperm.symm⟩

/-! ## layers 2 and 4: the squares of one bin -/

/-- **S1/S2/S3 exclusivity and the waste strips** (frame `1 ≤ H ≤ W`, `2q ≤ H`): for the side
lengths `L` of pairwise non-overlapping squares in one bin: at most one square of S1 ∪ S2; an S1
square excludes every square of side `≥ q`; an S2 square allows at most one S3 square, which fits
beside it; S3 squares have total side `≤ W` and number `≤ W/(H/2+1)`; the area of S2 ∪ S3 ∪ S4 plus
the waste strips `l·(H−l)` of S23 is at most `W·H`. -/
theorem bin_facts (W H q : Int) (hH : 1 ≤ H) (hHW : H ≤ W) (hqH : 2 * q ≤ H) (Q : List Row)
    (hQ : BinSquares W H Q) : BinOK W H q (Q.map Row.side) := binOK_of_squares hH hHW hqH Q hQ

/-! ## layer 3: the greedy matching -/

/-- **the greedy removal of `__lb_q` dominates every feasible S2–S3 assignment**: whatever S3
squares (`b.2`, at most one, fitting) really share a bin with the S2 squares `b.1`, the S3 squares
left over by the greedy loop have no larger total side and are no more than the really left over
`others`. -/
theorem greedy_matching_dominates (W : Int) (s2asc s3 others : List Int)
    (bins2 : List (Int × List Int))
    (hs2 : s2asc.Pairwise (· ≤ ·)) (hs3 : s3.Pairwise (· ≥ ·)) (hnn : ∀ x ∈ s3, 0 ≤ x)
    (hb : List.Perm s2asc (bins2.map Prod.fst))
    (hfit : ∀ b ∈ bins2, b.2.length ≤ 1 ∧ ∀ x ∈ b.2, x ≤ W - b.1)
    (hp : List.Perm s3 (bins2.flatMap Prod.snd ++ others)) :
    (greedy W s2asc s3).sum ≤ others.sum ∧ (greedy W s2asc s3).length ≤ others.length :=
  greedy_dominates W s2asc s3 others bins2 hs2 hs3 hnn hb hfit hp

/-! ## layer 5 and the full statement -/

/-- `__lb_q(W, H, q, squares) ≤ k` for every placement of the (sorted) squares into `k` bins -/
theorem lbQ_le_bins (W H q k : Int) (hH : 1 ≤ H) (hHW : H ≤ W) (hqH : 2 * q ≤ H) (hk : 0 ≤ k)
    (P : List Row) (hP : SqPacking W H k P) (sq : List Int) (hs : sq.Pairwise (· ≥ ·))
    (hp : sq.Perm (P.map Row.side)) : lbQ W H q sq ≤ k :=
  lbQ_le_of_sqPacking W H q k hH hHW hqH hk P hP sq hs hp

/-- the Dell'Amico/Martello/Vigo bound never exceeds the number of bins of a feasible packing -/
theorem damv_le_bins (I : Inst) (rows : List Row) (k : Int) (hv : I.Valid)
    (hf : Feasible I rows k) : lowerBoundDamv I.W I.H I.items ≤ k := by
  have hk := bins_pos I rows k hv hf
  obtain ⟨P, hP, hperm⟩ := cutsq_tiles I rows k hv hf
  have hW : 1 ≤ I.W := hv.1
  have hH : 1 ≤ I.H := hv.2.2.1
  unfold lowerBoundDamv
  -- a placement in the frame with width ≥ height
  have key : ∃ P' : List Row, SqPacking (frame I.W I.H).1 (frame I.W I.H).2 k P' ∧
      (cutsq I.items).Perm (P'.map Row.side) ∧ 1 ≤ (frame I.W I.H).2 ∧
      (frame I.W I.H).2 ≤ (frame I.W I.H).1 := by
    unfold frame
    split
    · obtain ⟨h1, h2⟩ := sqPacking_transpose hP
      exact ⟨P.map transpose, h1, by rw [h2]; exact hperm, by simpa using hW, by simp; omega⟩
    · exact ⟨P, hP, hperm, by simpa using hH, by simp; omega⟩
  obtain ⟨P', hP', hperm', hf2, hf21⟩ := key
  have hmax : maxOf ((qRange (frame I.W I.H).2).map
      (fun q => lbQ (frame I.W I.H).1 (frame I.W I.H).2 q (cutsq I.items))) ≤ k := by
    apply maxOf_le _ _ (by omega)
    intro x hx
    obtain ⟨q, hq, rfl⟩ := List.mem_map.mp hx
    exact lbQ_le_bins _ _ q k hf2 hf21 (mem_qRange hq).2 (by omega) P' hP' _ (cutsq_sorted _) hperm'
  simp only
  omega

/-- **C03, full statement**: for every instance the constructor accepts and every feasible
packing of it (90° rotation allowed) into `k` bins, `lower_bound_bins ≤ k`.  In particular the
bound never exceeds the optimum. -/
theorem lowerBound_le_bins (I : Inst) (rows : List Row) (k : Int) (hv : I.Valid)
    (hf : Feasible I rows k) : I.lowerBoundBins ≤ k := by
  have h1 := damv_le_bins I rows k hv hf
  have h2 := geo_le_bins I rows k hv hf
  unfold Inst.lowerBoundBins
  omega

/-- the full statement as the `Prop` kept visible in `Model/LowerBound.lean` -/
theorem lowerBoundLeBins : LowerBoundLeBins := fun I rows k hv hf => lowerBound_le_bins I rows k hv hf

/-- consequence ("no packing produced by any encoding uses fewer bins than the bound"): a packing
with fewer bins than `lower_bound_bins` is not feasible -/
theorem fewer_bins_infeasible (I : Inst) (rows : List Row) (k : Int) (hv : I.Valid)
    (hk : k < I.lowerBoundBins) : ¬ Feasible I rows k := fun hf => by
  have := lowerBound_le_bins I rows k hv hf; omega

/-- `lower_bound_bins ≥ 1` (the lower limit of the constructor's final range check) -/
theorem lowerBound_pos (I : Inst) : 1 ≤ I.lowerBoundBins := by
  unfold Inst.lowerBoundBins lowerBoundDamv; simp only; omega

/-! ## the observers `BinCount.lower_bound()`, `InstanceSpace.min_bins`; the final range checks -/

/-- one item per bin is feasible, hence `lower_bound_bins ≤ n_items` -/
theorem lowerBound_le_nItems (I : Inst) (hv : I.Valid) : I.lowerBoundBins ≤ I.nItems := by
  obtain ⟨rows, hf⟩ := exists_onePerBin I hv
  exact lowerBound_le_bins I rows _ hv hf

/-- `InstanceSpace.min_bins = min(lower_bound_bins, n_items)` is the instance's bound -/
theorem minBins_eq (I : Inst) (hv : I.Valid) : min I.lowerBoundBins I.nItems = I.lowerBoundBins := by
  have := lowerBound_le_nItems I hv; omega

theorem totalArea_pos (I : Inst) (hv : I.Valid) : 1 ≤ I.totalArea := by
  obtain ⟨_, _, _, _, hne, _, hitems, _⟩ := hv
  have hpos : ∀ it ∈ I.items, 1 ≤ it.w * it.h * it.rep := by
    intro it hit
    obtain ⟨h1, _, h2, _, h3, _⟩ := hitems it hit
    have : 1 ≤ it.w * it.h := by nlinarith
    nlinarith
  unfold Inst.totalArea
  cases hI : I.items with
  | nil => rw [hI] at hne; simp at hne
  | cons it rest =>
    rw [hI] at hpos
    simp only [List.map_cons, List.sum_cons]
    have h1 := hpos it (by simp)
    have h2 := ListLemmas.sum_map_nonneg rest (fun it => it.w * it.h * it.rep) (fun b hb => by
      have := hpos b (by simp [hb]); omega)
    omega

/-- the constructor's final `check_int_range(·, 1, 1_000_000_000_000)` on the geometric and on the
DAMV bound never rejects an instance that passed the earlier checks -/
theorem bounds_in_range (I : Inst) (hv : I.Valid) :
    1 ≤ I.lowerBoundGeo ∧ I.lowerBoundGeo ≤ 1000000000000 ∧
    1 ≤ lowerBoundDamv I.W I.H I.items ∧ lowerBoundDamv I.W I.H I.items ≤ 1000000000000 := by
  have h1 := lowerBound_le_nItems I hv
  have h2 : I.nItems ≤ 1000000000000 := hv.2.2.2.2.2.2.2
  have h3 := totalArea_pos I hv
  have h4 := geo_isCeil I hv
  have hWH : 0 < I.W * I.H := Int.mul_pos (by have := hv.1; omega) (by have := hv.2.2.1; omega)
  have h5 : 1 ≤ I.lowerBoundGeo := by
    by_contra hc
    have : I.lowerBoundGeo * (I.W * I.H) ≤ 0 * (I.W * I.H) :=
      Int.mul_le_mul_of_nonneg_right (by omega) (by omega)
    have := h4.2
    omega
  have h6 : 1 ≤ lowerBoundDamv I.W I.H I.items := by unfold lowerBoundDamv; simp only; omega
  unfold Inst.lowerBoundBins at h1
  omega

/-! ## the hypotheses are satisfiable, the bound can be tight and can exceed the area bound -/

/-- two 6×6 squares in 10×10 bins: area bound 1, DAMV bound 2, and 2 bins are feasible -/
def exI : Inst := ⟨10, 10, [⟨6, 6, 2⟩]⟩
def exRows : List Row := [⟨1, 1, 0, 0, 6, 6⟩, ⟨1, 2, 4, 4, 10, 10⟩]

example : exI.Valid := by decide
example : Feasible exI exRows 2 := by decide
example : exI.lowerBoundGeo = 1 := by decide
example : exI.lowerBoundBins = 2 := by decide
example : ¬ Feasible exI [⟨1, 1, 0, 0, 6, 6⟩, ⟨1, 1, 4, 4, 10, 10⟩] 1 := by decide

/-- a rotated non-square item: 7×3 items in 5×8 bins (frame swap, rotation, cutting 7×3 → 3,3) -/
def exJ : Inst := ⟨5, 8, [⟨7, 3, 2⟩, ⟨2, 2, 1⟩]⟩
def exRowsJ : List Row := [⟨1, 1, 0, 0, 3, 7⟩, ⟨1, 1, 0, 7, 5, 8⟩, ⟨2, 1, 3, 0, 5, 2⟩]
example : exJ.Valid := by decide
example : cutsq exJ.items = [3, 3, 3, 3, 2] := by decide
example : ¬ Feasible exJ exRowsJ 1 := by decide   -- the second 7×3 does not fit as 5×1
example : Feasible exJ [⟨1, 1, 0, 0, 3, 7⟩, ⟨1, 2, 0, 0, 3, 7⟩, ⟨2, 1, 3, 0, 5, 2⟩] 2 := by decide
example : exJ.lowerBoundBins = 2 := by decide

end Pack
