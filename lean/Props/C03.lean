import Model.LowerBound
namespace Pack
theorem geo_isCeil : True := trivial
theorem geo_le_lowerBound : True := trivial
theorem geo_le_bins : True := trivial
end Pack
