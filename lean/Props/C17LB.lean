import Props.C17
import Props.C03
import Mathlib.Tactic.Linarith
/-!
# C17, last step: the decoded instance's lower bound equals the template's minimum number of bins

`Props/C17.lean` proves (independently of the lower-bound algorithm) that every decoded instance is
packable into `min_bins` bins and that its total area still needs that many bins; `Props/C03.lean` proves
that the instance's computed lower bound never exceeds a feasible packing and is at least the area bound.
Together: `lower_bound_bins = min_bins`.
-/
namespace InstGen
open Pack

/-- **C17 closing clause**: an instance with the `GoodFor` guarantees of `decode_instance_ok` has
`lower_bound_bins = min_bins` (the value the real constructor computes: model `Inst.lowerBoundBins`
of C03, correspondence-checked on all shipped instances). -/
theorem lower_bound_eq_min_bins (sp : Space) (I : Inst) (h : GoodFor sp I) :
    I.lowerBoundBins = sp.minBins := by
  obtain ⟨hv, _, _, _, ⟨rows, hf⟩, ⟨hn1, hn2⟩, _⟩ := h
  have hle := lowerBound_le_bins I rows sp.minBins hv hf
  have hgeo := geo_le_lowerBound I
  obtain ⟨hc1, hc2⟩ := geo_isCeil I hv
  have hb : 0 < I.W * I.H := by
    obtain ⟨hW, _, hH, _⟩ := hv
    exact Int.mul_pos (by omega) (by omega)
  have hk : sp.minBins ≤ I.lowerBoundGeo := by
    by_contra hlt
    have hlt' : I.lowerBoundGeo ≤ sp.minBins - 1 := by omega
    have : I.lowerBoundGeo * (I.W * I.H) ≤ (sp.minBins - 1) * (I.W * I.H) :=
      Int.mul_le_mul_of_nonneg_right hlt' (by omega)
    omega
  omega

end InstGen
