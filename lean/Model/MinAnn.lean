/-!
# C16 (part B) — the minimising-network controllers of `controllers/min_ann.py`

All six kernels `__min_ann_{2,3}d_1o_{1,2,3}` share one search skeleton and differ only in the
function `f(z)` that is minimised (a one-hidden-layer network of the state and the extra input
`z`).  The model is the skeleton, statement by statement, over an arbitrary carrier `K` whose
operations are passed in (`Num K`): `+ - * /`, `<`, and the two calls `np.nextafter(x, inf)`,
`np.nextafter(x, -inf)` as *opaque* functions `up`, `dn`.  The three data-dependent `while` loops
get fuel (`none` = fuel exhausted); the numeric literals of the source are the fields of
`Consts K`, so that the "search interval read from the code" is `[C.lo, C.hi]`.

`evals` is a ghost field: the list of all points at which `f` was evaluated, in order.

No Mathlib.
-/
namespace MinAnn

/-- the arithmetic the kernels are run with -/
structure Num (K : Type) where
  add : K → K → K
  sub : K → K → K
  mul : K → K → K
  div : K → K → K
  lt : K → K → Bool
  /-- `np.nextafter(x, inf)` -/
  up : K → K
  /-- `np.nextafter(x, -inf)` -/
  dn : K → K

/-- the literals of the source -/
structure Consts (K : Type) where
  /-- `x_best: float = 0.0` — the first estimate -/
  x0 : K
  /-- `x_low = x_a = -1000.0` -/
  lo : K
  /-- `x_c = x_b = -990.0` -/
  lo2 : K
  /-- `while x_b < 1000.0` -/
  hi : K
  /-- `x_c = x_b + 10.0` -/
  step : K
  /-- `while delta > 1e-12` -/
  tol : K
  /-- `PHI = 0.5 * (np.sqrt(5.0) + 1.0)` -/
  phi : K

/-- the float locals of a kernel (`x_high` is always assigned immediately before its use and is
a parameter of `golden` instead) plus the ghost trace -/
structure S (K : Type) where
  xBest : K
  fBest : K
  xA : K
  fA : K
  xB : K
  fB : K
  xC : K
  fC : K
  xLow : K
  evals : List K

variable {K : Type}

/-- `f_x = f(x); if f_x < f_best: x_best = x; f_best = f_x` -/
def consider (N : Num K) (f : K → K) (st : S K) (x : K) : S K × K :=
  let fx := f x
  let st := { st with evals := st.evals ++ [x] }
  if N.lt fx st.fBest then ({ st with xBest := x, fBest := fx }, fx) else (st, fx)

/-- the statements before the outer loop -/
def init (N : Num K) (C : Consts K) (f : K → K) : S K :=
  -- x_best = 0.0; f_best = f(x_best)
  let f0 := f C.x0
  let st0 : S K := { xBest := C.x0, fBest := f0, xA := C.lo, fA := f0, xB := C.lo2, fB := f0,
                     xC := C.lo2, fC := f0, xLow := C.lo, evals := [C.x0] }
  -- x_low = x_a = -1000.0; f_a = f(x_a); if f_a < f_best: …
  let r1 := consider N f st0 C.lo
  let st1 : S K := { r1.1 with fA := r1.2 }
  -- x_c = x_b = -990.0; f_c = f_b = f(x_b); if f_b < f_best: …
  let r2 := consider N f st1 C.lo2
  { r2.1 with fB := r2.2, fC := r2.2 }

/-- `while x_b < 1000.0: …` ; returns the state and `found_bracket` -/
def bracket (N : Num K) (C : Consts K) (f : K → K) : Nat → S K → Option (S K × Bool)
  | 0, _ => none
  | fuel + 1, st =>
    if N.lt st.xB C.hi then
      let xc := N.add st.xB C.step
      let r := consider N f st xc
      let st1 : S K := { r.1 with xC := xc, fC := r.2 }
      -- if (f_c > f_b) and (f_b < f_a): found; break
      if N.lt st1.fB r.2 && N.lt st1.fB st1.fA then some (st1, true)
      else bracket N C f fuel { st1 with xA := st1.xB, fA := st1.fB, xB := xc, fB := r.2 }
    else some (st, false)

/-- `delta = x_high - x_low; while delta > 1e-12: …` -/
def golden (N : Num K) (C : Consts K) (f : K → K) : Nat → S K → K → Option (S K)
  | 0, _, _ => none
  | fuel + 1, st, xHigh =>
    let delta := N.sub xHigh st.xLow
    if N.lt C.tol delta then
      let delta := N.div delta C.phi
      let xcc := N.sub xHigh delta
      let r1 := consider N f st xcc
      let xdd := N.add r1.1.xLow delta
      let r2 := consider N f r1.1 xdd
      if N.lt r1.2 r2.2 then golden N C f fuel r2.1 (N.dn xdd)
      else golden N C f fuel { r2.1 with xLow := N.up xcc } xHigh
    else some st

/-- `while found_bracket: …` (`ever` = `ever_found_backet` at the loop head) -/
def outer (N : Num K) (C : Consts K) (f : K → K) (fuel2 : Nat) : Nat → S K → Bool → Option (S K)
  | 0, _, _ => none
  | fuel + 1, st, ever =>
    (bracket N C f fuel2 st).bind fun (st, found) =>
      if found then
        -- x_low = nextafter(x_a, inf); x_high = nextafter(x_c, -inf); golden; shift; again
        (golden N C f fuel2 { st with xLow := N.up st.xA } (N.dn st.xC)).bind fun st =>
          outer N C f fuel2 fuel { st with xA := st.xB, fA := st.fB, xB := st.xC, fB := st.fC } true
      else if ever then some st           -- `elif ever_found_backet: break`
      else
        -- x_high = x_c ; golden over everything ; shift ; loop condition is false
        (golden N C f fuel2 st st.xC).map fun st =>
          { st with xA := st.xB, fA := st.fB, xB := st.xC, fB := st.fC }

/-- the whole kernel for objective `f`; `out[0] = x_best` is `(·.xBest)` of the result -/
def minAnn (N : Num K) (C : Consts K) (f : K → K) (fuel : Nat) : Option (S K) :=
  outer N C f fuel fuel (init N C f) false

/-! ## the objective functions of the six kernels -/

/-- `(state * params[off : off + sd]).sum()` (checked reads) -/
def inSum (N : Num K) (state params : List K) (off : Nat) : Option K :=
  match state with
  | [] => none
  | s0 :: ss => do
    let p0 ← params[off]?
    let rec go (acc : K) (i : Nat) : List K → Option K
      | [] => some acc
      | s :: ss => do
        let p ← params[i]?
        go (N.add acc (N.mul s p)) (i + 1) ss
    go (N.mul s0 p0) (off + 1) ss

/-- one hidden node, kernels `_1`: parameters `w₀ … w_{sd-1}, x_sd`;
`f(z) = arctan(hl_1_1_in + x_sd * z)` -/
def objective1 (N : Num K) (act : K → K) (state params : List K) : Option (K → K) := do
  let sd := state.length
  let a ← inSum N state params 0
  let xw ← params[sd]?
  some fun z => act (N.add a (N.mul xw z))

/-- `n ≥ 2` hidden nodes, kernels `_2`, `_3`: node `j` owns `params[j(sd+2) …]` =
`sd` weights, the weight of `z`, the bias; the `n` output weights follow.
`f(z) = hl_1_1 * x_o1 + hl_1_2 * x_o2 (+ hl_1_3 * x_o3)`,
`hl_1_j = arctan(hl_1_j_in + x_w * z + x_b)` -/
def objectiveN (N : Num K) (act : K → K) (n : Nat) (state params : List K) : Option (K → K) := do
  let sd := state.length
  let nodes ← (List.range n).mapM fun j => do
    let a ← inSum N state params (j * (sd + 2))
    let xw ← params[j * (sd + 2) + sd]?
    let xb ← params[j * (sd + 2) + sd + 1]?
    let ow ← params[n * (sd + 2) + j]?
    some (a, xw, xb, ow)
  match nodes with
  | [] => none
  | (a, xw, xb, ow) :: rest =>
    some fun z =>
      let h := fun (a xw xb : K) => act (N.add (N.add a (N.mul xw z)) xb)
      rest.foldl (fun acc (a, xw, xb, ow) => N.add acc (N.mul (h a xw xb) ow))
        (N.mul (h a xw xb) ow)

def objective (N : Num K) (act : K → K) (n : Nat) (state params : List K) : Option (K → K) :=
  if n = 1 then objective1 N act state params else objectiveN N act n state params

/-- `Controller("min_ann_n", sd, 1, paramDims, …)` as listed in `min_anns` -/
def paramDims (n sd : Nat) : Nat := if n = 1 then sd + 1 else n * (sd + 3)

/-! ## the executable instance used by the driver: exact rationals -/

/-- exact arithmetic on `Rat`; `nextafter(x, ±inf)` is replaced by `x ± eps` -/
def ratNum (eps : Rat) : Num Rat :=
  ⟨(· + ·), (· - ·), (· * ·), (· / ·), fun a b => decide (a < b), (· + eps), (· - eps)⟩

/-- the literals of `min_ann.py` (`0.0`, `-1000.0`, `-990.0`, `1000.0`, `10.0`); `1e-12` and `PHI`
are binary64 values and are passed in exactly -/
def ratConsts (tol phi : Rat) : Consts Rat :=
  { x0 := 0, lo := -1000, lo2 := -990, hi := 1000, step := 10, tol := tol, phi := phi }

end MinAnn
