import Model.Tsp
/-!
C06 — model of `moptipyapps/tsp/ea1p1_revn.py` (`rev_if_not_worse`, `TSPEA1p1revn.solve`) and
`moptipyapps/tsp/fea1p1_revn.py` (`rev_if_h_not_worse`, `TSPFEA1p1revn.solve`).

Tours are `List Nat` (as in `Model/Tsp.lean`), the frequency table `h` is an `Array Int`.
Every array read/write goes through a checked accessor (`none` = access outside the array).
The negative index the kernels rely on (`x[i-1]` for `i = 0`) and the index of `h`
(an arbitrary machine integer, which numba wraps when negative) go through `wrapIdx`.
The random stream (the shuffled start tour and the drawn index pairs) is an *input*.
-/
namespace TspEa
open Tsp

/-- numpy/numba index normalisation on an axis of length `len`: negative indices wrap once -/
def wrapIdx (len : Nat) (k : Int) : Option Nat :=
  if 0 ≤ k then (if k < len then some k.toNat else none)
  else if 0 ≤ k + len then some (k + len).toNat else none

/-- checked `x[k]` with negative wrap -/
def getW? (x : List Nat) (k : Int) : Option Nat := (wrapIdx x.length k).bind (x[·]?)

/-! ### the in-place slice reversal (the code's two forms) -/

/-- `x[0:j+1:1] = x[j::-1]` (slices clip at the array end) -/
def slice0 (x : List Nat) (j : Nat) : List Nat := (x.take (j + 1)).reverse ++ x.drop (j + 1)

/-- `x[i:j+1:1] = x[j:i-1:-1]` for `i > 0`; both slices are empty when `j < i` -/
def sliceI (x : List Nat) (i j : Nat) : List Nat :=
  if i ≤ j then x.take i ++ ((x.take (j + 1)).drop i).reverse ++ x.drop (j + 1) else x

/-- `if i == 0: … else: …` -/
def applyRev (x : List Nat) (i j : Nat) : List Nat := if i = 0 then slice0 x j else sliceI x i j

/-- the O(1) change of the tour length: reads `x[i]`, `x[i-1]` (wraps for `i = 0`), `x[j]`,
`x[(j+1) % n_cities]` and four matrix entries, in the order of the code -/
def delta? (i j n : Nat) (d : Matrix) (x : List Nat) : Option Int := do
  let xi ← x[i]?
  let xim1 ← getW? x ((i : Int) - 1)
  let xj ← x[j]?
  if n = 0 then none else      -- `% 0`
  let xjp1 ← x[(j + 1) % n]?
  let a ← entry? d xim1 xj
  let b ← entry? d xi xjp1
  let c ← entry? d xim1 xi
  let e ← entry? d xj xjp1
  pure (a + b - c - e)

/-- `rev_if_not_worse(i, j, n_cities, dist, x, y)`: result = (x after the call, returned y) -/
def revIfNotWorse? (i j n : Nat) (d : Matrix) (x : List Nat) (y : Int) : Option (List Nat × Int) := do
  let dy ← delta? i j n d x
  if dy ≤ 0 then pure (applyRev x i j, y + dy) else pure (x, y)

/-! ### frequency table -/

/-- `h[k] += 1` -/
def hInc? (h : Array Int) (k : Int) : Option (Array Int) :=
  (wrapIdx h.size k).map fun p => h.modify p (· + 1)

/-- `h[k]` -/
def hGet? (h : Array Int) (k : Int) : Option Int := (wrapIdx h.size k).bind (h[·]?)

/-- what one call of the FEA kernel leaves behind: table, tour, returned length, and the two
indices it used on `h` (as machine integers, before any wrap) -/
structure FOut where
  h : Array Int
  x : List Nat
  y : Int
  idx1 : Int
  idx2 : Int

/-- `rev_if_h_not_worse(i, j, n_cities, dist, h, x, y)` -/
def revIfHNotWorse? (i j n : Nat) (d : Matrix) (h : Array Int) (x : List Nat) (y : Int) :
    Option FOut := do
  let dy ← delta? i j n d x
  let y2 := y + dy
  let h1 ← hInc? h y
  let h2 ← hInc? h1 y2
  let hy2 ← hGet? h2 y2
  let hy ← hGet? h2 y
  if hy2 ≤ hy then pure ⟨h2, applyRev x i j, y2, y, y2⟩ else pure ⟨h2, x, y, y, y2⟩

/-! ### the `solve` loops -/

/-- `if i > j: i, j = j, i` then `if (i == j) or ((i == 0) and (j == nm2)): continue`;
`none` = the iteration is skipped -/
def normMove (n a b : Nat) : Option (Nat × Nat) :=
  let i := if a > b then b else a
  let j := if a > b then a else b
  if i = j ∨ (i = 0 ∧ (j : Int) = (n : Int) - 2) then none else some (i, j)

/-- the EA's `while` loop over the drawn pairs; the result is the list of `register(x, y)` calls -/
def eaLoop? (n : Nat) (d : Matrix) : List (Nat × Nat) → List Nat → Int → Option (List (List Nat × Int))
  | [], _, _ => some []
  | (a, b) :: ms, x, y =>
    match normMove n a b with
    | none => eaLoop? n d ms x y
    | some (i, j) =>
      match revIfNotWorse? i j n d x y with
      | none => none
      | some (x', y') => (eaLoop? n d ms x' y').map ((x', y') :: ·)

/-- `TSPEA1p1revn.solve`: `x0` = the tour after `random.shuffle`, `y = process.evaluate(x)` with the
tour-length objective, then the loop -/
def eaSolve? (n : Nat) (d : Matrix) (x0 : List Nat) (moves : List (Nat × Nat)) :
    Option (List (List Nat × Int)) := do
  let y0 ← tourLen? d x0
  eaLoop? n d moves x0 y0

/-- one `register` call of the FEA together with the `h` indices the kernel call before it used -/
structure FReg where
  x : List Nat
  y : Int
  idx1 : Int
  idx2 : Int

/-- the FEA's `while` loop: (register trace, final table, final y) -/
def feaLoop? (n : Nat) (d : Matrix) :
    List (Nat × Nat) → Array Int → List Nat → Int → Option (List FReg × Array Int × Int)
  | [], h, _, y => some ([], h, y)
  | (a, b) :: ms, h, x, y =>
    match normMove n a b with
    | none => feaLoop? n d ms h x y
    | some (i, j) =>
      match revIfHNotWorse? i j n d h x y with
      | none => none
      | some o => (feaLoop? n d ms o.h o.x o.y).map fun (tr, hf, yf) => (⟨o.x, o.y, o.idx1, o.idx2⟩ :: tr, hf, yf)

/-- result of the FEA's `solve` with `do_log_h`: the register trace, the logged table and the index
used by the final `if h[y] == 0: h[y] = 1` -/
structure FeaOut where
  trace : List FReg
  h : Array Int
  lastIdx : Int

/-- the end of `solve` with `do_log_h`: `if h[y] == 0: h[y] = 1` -/
def logFix? (h : Array Int) (y : Int) : Option (Array Int) :=
  match hGet? h y with
  | none => none
  | some hy => if hy = 0 then (wrapIdx h.size y).map (fun p => h.set! p 1) else some h

/-- `TSPFEA1p1revn.solve` (`h = zeros(ub + 1)`) -/
def feaSolve? (n : Nat) (d : Matrix) (ub : Int) (x0 : List Nat) (moves : List (Nat × Nat)) :
    Option FeaOut :=
  if ub + 1 < 0 then none else     -- `np.zeros` of a negative length raises
  match tourLen? d x0 with
  | none => none
  | some y0 =>
    match feaLoop? n d moves (Array.replicate (ub + 1).toNat 0) x0 y0 with
    | none => none
    | some (tr, h, y) => (logFix? h y).map fun h' => ⟨tr, h', y⟩

/-! ### Specification (the property's vocabulary; does not look like the code) -/

/-- the tour with the segment between positions `i` and `j` (inclusive) reversed:
position `k` of the new tour holds the city of position `i + j - k` if `i ≤ k ≤ j`, else of `k` -/
def revSpec (x : List Nat) (i j : Nat) : List Nat :=
  (List.range x.length).map fun k => if i ≤ k ∧ k ≤ j then x.getD (i + j - k) 0 else x.getD k 0

/-- symmetric matrix (on the cities `0..n-1`) -/
def Symmetric (d : Matrix) (n : Nat) : Prop := ∀ a < n, ∀ b < n, entry d a b = entry d b a

/-- what the property demands of one registered pair: a permutation of the cities together with its
documented tour length (the cyclic edge sum of C05) -/
def TrueReg (d : Matrix) (n : Nat) (x : List Nat) (y : Int) : Prop := IsPerm x n ∧ y = cyclicSum d x

/-- the values a generator's `integers(n-1)` can return -/
def MovesInRange (n : Nat) (moves : List (Nat × Nat)) : Prop := ∀ m ∈ moves, m.1 + 1 < n ∧ m.2 + 1 < n

end TspEa
