/-!
# Arithmetic interface of the translated float kernels (C16, part A; no Mathlib)

The njit kernels of `dynamic_control/controllers/*.py` and `systems/*.py` are straight-line
float code.  `harness/translate/py2lean.py` turns each of them into a Lean definition that is
generic over a carrier `K` and an operation table `Ops K`:

* in `Proofs/`/`Props/` the table is instantiated from a Mathlib linear ordered field
  (`Controllers.fieldOps`), the transcendental functions staying *abstract* symbols, and the
  theorems are proved for every such field (ℚ, ℝ, …);
* in the driver it is instantiated with Lean core's exact rationals `Rat` and rational *test
  functions* for `exp`, `arctan`, … (`ratOps`), which gives the exact correspondence channel, and
  with binary64 `Float` and the libm functions (`floatOps`), which gives the tolerance channel.

IEEE rounding is *not* modelled: the kernels are modelled as the real/rational functions they
denote (DESIGN.md 2.2 (i)).
-/
namespace Arith

/-- The operations a translated kernel may use. -/
structure Ops (K : Type) where
  add : K → K → K
  sub : K → K → K
  mul : K → K → K
  div : K → K → K
  neg : K → K
  /-- a decimal literal of the source, read exactly: `ofRat n d` is `n / d` -/
  ofRat : Int → Nat → K
  lt : K → K → Bool
  le : K → K → Bool
  eq : K → K → Bool
  /-- `math.pi` -/
  pi : K
  exp : K → K
  arctan : K → K
  tanh : K → K
  sin : K → K
  cos : K → K

variable {K : Type}

/-- `x ** n` for a literal natural exponent `n` (`x ** 2.0` in the partially linear kernels). -/
def Ops.powN (o : Ops K) (x : K) : Nat → K
  | 0 => o.ofRat 1 1
  | 1 => x
  | n + 2 => o.mul (o.powN x (n + 1)) x

/-- the store `a[i] = v` on an array seen as a function of the index -/
def upd (a : Nat → K) (i : Nat) (v : K) : Nat → K := fun j => if j = i then v else a j

/-- an array given as a list (used by the driver; `z` is never read when the index sets of
`Gen` are inside the list, which the driver checks first and answers `OOB` otherwise) -/
def ofList (z : K) (l : List K) : Nat → K := fun i => l.getD i z

/-- the signature shared by controllers `(state, time, params, out)` and system equations
`(state, time, control, out)`; the result is the new content of `out` -/
abbrev Kernel (K : Type) := (Nat → K) → K → (Nat → K) → (Nat → K) → (Nat → K)

/-- what the translator records about one kernel: the literal indices it uses per array -/
structure KernelInfo where
  name : String
  stateIdx : List Nat
  /-- indices used on the third argument (`params` of a controller, `control` of a system) -/
  argIdx : List Nat
  outIdx : List Nat
  /-- does the kernel read the time argument? -/
  usesTime : Bool
  deriving Repr, DecidableEq

/-- one `Controller(name, state_dims, control_dims, param_dims, func)` call of a factory -/
structure ControllerReg where
  factory : String
  name : String
  stateDims : Nat
  controlDims : Nat
  paramDims : Nat
  kernel : String
  deriving Repr, DecidableEq

/-- one `System(name, state_dims, control_dims, …)` construction plus its `.equations = f` -/
structure SystemReg where
  factory : String
  name : String
  stateDims : Nat
  controlDims : Nat
  kernel : String
  deriving Repr, DecidableEq

/-- every index of `l` is below `n` -/
def allBelow (l : List Nat) (n : Nat) : Bool := l.all (· < n)

end Arith
