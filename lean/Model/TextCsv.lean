import Model.Text
/-!
# C19 — text forms (part 2): CSV tables of `PackingResult` and `PackingStatistics`

Modelled code (`/repo` after fix d4ceaa2): `binpacking2d/packing_result.py` and
`binpacking2d/packing_statistics.py`: `to_csv`, `from_csv`, `CsvWriter.setup/get_column_titles/get_row`,
`CsvReader.__init__/parse_row` and the constructors `PackingResult.__init__` / `PackingStatistics.__init__`
(the validation they perform on what the reader hands them), on top of models of the pycommons helpers
`csv_scope`, `csv_column`, `csv_select_scope`, `csv_write` (row trimming) and `csv_read` (header → column
dictionary, row padding).

A table is a header (list of column titles) and rows (lists of cells); the rendering of cells to
characters (`;`-joined lines, `#` comments) is pycommons and not modelled: cells are `Str`.

Opaque library parts (parameters): the embedded moptipy record codecs — `EndResult` (`ErCodec`),
`EndStatistics` and `SampleStatistics` (`SsCodec`).  A codec gives the writer's titles and cells for a data
set, the set of titles its reader asks the column dictionary for (and removes from it) and the reader as a
function of "title ↦ cell of that column".  The round-trip theorems assume `Codec.RoundTrips`.

Objective values and bounds are integers here (`num_to_str`/`str_to_num` on `int`; all seven shipped
objectives are integer valued); float-valued objectives would need the pycommons float codec (assumption).
-/
namespace Csv
open Text

/-- the `columns` dictionary of `csv_read`: title ↦ index, in header order -/
abbrev Cols := List (Str × Nat)

/-! ## string constants -/
def sLower : Str := "lowerBound".toList
def sUpper : Str := "upperBound".toList
/-- `LOWER_BOUNDS_BIN_COUNT = csv_scope("bins", "lowerBound")` -/
def sBinsLB : Str := "bins.lowerBound".toList
def sBinCount : Str := "binCount".toList
def kBinHeight : Str := "binHeight".toList
def kBinWidth : Str := "binWidth".toList
def kNItems : Str := "nItems".toList
def kNDiff : Str := "nDifferentItems".toList
def fixedTitles : List Str := [kBinHeight, kBinWidth, kNItems, kNDiff]

/-! ## pycommons helpers -/

/-- `csv_scope(scope, key)` for a non-empty scope and key -/
def scopeKey (scope key : Str) : Str := scope ++ '.' :: key

/-- `sorted(set(keys))`: strictly increasing list of the distinct keys (code point order) -/
def insKey (k : Str) : List Str → List Str
  | [] => [k]
  | a :: l => if k < a then k :: a :: l else if a < k then a :: insKey k l else a :: l
def sortedSet (l : List Str) : List Str := l.foldr insKey []

/-- `sorted((k, v) for k, v in x.items())` (keys of a dict are distinct: order by key) -/
def insPair (p : Str × Nat) : List (Str × Nat) → List (Str × Nat)
  | [] => [p]
  | a :: l => if a.1 < p.1 then a :: insPair p l else p :: a :: l
def sortPairs (l : List (Str × Nat)) : List (Str × Nat) := l.foldr insPair []

/-- `csv_column(columns, key)`: the index, and the dictionary without that column; `none` = `KeyError` -/
def csvColumn (cols : Cols) (key : Str) : Option (Nat × Cols) :=
  (cols.lookup key).map (fun i => (i, cols.filter (fun c => c.1 != key)))

/-- the key under which `csv_select_scope` passes on a column of scope `sc`: the part after `sc.`, or the
scope itself; `none` = not in the scope -/
def scopeUse (sc k : Str) : Option Str :=
  if (sc ++ ['.']).isPrefixOf k then some (k.drop (sc.length + 1)) else if k = sc then some k else none

/-- `csv_select_scope(conv, columns, scope, skip_orig_key=skip)` with `remove_cols=True`,
`include_scope=True`: the selected `(use_key, index)` pairs in dictionary order and the remaining
dictionary; `none` = "Did not find sufficient data" -/
def csvSelectScope (cols : Cols) (scope : Option Str) (skip : Str → Bool) :
    Option (List (Str × Nat) × Cols) :=
  let sel := cols.filter (fun c => !skip c.1)
  let sel2 : List (Str × Str × Nat) := match scope with
    | none => sel.map (fun c => (c.1, c.1, c.2))
    | some sc => sel.filterMap (fun c => (scopeUse sc c.1).map (fun u => (c.1, u, c.2)))
  if sel2.isEmpty then none else
  some (sel2.map (fun t => (t.2.1, t.2.2)), cols.filter (fun c => !(sel2.map (·.1)).contains c.1))

/-- `csv_write`: cells after the last non-empty one are dropped -/
def trimRow (cells : List Str) : List Str := (cells.reverse.dropWhile (· = [])).reverse

/-- `csv_read`: rows shorter than the header are padded with empty cells, longer ones are an error -/
def padRow (n : Nat) (cells : List Str) : Option (List Str) :=
  if cells.length > n then none else some (cells ++ List.replicate (n - cells.length) [])

/-- `csv_read`: the column dictionary of a header; `none` = "Invalid column headers" -/
def colsOf (header : List Str) : Option Cols :=
  if header.isEmpty || header.any (· = []) || !decide header.Nodup then none else some header.zipIdx

/-- a table as `csv_write` produces and `csv_read` consumes it (comments and blank lines dropped) -/
structure Table where
  header : List Str
  rows : List (List Str)
  deriving DecidableEq, Repr

/-! ## embedded library codecs (opaque) -/

/-- the CSV codec of an embedded moptipy record type `R` -/
structure Codec (R : Type) where
  /-- `CsvWriter().setup(data).get_column_titles()` -/
  titles : List R → List Str
  /-- `get_row(record)` after `setup(data)` -/
  row : List R → R → List Str
  /-- every title the reader asks the dictionary for (mandatory or optional); they are removed from it -/
  keys : List Str
  /-- `CsvReader(columns).parse_row(data)` as a function of "title ↦ cell" on `keys`
  (`none` for a column that does not exist); `none` = raises -/
  read : (Str → Option Str) → Option R

/-- the assumption on an embedded codec: titles are distinct and all asked for by its reader, rows are
as long as the titles, and the reader returns the record from any row that shows, under each of the
writer's titles, the writer's cell (and nothing under the reader's other titles) -/
structure Codec.RoundTrips {R : Type} (C : Codec R) (data : List R) : Prop where
  nodup : (C.titles data).Nodup
  sub : ∀ t ∈ C.titles data, t ∈ C.keys
  len : ∀ r ∈ data, (C.row data r).length = (C.titles data).length
  back : ∀ r ∈ data, ∀ f : Str → Option Str,
    (∀ p ∈ (C.titles data).zip (C.row data r), f p.1 = some p.2) →
    (∀ k ∈ C.keys, k ∉ C.titles data → f k = none) → C.read f = some r

/-! ## integer cells -/

/-- `repr(int)` / `num_to_str(int)` or the empty cell -/
def cellOpt : Option Int → Str
  | some v => showInt v
  | none => []

/-- the dict comprehensions of `parse_row`: `{n: conv(data[i]) for n, i in cols if len(data[i]) > 0}`;
`none` = `int`/`str_to_num` raises (or `IndexError`) -/
def readMap (data : List Str) : List (Str × Nat) → Option (List (Str × Int))
  | [] => some []
  | (k, i) :: rest =>
    match data[i]? with
    | none => none
    | some c =>
      if c = [] then readMap data rest else
      match parseInt? c with
      | none => none
      | some v => (readMap data rest).map ((k, v) :: ·)

/-- the same without the blank test (`packing_statistics.py:parse_row`) -/
def readMapStrict (data : List Str) : List (Str × Nat) → Option (List (Str × Int))
  | [] => some []
  | (k, i) :: rest =>
    match data[i]? with
    | none => none
    | some c =>
      match parseInt? c with
      | none => none
      | some v => (readMapStrict data rest).map ((k, v) :: ·)

def readInt (data : List Str) (i : Nat) : Option Int := (data[i]?).bind parseInt?

/-! ## `PackingResult` -/

/-- a `PackingResult`; the three mappings as association lists sorted by key (canonical form of a
Python mapping) -/
structure PRec (ER : Type) where
  er : ER
  nItems : Int
  nDiff : Int
  binW : Int
  binH : Int
  objectives : List (Str × Int)
  objBounds : List (Str × Int)
  binBounds : List (Str × Int)

/-- accessors of the embedded end result used by the constructor's consistency check -/
structure ErView (ER : Type) where
  objective : ER → Str
  bestF : ER → Int

/-- strictly increasing keys -/
def SortedKeys {β : Type} (m : List (Str × β)) : Prop := (m.map (·.1)).Pairwise (· < ·)

instance {β : Type} (m : List (Str × β)) : Decidable (SortedKeys m) := by unfold SortedKeys; infer_instance

/-- what `PackingResult.__init__` checks (type checks aside), in the order of the code: `best_f` is the
value of the optimised objective (`KeyError` if that objective is missing); two bounds per objective;
`lower ≤ value ≤ upper` for every objective (`KeyError` if a bound is missing); bin bounds in `1..1e9` and
not above the bin count; the four instance numbers in range -/
def PRec.okB {ER : Type} (V : ErView ER) (r : PRec ER) : Bool :=
  decide (r.objectives.lookup (V.objective r.er) = some (V.bestF r.er)) &&
  decide (r.objBounds.length = 2 * r.objectives.length) &&
  r.objectives.all (fun p =>
    match r.objBounds.lookup (scopeKey p.1 sLower), r.objBounds.lookup (scopeKey p.1 sUpper) with
    | some lo, some hi => decide (lo ≤ p.2) && decide (p.2 ≤ hi)
    | _, _ => false) &&
  r.binBounds.all (fun b => decide (1 ≤ b.2) && decide (b.2 ≤ 1000000000) &&
    (match r.objectives.lookup sBinCount with
     | some bins => decide (b.2 ≤ bins)
     | none => true)) &&
  decide (1 ≤ r.nDiff) && decide (r.nDiff ≤ 1000000000000) &&
  decide (r.nDiff ≤ r.nItems) && decide (r.nItems ≤ 1000000000000) &&
  decide (1 ≤ r.binW) && decide (r.binW ≤ 1000000000000) &&
  decide (1 ≤ r.binH) && decide (r.binH ≤ 1000000000000)

def PRec.Ok {ER : Type} (V : ErView ER) (r : PRec ER) : Prop := r.okB V = true

instance {ER : Type} (V : ErView ER) (r : PRec ER) : Decidable (r.Ok V) := by
  unfold PRec.Ok; infer_instance

/-- `PackingResult(...)`: `none` = the constructor raises -/
def mkPRec {ER : Type} (V : ErView ER) (r : PRec ER) : Option (PRec ER) := if r.Ok V then some r else none

section writer
variable {ER : Type} (C : Codec ER)

/-- `CsvWriter.setup`: sorted union of the bin-bound keys / of the objective names -/
def bbKeys (rs : List (PRec ER)) : List Str := sortedSet (rs.flatMap (fun r => r.binBounds.map (·.1)))
def objKeys (rs : List (PRec ER)) : List Str := sortedSet (rs.flatMap (fun r => r.objectives.map (·.1)))

def objTitles (o : Str) : List Str := [scopeKey o sLower, o, scopeKey o sUpper]

/-- `CsvWriter.get_column_titles` -/
def prHeader (rs : List (PRec ER)) : List Str :=
  C.titles (rs.map (·.er)) ++ fixedTitles ++ bbKeys rs ++ (objKeys rs).flatMap objTitles

def prObjCells (r : PRec ER) (o : Str) : List Str :=
  [cellOpt (r.objBounds.lookup (scopeKey o sLower)), cellOpt (r.objectives.lookup o),
   cellOpt (r.objBounds.lookup (scopeKey o sUpper))]

/-- `CsvWriter.get_row` -/
def prRow (rs : List (PRec ER)) (r : PRec ER) : List Str :=
  C.row (rs.map (·.er)) r.er ++ [showInt r.binH, showInt r.binW, showInt r.nItems, showInt r.nDiff]
    ++ (bbKeys rs).map (fun k => cellOpt (r.binBounds.lookup k))
    ++ (objKeys rs).flatMap (prObjCells r)

/-- `csv_write(data, setup, column_titles, get_row)` (data already in file order); `none` = raises
("Cannot have zero columns", "Invalid column title", "Cannot have duplicated columns") -/
def prWrite (rs : List (PRec ER)) : Option Table :=
  if (colsOf (prHeader C rs)).isSome then
    some ⟨prHeader C rs, rs.map (fun r => trimRow (prRow C rs r))⟩
  else none
end writer

/-- does the key end with `lowerBound` or `upperBound`? -/
def isBoundKey (s : Str) : Bool := sLower.isSuffixOf s || sUpper.isSuffixOf s

/-! ## the domain of names -/

def sBins : Str := "bins".toList

/-- objective names the table layout can carry: non-empty, no scope separator, not the scope `bins` of the
bin bounds, and not themselves ending in `lowerBound`/`upperBound` (all seven shipped objective names) -/
def ObjName (o : Str) : Prop := o ≠ [] ∧ '.' ∉ o ∧ o ≠ sBins ∧ isBoundKey o = false

instance (o : Str) : Decidable (ObjName o) := by unfold ObjName; infer_instance

/-- bin-bound keys the reader finds again: `bins.lowerBound` itself or a key inside that scope
(the three `_DEFAULT_BOUNDS` keys; `bins.lowerBound.bins.lowerBound` would collide after re-scoping) -/
def BBKey (k : Str) : Prop :=
  k = sBinsLB ∨ ((sBinsLB ++ ['.']).isPrefixOf k = true ∧ k.drop (sBinsLB.length + 1) ≠ sBinsLB)

instance (k : Str) : Decidable (BBKey k) := by unfold BBKey; infer_instance

/-- the objective names the reader derives from the bound columns:
`sorted({s[0] for s in (k.split(".") for k in bounds) if len(s) > 1 and len(s[0]) > 0})` -/
def namesOfBounds (ob : List (Str × Nat)) : List Str :=
  sortedSet (ob.filterMap (fun kv =>
    match splitSep '.' kv.1 with
    | s0 :: _ :: _ => if s0 = [] then none else some s0
    | _ => none))

/-- `csv_column` for a list of keys, threading the dictionary -/
def csvColumns (cols : Cols) : List Str → Option (List (Str × Nat) × Cols)
  | [] => some ([], cols)
  | k :: ks =>
    match csvColumn cols k with
    | none => none
    | some (i, cols') => (csvColumns cols' ks).map (fun r => ((k, i) :: r.1, r.2))

/-- the state of `packing_result.CsvReader` after `__init__` -/
structure PRReader where
  erCols : Cols
  iN : Nat
  iD : Nat
  iW : Nat
  iH : Nat
  bb : List (Str × Nat)
  ob : List (Str × Nat)
  objs : List (Str × Nat)
  deriving Repr

/-- re-scoping of the selected bin-bound keys (fix d4ceaa2) -/
def rescope (k : Str) : Str := if k = sBinsLB then k else scopeKey sBinsLB k

/-- the first half of both `CsvReader.__init__` (the same statements in `packing_result.py` and
`packing_statistics.py`): the embedded reader takes its columns, then the four instance columns, then the
bin-bound columns (re-scoped, sorted) are taken out of the dictionary -/
structure CommonReader where
  erCols : Cols
  iN : Nat
  iD : Nat
  iW : Nat
  iH : Nat
  bb : List (Str × Nat)
  rest : Cols
  deriving Repr

def setupCommon (keys : List Str) (cols : Cols) : Option CommonReader :=
  let erCols := cols.filter (fun c => keys.contains c.1)
  let cols := cols.filter (fun c => !keys.contains c.1)
  match csvColumn cols kNItems with
  | none => none
  | some (iN, cols) =>
  match csvColumn cols kNDiff with
  | none => none
  | some (iD, cols) =>
  match csvColumn cols kBinWidth with
  | none => none
  | some (iW, cols) =>
  match csvColumn cols kBinHeight with
  | none => none
  | some (iH, cols) =>
  match csvSelectScope cols (some sBinsLB) (fun _ => false) with
  | none => none
  | some (bbSel, cols) =>
    some ⟨erCols, iN, iD, iW, iH, sortPairs (bbSel.map (fun p => (rescope p.1, p.2))), cols⟩

/-- the objective-bound columns: `csv_select_scope(.., columns, None, skip_orig_key=not endswith(bounds))`,
sorted; their number must be positive and even -/
def setupBounds (cols : Cols) : Option (List (Str × Nat) × Cols) :=
  match csvSelectScope cols none (fun s => !isBoundKey s) with
  | none => none
  | some (obSel, cols) =>
    let ob := sortPairs obSel
    if ob.length % 2 ≠ 0 then none else some (ob, cols)

/-- `packing_result.CsvReader.__init__(columns)`; `keys` = the titles the embedded reader removes -/
def prSetup (keys : List Str) (cols : Cols) : Option PRReader :=
  match setupCommon keys cols with
  | none => none
  | some c =>
  match setupBounds c.rest with
  | none => none
  | some (ob, cols) =>
  match csvColumns cols (namesOfBounds ob) with
  | none => none
  | some (objs, _) =>
    if objs.isEmpty || 2 * objs.length ≠ ob.length then none else
    some ⟨c.erCols, c.iN, c.iD, c.iW, c.iH, c.bb, ob, objs⟩

section reader
variable {ER : Type} (C : Codec ER) (V : ErView ER)

/-- what the embedded reader sees: the cell under each of its titles -/
def erLookup (erCols : Cols) (data : List Str) (k : Str) : Option Str :=
  (erCols.lookup k).bind (data[·]?)

/-- `packing_result.CsvReader.parse_row(data)` followed by the constructor -/
def prParseRow (rd : PRReader) (data : List Str) : Option (PRec ER) :=
  match C.read (erLookup rd.erCols data), readInt data rd.iN, readInt data rd.iD,
        readInt data rd.iW, readInt data rd.iH,
        readMap data rd.objs, readMap data rd.ob, readMap data rd.bb with
  | some er, some n, some d, some w, some h, some objectives, some bounds, some bins =>
    mkPRec V ⟨er, n, d, w, h, objectives, bounds, bins⟩
  | _, _, _, _, _, _, _, _ => none

/-- `csv_read(rows, CsvReader, CsvReader.parse_row)` -/
def prRead (t : Table) : Option (List (PRec ER)) :=
  match colsOf t.header with
  | none => none
  | some cols =>
    match prSetup C.keys cols with
    | none => none
    | some rd => t.rows.mapM (fun cells => (padRow t.header.length cells).bind (prParseRow C V rd))

/-- `to_csv` (`sort` = `sorted` on the records, i.e. by the embedded end result) and `from_csv` -/
def prToCsv (sort : List (PRec ER) → List (PRec ER)) (rs : List (PRec ER)) : Option Table := prWrite C (sort rs)
def prFromCsv (t : Table) : Option (List (PRec ER)) := prRead C V t
end reader

/-! ## `PackingStatistics` -/

/-- the CSV codec of moptipy's `SampleStatistics` inside a scope (`SsCsvWriter(scope, n_not_needed=True)`,
`SsCsvReader`): titles and cells depend on the scope (the objective name) and on the data of that column
group; the reader is a function of "use-key ↦ cell", where the use-keys are the titles with the scope
prefix removed (the scope itself stays) plus `n`, which the packing reader adds from the end statistics -/
structure SsCodec (SS : Type) where
  titles : Str → List SS → List Str
  row : Str → List SS → SS → List Str
  read : Str → (Str → Option Str) → Option SS
  /-- the sample size of the statistics as the end-statistics writer prints it in its `n` column
  (`n_not_needed=True`: the statistics writer itself prints no `n`; the reader takes it from there) -/
  nCell : SS → Str

/-- what the constructor looks at in the embedded objects: the optimised objective, the library's test
`end_statistics.best_f == statistics` (`SampleStatistics.__eq__`, opaque), minimum and maximum -/
structure EsView (ES SS : Type) where
  objective : ES → Str
  bestIs : ES → SS → Bool
  ssMin : SS → Int
  ssMax : SS → Int

/-- a `PackingStatistics` record -/
structure PSRec (ES SS : Type) where
  es : ES
  nItems : Int
  nDiff : Int
  binW : Int
  binH : Int
  objectives : List (Str × SS)
  objBounds : List (Str × Int)
  binBounds : List (Str × Int)

def kN : Str := "n".toList

/-- what `PackingStatistics.__init__` checks: `best_f` is the statistics of the optimised objective, two
bounds per objective, minimum and maximum of every objective between its bounds, bin bounds in `1..1e9`
and not above the smallest bin count, the four instance numbers in range -/
def PSRec.okB {ES SS : Type} (V : EsView ES SS) (r : PSRec ES SS) : Bool :=
  (match r.objectives.lookup (V.objective r.es) with
   | some s => V.bestIs r.es s
   | none => false) &&
  decide (r.objBounds.length = 2 * r.objectives.length) &&
  r.objectives.all (fun p =>
    match r.objBounds.lookup (scopeKey p.1 sLower), r.objBounds.lookup (scopeKey p.1 sUpper) with
    | some lo, some hi => decide (lo ≤ V.ssMin p.2) && decide (V.ssMin p.2 ≤ hi) &&
                          decide (lo ≤ V.ssMax p.2) && decide (V.ssMax p.2 ≤ hi)
    | _, _ => false) &&
  r.binBounds.all (fun b => decide (1 ≤ b.2) && decide (b.2 ≤ 1000000000) &&
    (match r.objectives.lookup sBinCount with
     | some bins => decide (b.2 ≤ V.ssMin bins)
     | none => true)) &&
  decide (1 ≤ r.nDiff) && decide (r.nDiff ≤ 1000000000000) &&
  decide (r.nDiff ≤ r.nItems) && decide (r.nItems ≤ 1000000000000) &&
  decide (1 ≤ r.binW) && decide (r.binW ≤ 1000000000000) &&
  decide (1 ≤ r.binH) && decide (r.binH ≤ 1000000000000)

def PSRec.Ok {ES SS : Type} (V : EsView ES SS) (r : PSRec ES SS) : Prop := r.okB V = true

instance {ES SS : Type} (V : EsView ES SS) (r : PSRec ES SS) : Decidable (r.Ok V) := by
  unfold PSRec.Ok; infer_instance

def mkPSRec {ES SS : Type} (V : EsView ES SS) (r : PSRec ES SS) : Option (PSRec ES SS) :=
  if r.Ok V then some r else none

section statwriter
variable {ES SS : Type} (C : Codec ES) (S : SsCodec SS)

def psBbKeys (rs : List (PSRec ES SS)) : List Str := sortedSet (rs.flatMap (fun r => r.binBounds.map (·.1)))
def psObjKeys (rs : List (PSRec ES SS)) : List Str := sortedSet (rs.flatMap (fun r => r.objectives.map (·.1)))

/-- `ddd.objectives[k] for ddd in data` of `CsvWriter.setup`; `none` = `KeyError` (a record lacks an
objective that another record has) -/
def psColumn (rs : List (PSRec ES SS)) (o : Str) : Option (List SS) := rs.mapM (fun r => r.objectives.lookup o)

def psObjTitles (rs : List (PSRec ES SS)) (o : Str) : Option (List Str) :=
  (psColumn rs o).map (fun col => [scopeKey o sLower] ++ S.titles o col ++ [scopeKey o sUpper])

/-- `CsvWriter.get_column_titles` -/
def psHeader (rs : List (PSRec ES SS)) : Option (List Str) :=
  ((psObjKeys rs).mapM (psObjTitles S rs)).map (fun ots =>
    C.titles (rs.map (·.es)) ++ fixedTitles ++ psBbKeys rs ++ ots.flatten)

def psObjCells (rs : List (PSRec ES SS)) (r : PSRec ES SS) (o : Str) : Option (List Str) :=
  match psColumn rs o, r.objectives.lookup o with
  | some col, some s => some ([cellOpt (r.objBounds.lookup (scopeKey o sLower))] ++ S.row o col s ++
      [cellOpt (r.objBounds.lookup (scopeKey o sUpper))])
  | _, _ => none

/-- `CsvWriter.get_row` -/
def psRow (rs : List (PSRec ES SS)) (r : PSRec ES SS) : Option (List Str) :=
  ((psObjKeys rs).mapM (psObjCells S rs r)).map (fun ocs =>
    C.row (rs.map (·.es)) r.es ++ [showInt r.binH, showInt r.binW, showInt r.nItems, showInt r.nDiff]
      ++ (psBbKeys rs).map (fun k => cellOpt (r.binBounds.lookup k)) ++ ocs.flatten)

def psWrite (rs : List (PSRec ES SS)) : Option Table :=
  match psHeader C S rs, rs.mapM (psRow C S rs) with
  | some h, some rows =>
    if (colsOf h).isSome && rows.all (fun row => decide (row.length ≤ h.length)) then
      some ⟨h, rows.map trimRow⟩ else none
  | _, _ => none
end statwriter

/-- the state of `packing_statistics.CsvReader` after `__init__` -/
structure PSReader where
  esCols : Cols
  iN : Nat
  iD : Nat
  iW : Nat
  iH : Nat
  bb : List (Str × Nat)
  ob : List (Str × Nat)
  objs : List (Str × List (Str × Nat))
  deriving Repr

/-- `csv_select_scope(SsCsvReader, columns, ss, ((KEY_N, idx_n),))` for each objective name, threading the
dictionary: the use-keys of the columns in the scope plus `n` -/
def psSelectObjs (idxN : Nat) (cols : Cols) : List Str → Option (List (Str × List (Str × Nat)))
  | [] => some []
  | o :: os =>
    match csvSelectScope cols (some o) (fun _ => false) with
    | none => none
    | some (sel, cols') =>
      let sel' := if (sel.map (·.1)).contains kN then sel else sel ++ [(kN, idxN)]
      (psSelectObjs idxN cols' os).map ((o, sel') :: ·)

/-- `packing_statistics.CsvReader.__init__(columns)` -/
def psSetup (keys : List Str) (cols : Cols) : Option PSReader :=
  match setupCommon keys cols with
  | none => none
  | some c =>
  match c.erCols.lookup kN with
  | none => none
  | some idxN =>
  match setupBounds c.rest with
  | none => none
  | some (ob, cols) =>
  match psSelectObjs idxN cols (namesOfBounds ob) with
  | none => none
  | some objs =>
    if objs.isEmpty || 2 * objs.length ≠ ob.length then none else
    some ⟨c.erCols, c.iN, c.iD, c.iW, c.iH, c.bb, ob, objs⟩

section statreader
variable {ES SS : Type} (C : Codec ES) (S : SsCodec SS) (V : EsView ES SS)

def psParseRow (rd : PSReader) (data : List Str) : Option (PSRec ES SS) :=
  match C.read (erLookup rd.esCols data), readInt data rd.iN, readInt data rd.iD,
        readInt data rd.iW, readInt data rd.iH,
        rd.objs.mapM (fun o => (S.read o.1 (erLookup o.2 data)).map (fun s => (o.1, s))),
        readMapStrict data rd.ob, readMapStrict data rd.bb with
  | some es, some n, some d, some w, some h, some objectives, some bounds, some bins =>
    mkPSRec V ⟨es, n, d, w, h, objectives, bounds, bins⟩
  | _, _, _, _, _, _, _, _ => none

def psRead (t : Table) : Option (List (PSRec ES SS)) :=
  match colsOf t.header with
  | none => none
  | some cols =>
    match psSetup C.keys cols with
    | none => none
    | some rd => t.rows.mapM (fun cells => (padRow t.header.length cells).bind (psParseRow C S V rd))
end statreader

/-! ## the domain of the round-trip theorem -/

/-- The record sets `csv_roundtrip` speaks about: what the package itself produces (`from_logs`,
`from_packing_and_end_result`), stated on the data:
* every record was accepted by the constructor (`Ok`), its three mappings are in canonical form (sorted by
  key) and its bound keys are the `.lowerBound`/`.upperBound` keys of its own objectives;
* objective names are plain names (`ObjName`), bin-bound keys lie in the scope `bins.lowerBound` (`BBKey`)
  and at least one record has a bin bound (otherwise the reader raises — constructors accept such records,
  they are outside the domain);
* the embedded codec round-trips on the embedded records, and none of the titles its reader asks for is a
  title of the packing columns. -/
structure PRDomain {ER : Type} (C : Codec ER) (V : ErView ER) (rs : List (PRec ER)) : Prop where
  ok : ∀ r ∈ rs, r.Ok V
  canon : ∀ r ∈ rs, SortedKeys r.objectives ∧ SortedKeys r.objBounds ∧ SortedKeys r.binBounds
  bounds : ∀ r ∈ rs, ∀ p ∈ r.objBounds, ∃ q ∈ r.objectives,
    p.1 = scopeKey q.1 sLower ∨ p.1 = scopeKey q.1 sUpper
  objName : ∀ r ∈ rs, ∀ p ∈ r.objectives, ObjName p.1
  bbKey : ∀ r ∈ rs, ∀ p ∈ r.binBounds, BBKey p.1
  bbSome : ∃ r ∈ rs, r.binBounds ≠ []
  codec : C.RoundTrips (rs.map (·.er))
  keysDisj : ∀ k ∈ C.keys, k ∉ fixedTitles ++ bbKeys rs ++ (objKeys rs).flatMap objTitles

/-- the assumption on the embedded `SampleStatistics` codec for the column group of objective `o` holding
the statistics `col`: at least one title, all titles in the scope of `o` (`o` itself or `o.<x>`) with distinct
use-keys, none of them `n`, none ending in `lowerBound`/`upperBound`; rows as long as the titles; and the reader
returns the statistics from any use-key ↦ cell function that shows the writer's cells, the matching `n` and
nothing else -/
structure SsCodec.RoundTrips {SS : Type} (S : SsCodec SS) (o : Str) (col : List SS) : Prop where
  ne : S.titles o col ≠ []
  scope : ∀ t ∈ S.titles o col, (scopeUse o t).isSome
  useNodup : ((S.titles o col).filterMap (scopeUse o)).Nodup
  noN : kN ∉ (S.titles o col).filterMap (scopeUse o)
  noBound : ∀ t ∈ S.titles o col, isBoundKey t = false
  len : ∀ s ∈ col, (S.row o col s).length = (S.titles o col).length
  back : ∀ s ∈ col, ∀ f : Str → Option Str,
    (∀ p ∈ (S.titles o col).zip (S.row o col s), ∃ u, scopeUse o p.1 = some u ∧ f u = some p.2) →
    f kN = some (S.nCell s) →
    (∀ u, u ≠ kN → u ∉ (S.titles o col).filterMap (scopeUse o) → f u = none) → S.read o f = some s

/-- the column of objective `o` when every record has it -/
def psCol {ES SS : Type} (rs : List (PSRec ES SS)) (o : Str) : List SS :=
  rs.filterMap (fun r => r.objectives.lookup o)

/-- The record sets the statistics round trip speaks about: as `PRDomain`, and in addition all records carry
the same objectives and the same bin-bound keys (the statistics writer raises otherwise / the reader does
not accept blank cells), the end statistics have an `n` column, and the sample size of every objective's
statistics is the `n` of the end statistics of its record (true for `from_packing_results`). -/
structure PSDomain {ES SS : Type} (C : Codec ES) (S : SsCodec SS) (V : EsView ES SS)
    (rs : List (PSRec ES SS)) : Prop where
  ok : ∀ r ∈ rs, r.Ok V
  canon : ∀ r ∈ rs, SortedKeys r.objectives ∧ SortedKeys r.objBounds ∧ SortedKeys r.binBounds
  bounds : ∀ r ∈ rs, ∀ p ∈ r.objBounds, ∃ q ∈ r.objectives,
    p.1 = scopeKey q.1 sLower ∨ p.1 = scopeKey q.1 sUpper
  objName : ∀ o ∈ psObjKeys rs, ObjName o
  bbKey : ∀ k ∈ psBbKeys rs, BBKey k
  bbSome : psBbKeys rs ≠ []
  commonObj : ∀ r ∈ rs, r.objectives.map (·.1) = psObjKeys rs
  commonBB : ∀ r ∈ rs, r.binBounds.map (·.1) = psBbKeys rs
  codec : C.RoundTrips (rs.map (·.es))
  ss : ∀ o ∈ psObjKeys rs, S.RoundTrips o (psCol rs o)
  nCell : ∀ r ∈ rs, ∀ p ∈ r.objectives,
    ((C.titles (rs.map (·.es))).zip (C.row (rs.map (·.es)) r.es)).lookup kN = some (S.nCell p.2)
  keysDisj : ∀ k ∈ C.keys, k ∉ fixedTitles ++ psBbKeys rs ++
    (psObjKeys rs).flatMap (fun o => [scopeKey o sLower] ++ S.titles o (psCol rs o) ++ [scopeKey o sUpper])

end Csv
