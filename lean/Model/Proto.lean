/-!
Line-protocol helpers shared by all model drivers (no Mathlib).

A protocol line is `op field ; field ; ...`; a field is a blank- or comma-separated
list of decimal integers, a matrix is a field whose rows are separated by `|`.
Parsing is total: anything unparsable yields `none` and the driver prints `bad-op`.
-/
namespace Proto

def words (s : String) : List String :=
  (s.split (fun c => c = ' ' || c = ',' || c = '\t' || c = '\n' || c = '\r')).toList.map (·.toString)
    |>.filter (· ≠ "")

def ints? (s : String) : Option (List Int) :=
  (words s).mapM (·.toInt?)

def nats? (s : String) : Option (List Nat) :=
  (words s).mapM (·.toNat?)

def fields (s : String) : List String :=
  (s.splitOn ";").map (fun f => f.trimAscii.toString)

def matrix? (s : String) : Option (List (List Int)) :=
  ((s.splitOn "|").filter (fun r => r.trimAscii.toString ≠ "")).mapM ints?

def showInts (l : List Int) : String := " ".intercalate (l.map toString)
def showNats (l : List Nat) : String := " ".intercalate (l.map toString)
def showMatrix (m : List (List Int)) : String := " | ".intercalate (m.map showInts)

/-- compact forms used in driver *output* (no blanks inside a value) -/
def cInts (l : List Int) : String := ",".intercalate (l.map toString)
def cNats (l : List Nat) : String := ",".intercalate (l.map toString)
def cMatrix (m : List (List Int)) : String := "|".intercalate (m.map cInts)

def showOpt {α} (f : α → String) : Option α → String
  | some a => f a
  | none => "OOB"

end Proto
