/-!
Shared substrate: the numpy integer storage types and the model of moptipy's
`int_range_to_dtype` (an *external* function; its model is correspondence-checked
at every threshold by `harness/dtype_check.py`).
-/
namespace Base

inductive DType where
  | int8 | uint8 | int16 | uint16 | int32 | uint32 | int64 | uint64
  deriving DecidableEq, Repr, Inhabited

namespace DType
def lo : DType → Int
  | int8 => -128 | uint8 => 0 | int16 => -32768 | uint16 => 0
  | int32 => -2147483648 | uint32 => 0
  | int64 => -9223372036854775808 | uint64 => 0
def hi : DType → Int
  | int8 => 127 | uint8 => 255 | int16 => 32767 | uint16 => 65535
  | int32 => 2147483647 | uint32 => 4294967295
  | int64 => 9223372036854775807 | uint64 => 18446744073709551615
def name : DType → String
  | int8 => "int8" | uint8 => "uint8" | int16 => "int16" | uint16 => "uint16"
  | int32 => "int32" | uint32 => "uint32" | int64 => "int64" | uint64 => "uint64"
/-- the search order of moptipy's `__INTS_AND_RANGES` -/
def all : List DType := [int8, uint8, int16, uint16, int32, uint32, int64, uint64]
def bits : DType → Nat
  | int8 => 8 | uint8 => 8 | int16 => 16 | uint16 => 16
  | int32 => 32 | uint32 => 32 | int64 => 64 | uint64 => 64
def holds (t : DType) (v : Int) : Bool := decide (t.lo ≤ v) && decide (v ≤ t.hi)
/-- what a C-style (`astype`, `copyto(..., "unsafe")`) conversion stores for `v` -/
def wrap (t : DType) (v : Int) : Int :=
  let m : Int := 2 ^ t.bits
  let r := v % m
  if t.lo < 0 ∧ r > t.hi then r - m else r
end DType

/-- model of `moptipy.utils.nputils.int_range_to_dtype(min_value, max_value, force_signed)`;
`none` = the function raises -/
def dtypeFor (minV maxV : Int) (forceSigned : Bool := false) : Option DType :=
  if minV > maxV then none else
  let useMin : Int := if forceSigned && decide (minV ≥ 0) then -1 else minV
  DType.all.find? (fun t => decide (useMin ≥ t.lo) && decide (maxV ≤ t.hi))

end Base
