import Model.Base
/-!
C05 — model of `moptipyapps/tsp/tour_length.py:tour_length` and of the constructor
`moptipyapps/tsp/instance.py:Instance.__new__` (matrix validation, derived bounds,
symmetry flag, storage type selection, copy check).

Cities are `Nat`, distances `Int`, a matrix is a list of rows.  Array accesses go through
checked accessors (`none` = access outside the array); the only negative index the
code uses (`x[-1]`) is modelled explicitly as `getLast?`.
-/
namespace Tsp
open Base

abbrev Matrix := List (List Int)

/-- checked `instance[i, j]` -/
def entry? (d : Matrix) (i j : Nat) : Option Int := (d[i]?).bind (·[j]?)

/-- total version used in specifications (`0` outside the matrix; every theorem that uses it
carries the hypothesis that the indices are inside) -/
def entry (d : Matrix) (i j : Nat) : Int := (d.getD i []).getD j 0

/-- `tour_length`: `result = 0; last = x[-1]; for cur in x: result += instance[last, cur]; last = cur`.
State of the loop = (result, last). -/
def tourLenLoop? (d : Matrix) : List Nat → Int → Nat → Option Int
  | [], acc, _ => some acc
  | cur :: rest, acc, last =>
    match entry? d last cur with
    | none => none
    | some v => tourLenLoop? d rest (acc + v) cur

def tourLen? (d : Matrix) (x : List Nat) : Option Int :=
  match x.getLast? with
  | none => none               -- `x[-1]` on an empty array
  | some l => tourLenLoop? d x 0 l

/-- same loop, total (for proofs) -/
def tourLenLoop (d : Matrix) : List Nat → Int → Nat → Int
  | [], acc, _ => acc
  | cur :: rest, acc, last => tourLenLoop d rest (acc + entry d last cur) cur

def tourLen (d : Matrix) (x : List Nat) : Int := tourLenLoop d x 0 (x.getLastD 0)

/-- all partial sums of the accumulator, in order (for the overflow clause) -/
def tourLenPartials (d : Matrix) : List Nat → Int → Nat → List Int
  | [], _, _ => []
  | cur :: rest, acc, last =>
    (acc + entry d last cur) :: tourLenPartials d rest (acc + entry d last cur) cur

/-! ### Specification: cyclic edge sum (does not look like the loop) -/

/-- sum of `d[x k][x (k+1)]` for consecutive positions -/
def pathSum (d : Matrix) : List Nat → Int
  | a :: b :: rest => entry d a b + pathSum d (b :: rest)
  | _ => 0

/-- the documented tour length: consecutive edges plus the closing edge last → first -/
def cyclicSum (d : Matrix) (x : List Nat) : Int :=
  pathSum d x + entry d (x.getLastD 0) (x.headD 0)

def IsPerm (x : List Nat) (n : Nat) : Prop := x.Perm (List.range n)

instance (x : List Nat) (n : Nat) : Decidable (IsPerm x n) := by unfold IsPerm; infer_instance

def isPermB (x : List Nat) (n : Nat) : Bool := decide (IsPerm x n)

def Square (d : Matrix) (n : Nat) : Prop := d.length = n ∧ ∀ r ∈ d, r.length = n

/-! ### Constructor model -/

/-- nearest / farthest neighbour of city `i` exactly as the inner loop computes them
(`j = i` skipped) -/
def rowFar (d : Matrix) (n i : Nat) : Int :=
  (List.range n).foldl (fun f j => if j = i then f else max f (entry d i j)) (-1)
def rowNear (d : Matrix) (n i : Nat) : Int :=
  (List.range n).foldl (fun f j => if j = i then f else min f (entry d i j)) 9223372036854775807

def isSymmetricB (d : Matrix) (n : Nat) : Bool :=
  (List.range n).all fun i => (List.range n).all fun j => i == j || entry d i j == entry d j i

def sumFar (d : Matrix) (n : Nat) : Int := ((List.range n).map (rowFar d n)).sum
def sumNear (d : Matrix) (n : Nat) : Int := ((List.range n).map (rowNear d n)).sum

structure Inst where
  n : Nat
  lb : Int
  ub : Int
  sym : Bool
  dtype : DType
  stored : Matrix
  deriving Repr

def LIMIT : Int := 1000000000000000

/-- `Instance.__new__(name, lbGiven, M, mult)`; `none` = the constructor raises.
`M` is assumed to be an `n × n` int64 array (the shape check is part of the model). -/
def mkInstance (lbGiven : Int) (M : Matrix) (mult : Int := 1) : Option Inst :=
  let n := M.length
  if lbGiven < 0 ∨ lbGiven > LIMIT then none else
  if n ≤ 1 then none else
  if !(M.all (·.length == n)) then none else
  if !(M.all (·.all (fun v => decide (0 ≤ v)))) then none else   -- `dist < 0` raises
  if !((List.range n).all fun i => entry M i i == 0) then none else
  if !((List.range n).all fun i => decide (rowFar M n i > 0)) then none else
  let ub := sumFar M n
  let lb2 := sumNear M n
  if lb2 < 0 ∨ lb2 > LIMIT then none else
  let lb := max lbGiven lb2
  if ub < lb ∨ ub > LIMIT + 1 then none else
  if mult < 1 ∨ mult > 1000000000 then none else
  let limit := mult * max ub n
  match dtypeFor (-limit) limit with
  | none => none
  | some t =>
    let stored := M.map (·.map t.wrap)
    if stored != M then none else   -- the entry-by-entry copy check
    some { n := n, lb := lb, ub := ub, sym := isSymmetricB M n, dtype := t, stored := stored }

end Tsp
