import Model.Arith
/-!
# C16 (part A) — specifications of the controller blueprints and the system equations

Written from the module docstrings, the property text and the cited papers — *not* from the
kernels: sums and products over index ranges, enumerations of monomials, "first anchor at
minimal distance", "network evaluated layer by layer", the published right-hand sides in terms
of named constants.  Everything is executable over an `Arith.Ops K` so that the model driver can
evaluate the specification on what the implementation returns (exactly over `Rat`, with
tolerance over `Float`), and the theorems of `Props/C16.lean` are about these same definitions
instantiated with a linear ordered field (`Proofs/Controllers.lean` shows that they then read
as the usual `∑`/`∏` expressions).

No Mathlib.
-/
namespace ControlSpec
open Arith

variable {K : Type}

/-! ## sums, products -/

/-- `∑ i < n, f i` -/
def sumTo (o : Ops K) : Nat → (Nat → K) → K
  | 0, _ => o.ofRat 0 1
  | n + 1, f => o.add (sumTo o n f) (f n)

/-- `∏ i < n, f i` -/
def prodTo (o : Ops K) : Nat → (Nat → K) → K
  | 0, _ => o.ofRat 1 1
  | n + 1, f => o.mul (prodTo o n f) (f n)

/-! ## complete polynomials without constant term -/

/-- all exponent vectors of length `d` whose entries sum to at most `k` -/
def vecsLE : Nat → Nat → List (List Nat)
  | 0, _ => [[]]
  | d + 1, k => (List.range (k + 1)).flatMap fun a => (vecsLE d (k - a)).map (a :: ·)

/-- the monomials of degree `1..k` in `d` variables, as exponent vectors -/
def monomials (d k : Nat) : List (List Nat) := (vecsLE d k).filter (fun e => decide (1 ≤ e.sum))

/-- how many there are: `C(d+k, k) − 1` (closed form, computed independently of the enumeration) -/
def choose : Nat → Nat → Nat
  | _, 0 => 1
  | 0, _ + 1 => 0
  | n + 1, k + 1 => choose n k + choose n (k + 1)

def monomialCount (d k : Nat) : Nat := choose (d + k) k - 1

/-- the value `∏ j, s_j ^ e_j` of the monomial with exponent vector `e` at the state `s` -/
def monoVal (o : Ops K) (e : List Nat) (s : Nat → K) : K :=
  prodTo o e.length (fun j => o.powN (s j) (e.getD j 0))

/-- `∑ i < |exps|, θ_i · m_i(s)` for a table `i ↦ m_i` of exponent vectors -/
def polyVal (o : Ops K) (exps : List (List Nat)) (θ s : Nat → K) : K :=
  sumTo o exps.length (fun i => o.mul (θ i) (monoVal o (exps.getD i []) s))

/-- "the complete polynomial of degree `k` in `d` variables without constant term, one parameter
per monomial", as a property of a table `parameter index ↦ exponent vector` with `p` declared
parameters: the table has exactly `p` entries, no monomial occurs twice, every entry is a
monomial of degree `1..k` in `d` variables and every such monomial occurs. -/
def CompleteTable (exps : List (List Nat)) (d k p : Nat) : Prop :=
  exps.length = p ∧ exps.Nodup ∧ ∀ e : List Nat, e ∈ exps ↔ (e.length = d ∧ 1 ≤ e.sum ∧ e.sum ≤ k)

/-! ## partially linear controllers: the linear law of the nearest anchor

Parameter layout (module docstring: "sets of linear controllers and anchor points"): anchor `j`
owns `2d` consecutive parameters — its `d` coordinates, then the `d` weights of its linear law. -/

def anchorCoord (d j i : Nat) : Nat := j * (2 * d) + i
def lawWeight (d j i : Nat) : Nat := j * (2 * d) + d + i

/-- squared Euclidean distance of the state to anchor `j` -/
def sqDist (o : Ops K) (d : Nat) (θ s : Nat → K) (j : Nat) : K :=
  sumTo o d (fun i => o.powN (o.sub (s i) (θ (anchorCoord d j i))) 2)

/-- the linear law of anchor `j` applied to the state -/
def law (o : Ops K) (d : Nat) (θ s : Nat → K) (j : Nat) : K :=
  sumTo o d (fun i => o.mul (s i) (θ (lawWeight d j i)))

/-- anchor `j` is the first one at minimal squared distance among anchors `0..k-1` -/
def isFirstNearest (o : Ops K) (d k : Nat) (θ s : Nat → K) (j : Nat) : Bool :=
  decide (j < k) && (List.range k).all (fun i => o.le (sqDist o d θ s j) (sqDist o d θ s i))
    && (List.range j).all (fun i => o.lt (sqDist o d θ s j) (sqDist o d θ s i))

def firstNearest (o : Ops K) (d k : Nat) (θ s : Nat → K) : Option Nat :=
  (List.range k).find? (isFirstNearest o d k θ s)

/-- "for each state, the linear controller with the closest anchor point is used" -/
def nearestAnchorLaw (o : Ops K) (d k : Nat) (θ s : Nat → K) : Option K :=
  (firstNearest o d k θ s).map (law o d θ s)

/-! ## peak networks: one hidden layer of `n` neurons with activation `exp(−a²)`

Evaluated layer by layer, parameters consumed neuron by neuron: output weight, bias, then the
`d` input weights. -/

def peakAct (o : Ops K) (a : K) : K := o.exp (o.neg (o.powN a 2))

def peaksSpec (o : Ops K) (d n : Nat) (θ s : Nat → K) : K :=
  sumTo o n (fun j =>
    let base := j * (d + 2)
    let preact := o.add (θ (base + 1)) (sumTo o d (fun i => o.mul (θ (base + 2 + i)) (s i)))
    o.mul (θ base) (peakAct o preact))

/-! ## predefined laws -/

/-- protected division of the xMLC toolkit as parameterised in `predefined.py`: `1` where the
denominator vanishes -/
def pdiv (o : Ops K) (z b : K) : K := if o.eq b (o.ofRat 0 1) then o.ofRat 1 1 else o.div z b

/-- Cornejo Maceda's law, parameterised: `tanh(tanh(tanh(tanh(a₁ − a₂) ⊘ θ₀) ⊘ θ₁) ⊘ θ₂)` -/
def cornejoMaceda (o : Ops K) (θ s : Nat → K) : K :=
  [θ 0, θ 1, θ 2].foldl (fun z b => o.tanh (pdiv o z b)) (o.tanh (o.sub (s 0) (s 1)))

/-- Table 3-1, law evolved by the genetic algorithm: linear in the first two state variables -/
def table31ga (o : Ops K) (θ s : Nat → K) : K := sumTo o 2 (fun i => o.mul (s i) (θ i))

/-- Table 3-1, LGPC law: `θ₂ · sin(θ₃ ⊘ (θ₀ a₁ + θ₁))` -/
def table31lgpc (o : Ops K) (θ s : Nat → K) : K :=
  o.mul (θ 2) (o.sin (pdiv o (θ 3) (o.add (o.mul (θ 0) (s 0)) (θ 1))))

/-! ## the published differential equations -/

/-- Stuart-Landau oscillator with growth rate `μ = 0.1`, unit frequency, control on the second
coordinate: `ȧ₁ = σ a₁ − a₂`, `ȧ₂ = σ a₂ + a₁ + b`, `σ = μ − a₁² − a₂²`. -/
def stuartLandau (o : Ops K) (a : Nat → K) (b : K) : List K :=
  let mu := o.ofRat 1 10
  let r2 := sumTo o 2 (fun i => o.powN (a i) 2)
  let sigma := o.sub mu r2
  [o.sub (o.mul sigma (a 0)) (a 1), o.add (o.add (o.mul sigma (a 1)) (a 0)) b]

/-- `β` of the Lorenz system as written in the source (`2.6666666666666665`, the binary64
neighbour of `8/3` printed with 17 digits) -/
def lorenzBetaNum : Int := 26666666666666665
def lorenzBetaDen : Nat := 10000000000000000

/-- Lorenz system `ẋ = σ(y − x)`, `ẏ = x(ρ − z) − y + b`, `ż = xy − βz` with `σ = 10`, `ρ = 28`. -/
def lorenz (o : Ops K) (a : Nat → K) (b : K) : List K :=
  let sigma := o.ofRat 10 1
  let rho := o.ofRat 28 1
  let beta := o.ofRat lorenzBetaNum lorenzBetaDen
  let x := a 0; let y := a 1; let z := a 2
  [o.mul sigma (o.sub y x),
   o.add (o.sub (o.mul x (o.sub rho z)) y) b,
   o.sub (o.mul x y) (o.mul beta z)]

/-- Three coupled oscillators, equation (3.1) of Li, Noack, Cordier, Borée, Kaiser, Harambat:
oscillator `m` (`m = 0,1,2`) has coordinates `(a_{2m}, a_{2m+1})`, frequency `ω = 1, π, π²`,
growth rate `σ₁ = −r₁² + r₂² − r₃²`, `σ₂ = 0.1 − r₂²`, `σ₃ = −0.1`; the control `b` acts on the
second coordinate of oscillators 2 and 3:
`ȧ_{2m} = σ_m a_{2m} − ω_m a_{2m+1}`, `ȧ_{2m+1} = σ_m a_{2m+1} + ω_m a_{2m} + g_m b`. -/
def oscillators (o : Ops K) (a : Nat → K) (b : K) : List K :=
  let one := o.ofRat 1 1
  let zero := o.ofRat 0 1
  let r2 := fun m => sumTo o 2 (fun i => o.powN (a (2 * m + i)) 2)
  let omega := fun m => o.powN o.pi m
  let sigma := fun m => match m with
    | 0 => o.sub (o.add (o.neg (r2 0)) (r2 1)) (r2 2)
    | 1 => o.sub (o.ofRat 1 10) (r2 1)
    | _ => o.neg (o.ofRat 1 10)
  let gain := fun m => if m = 0 then zero else one
  (List.range 3).flatMap fun m =>
    [o.sub (o.mul (sigma m) (a (2 * m))) (o.mul (omega m) (a (2 * m + 1))),
     o.add (o.add (o.mul (sigma m) (a (2 * m + 1))) (o.mul (omega m) (a (2 * m)))) (o.mul (gain m) b)]

end ControlSpec
