import Model.Pack
/-!
# C19 — text forms (part 1): compact instance strings, game plans, orderings, instance space

Strings are lists of characters (`Str`); `String` only appears at the numeral boundary
(`Int.repr`, `String.toInt?`) and in the driver.

Modelled code (as it is in `/repo` now):

* `binpacking2d/instance.py`: `Instance.__new__` (name check + the `Pack.Inst.Valid` checks),
  `to_compact_str`, `from_compact_str`;
* `binpacking2d/instgen/instance_space.py`: `to_str`, `from_str`;
* `ttp/game_plan.py:GamePlan.__str__`, `ttp/game_plan_space.py:from_str`/`validate`;
* `order1d/space.py:OrderingSpace.to_str`/`from_str` (first line; the table that follows is an
  opaque tail) on top of moptipy's `Permutations.from_str`/`validate`.

External functions and how they appear here:
* `str(int)` = `Int.repr`; `int(str)` (in `check_to_int_range`) = `String.toInt?` — Python's `int`
  additionally accepts surrounding blanks, a leading `+` and non-ASCII digits (more lenient reader,
  irrelevant for texts produced by the writers);
* `np.fromstring(text, dtype, sep=";")` = strict `;`-separated decimal tokens, each converted to the
  storage type C-style (`DType.wrap`); numpy additionally tolerates blanks, `+`, a trailing `;` and
  silently stops at the first unparsable token (deprecated behaviour);
* `sanitize_name(name) == name` = the parameter `san` (concrete ASCII version: `nameOkB`);
* `str.lstrip/rstrip` = removal of the ASCII white space characters.
-/
namespace Text
open Base Pack

abbrev Str := List Char

/-! ## generic pieces -/

/-- `sep.join(parts)` for a one-character separator -/
def joinSep (sep : Char) : List Str → Str
  | [] => []
  | [t] => t
  | t :: ts => t ++ sep :: joinSep sep ts

/-- `text.split(sep)` for a one-character separator (never returns the empty list) -/
def splitSep (sep : Char) : Str → List Str
  | [] => [[]]
  | c :: cs =>
    if c = sep then [] :: splitSep sep cs
    else match splitSep sep cs with
      | t :: ts => (c :: t) :: ts
      | [] => [[c]]

/-- `str(v)` -/
def showInt (v : Int) : Str := v.repr.toList

/-- `int(token)` restricted to what `String.toInt?` accepts (optional `-`, decimal digits,
single `_` between digits — the same language as Python's `int` minus blanks / `+` / non-ASCII digits) -/
def parseInt? (t : Str) : Option Int := (String.ofList t).toInt?

/-- `check_to_int_range(token, _, lo, hi)`; `none` = raises -/
def checkToIntRange (t : Str) (lo hi : Int) : Option Int :=
  match parseInt? t with
  | none => none
  | some v => if lo ≤ v ∧ v ≤ hi then some v else none

/-- Python `str.isspace` on the ASCII range -/
def isWs (c : Char) : Bool :=
  c = ' ' || c = '\t' || c = '\n' || c = '\r' || c = '\x0b' || c = '\x0c' ||
  c = '\x1c' || c = '\x1d' || c = '\x1e' || c = '\x1f'

def lstrip (s : Str) : Str := s.dropWhile isWs
def rstrip (s : Str) : Str := (s.reverse.dropWhile isWs).reverse

/-- `text.find("\n")`: index of the first line break, `none` = `-1` -/
def findNl : Str → Option Nat
  | [] => none
  | c :: cs => if c = '\n' then some 0 else (findNl cs).map (· + 1)

/-- `np.fromstring(text, dtype, sep=";")` (strict tokens, C-style conversion to the storage type) -/
def fromstring (dt : DType) (text : Str) : Option (List Int) :=
  ((splitSep ';' text).mapM parseInt?).map (·.map dt.wrap)

/-! ## bin packing instances -/

/-- what an `Instance` object holds: its name and the data of `Pack.Inst` -/
structure NInst where
  name : Str
  inst : Inst
  deriving DecidableEq, Repr

/-- ASCII model of `sanitize_name(name) == name`: letters, digits and single inner underscores -/
def nameOkB (s : Str) : Bool :=
  let rec noDouble : Str → Bool
    | '_' :: '_' :: _ => false
    | _ :: cs => noDouble cs
    | [] => true
  !s.isEmpty && s.all (fun c => c.isAlphanum || c = '_') && s.head? != some '_' &&
    s.getLast? != some '_' && noDouble s

/-- the constructor accepted this object (`san` = "`sanitize_name(name) == name`") -/
def NInst.Valid (san : Str → Bool) (I : NInst) : Prop := san I.name = true ∧ I.inst.Valid

instance (san : Str → Bool) (I : NInst) : Decidable (I.Valid san) := by
  unfold NInst.Valid; infer_instance

/-- `Instance(name, bin_width, bin_height, rows)`; `none` = raises.  (The range checks of the two
computed lower bounds at the end of `__new__` are outside the model.) -/
def mkInst (san : Str → Bool) (name : Str) (W H : Int) (items : List Item) : Option NInst :=
  let I : NInst := ⟨name, ⟨W, H, items⟩⟩
  if I.Valid san then some I else none

/-- derived attributes of the object: `n_different_items`, `n_items`, `total_item_area`, `dtype`,
the geometric bound, and the constructor's `lower_bound_bins` (`lb`, modelled in C03; here any
function of the instance data) -/
def geoBound (I : Inst) : Int :=
  let a := I.totalArea
  let b := I.H * I.W
  if (a / b) * b < a then a / b + 1 else a / b

structure Derived where
  nTypes : Nat
  nItems : Int
  area : Int
  dtype : Option DType
  geo : Int
  lb : Int
  deriving DecidableEq, Repr

def NInst.derived (lb : Inst → Int) (I : NInst) : Derived :=
  ⟨I.inst.nTypes, I.inst.nItems, I.inst.totalArea, I.inst.dtype?, geoBound I.inst, lb I.inst⟩

/-- one item of the compact string: `w,h` or `w,h,times` -/
def itemTok (it : Item) : Str :=
  joinSep ',' ([showInt it.w, showInt it.h] ++ (if it.rep = 1 then [] else [showInt it.rep]))

/-- `Instance.to_compact_str` -/
def toCompactStr (I : NInst) : Str :=
  joinSep ';' ([I.name, showInt I.inst.items.length, showInt I.inst.W, showInt I.inst.H]
    ++ I.inst.items.map itemTok)

/-- one item of `from_compact_str` -/
def parseItem (maxDim : Int) (tok : Str) : Option Item :=
  let s := splitSep ',' tok
  match s[0]? with
  | none => none
  | some ws =>
  match checkToIntRange ws 1 maxDim with
  | none => none
  | some w =>
  match s[1]? with
  | none => none
  | some hs =>
  match checkToIntRange hs 1 maxDim with
  | none => none
  | some h =>
    if s.length ≤ 2 then some ⟨w, h, 1⟩ else
    match s[2]? with
    | none => none
    | some rs => (checkToIntRange rs 1 100000000).map (fun r => ⟨w, h, r⟩)

/-- `Instance.from_compact_str`; `none` = raises (`ValueError`, `IndexError`) -/
def fromCompactStr (san : Str → Bool) (data : Str) : Option NInst :=
  let text := splitSep ';' data
  match text[0]?, text[1]?, text[2]?, text[3]? with
  | some name, some ns, some ws, some hs =>
    match checkToIntRange ns 1 100000000 with
    | none => none
    | some n =>
    match checkToIntRange ws 1 1000000000000 with
    | none => none
    | some W =>
    match checkToIntRange hs 1 1000000000000 with
    | none => none
    | some H =>
      let toks := (text.drop 4).take n.toNat
      if toks.length ≠ n.toNat then none else
      match toks.mapM (parseItem (max W H)) with
      | none => none
      | some items => mkInst san name W H items
  | _, _, _, _ => none

/-! ## instance space (`instgen/instance_space.py`) -/

/-- `InstanceSpace.to_str(x)` = `x[0].to_compact_str()`; `none` = `IndexError` -/
def spaceToStr (x : List NInst) : Option Str := x.head?.map toCompactStr
/-- `InstanceSpace.from_str(text)` = `[Instance.from_compact_str(text)]` -/
def spaceFromStr (san : Str → Bool) (text : Str) : Option (List NInst) :=
  (fromCompactStr san text).map ([·])

/-! ## game plans -/

abbrev Plan := List (List Int)

/-- `(n_days, n)` of the plans of an instance with `n` teams and `rounds` rounds -/
def planDays (n rounds : Nat) : Nat := (n - 1) * rounds

/-- `GamePlanSpace.validate` on the data: right shape, every value in `-n..n` (the type/instance/dtype
identity checks are about Python objects) -/
def PlanOk (n rounds : Nat) (P : Plan) : Prop :=
  P.length = planDays n rounds ∧ (∀ r ∈ P, r.length = n) ∧ ∀ r ∈ P, ∀ v ∈ r, -(n : Int) ≤ v ∧ v ≤ n

instance (n rounds : Nat) (P : Plan) : Decidable (PlanOk n rounds P) := by
  unfold PlanOk; infer_instance

/-- one cell of the human-readable table; `none` = `IndexError` on `teams[...]` -/
def planCell (teams : List Str) (d : Int) : Option Str :=
  if d < 0 then (teams[(-d - 1).toNat]?).map ('@' :: ·)
  else if d > 0 then teams[(d - 1).toNat]?
  else some ['-']

/-- `GamePlan.__str__`: flattened values joined by `;`, an empty line, the team names joined by
blanks, then one line per day -/
def planToStr (teams : List Str) (P : Plan) : Option Str :=
  match P.mapM (fun row => (row.mapM (planCell teams)).map (fun cs => '\n' :: joinSep ' ' cs)) with
  | none => none
  | some rows =>
    some (joinSep ';' (P.flatten.map showInt) ++ ['\n', '\n'] ++ joinSep ' ' teams ++ rows.flatten)

/-- `reshape((rows, n))` of a flat list of exactly `rows * n` values -/
def chunk (n : Nat) : Nat → List Int → List (List Int)
  | 0, _ => []
  | k + 1, l => l.take n :: chunk n k (l.drop n)

/-- `GamePlanSpace.from_str` -/
def planFromStr (n rounds : Nat) (dt : DType) (text : Str) : Option Plan :=
  let text := lstrip text
  let text := match findNl text with
    | some lb => if lb > 0 then rstrip (text.take lb) else text
    | none => text
  match fromstring dt text with
  | none => none
  | some vals =>
    if vals.length ≠ planDays n rounds * n then none else
    let P := chunk n (planDays n rounds) vals
    if PlanOk n rounds P then some P else none

/-! ## orderings (`order1d`) -/

/-- `Permutations(range(n)).validate` on the data: `n` values, each of `0..n-1` exactly once -/
def OrdOk (n : Nat) (x : List Int) : Prop :=
  x.length = n ∧ (∀ v ∈ x, 0 ≤ v ∧ v ≤ (n : Int) - 1) ∧ ∀ i ∈ List.range n, x.count (i : Int) = 1

instance (n : Nat) (x : List Int) : Decidable (OrdOk n x) := by unfold OrdOk; infer_instance

/-- `OrderingSpace.to_str`: the permutation joined by `;`, a line break, then the empty line and the
table of tags (`tail`; not read back, contains a float column — opaque) -/
def ordToStr (x : List Int) (tail : Str) : Str := joinSep ';' (x.map showInt) ++ '\n' :: tail

/-- `OrderingSpace.from_str` → `Permutations.from_str` → `validate` -/
def ordFromStr (n : Nat) (dt : DType) (text : Str) : Option (List Int) :=
  let text := lstrip text
  let text := match findNl text with
    | some idx => if idx > 0 then text.take idx else text
    | none => text
  match fromstring dt (rstrip text) with
  | none => none
  | some vals => if OrdOk n vals then some vals else none

end Text
