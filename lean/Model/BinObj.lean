import Model.Pack
/-!
# C02 — the seven bin-packing objective functions

Executable model of the code in `moptipyapps/binpacking2d/objectives/*.py` (the six njit kernels
statement by statement, `BinCount.evaluate`, and the `lower_bound / upper_bound / to_bin_count`
formulas of the seven classes), followed by the executable *specification* written from the module
docstrings (bin counts, covered area, skyline).

Conventions.
* A packing `y` (an `n × 6` integer matrix) is a `List Row` *in the given row order*; reading a
  column of an existing row cannot leave the matrix, so the only checked accesses are those to the
  scratch array `temp` (`temp[bin_idx] += …`), which go through `idx?` — numba's index resolution
  with negative wrap-around; an index outside `[-len, len)` is `Err.oob` (an `IndexError` under
  `NUMBA_BOUNDSCHECK=1`, undefined behaviour otherwise).
* `min()` / `max()` of an empty array is `Err.empty` (numba/numpy raise `ValueError`).
* Unbounded `Int` (numba promotes all small-int arithmetic to int64; the range of the values is a
  separate statement, `Props/C02.lean: spec_range`).
* `temp` is an explicit input with arbitrary prior content.
-/
namespace BinObj
open Pack

inductive Err where
  | oob
  | empty
  deriving DecidableEq, Repr

/-- `(right - left) * (top - bottom)` -/
def rarea (a : Row) : Int := (a.r - a.l) * (a.t - a.b)

/-! ## array-level helpers -/

/-- numba's resolution of an index into an array of length `len` -/
def idx? (len : Nat) (i : Int) : Option Nat :=
  if 0 ≤ i ∧ i < len then some i.toNat
  else if -(len : Int) ≤ i ∧ i < 0 then some (i + len).toNat
  else none

/-- `temp[i] += v` -/
def addAt (temp : List Int) (i v : Int) : Except Err (List Int) :=
  match idx? temp.length i with
  | none => .error .oob
  | some j =>
    match temp[j]? with
    | none => .error .oob
    | some old => .ok (temp.set j (old + v))

/-- `temp.fill(0)` -/
def fill0 (temp : List Int) : List Int := temp.map (fun _ => 0)

/-- `temp[0:stop].min()` for `stop ≥ 0` (a slice end beyond the array is clipped) -/
def sliceMin (temp : List Int) (stop : Int) : Except Err Int :=
  match temp.take stop.toNat with
  | [] => .error .empty
  | x :: xs => .ok (xs.foldl min x)

/-- `y[:, IDX_BIN].max()` -/
def colMaxBin : List Row → Except Err Int
  | [] => .error .empty
  | a :: rest => .ok (rest.foldl (fun m c => max m c.bin) a.bin)

/-! ## 1. `BinCount.evaluate` -/
def binCount (rows : List Row) : Except Err Int := colMaxBin rows

/-! ## 2. `bin_count_and_last_empty(y)` -/
/-- the `for i in range(n_items)` loop; state `(current_bin, current_size)` -/
def lastEmptyLoop : List Row → Int → Int → Int × Int
  | [], cb, cs => (cb, cs)
  | a :: rest, cb, cs =>
    let binIdx := a.bin
    if binIdx > cb then lastEmptyLoop rest binIdx 1
    else if binIdx = cb then lastEmptyLoop rest cb (cs + 1)
    else lastEmptyLoop rest cb cs

def binCountAndLastEmpty (rows : List Row) : Int :=
  let st := lastEmptyLoop rows (-1) (-1)
  (rows.length : Int) * (st.1 - 1) + st.2

/-! ## 3./5. `bin_count_and_empty(y, temp)` and `bin_count_and_small(y, bin_area, temp)`
Both kernels run the same loop
```
bin_idx = int(y[i, IDX_BIN]) - 1 ; temp[bin_idx] += <weight of row i> ; total_bins = max(total_bins, bin_idx)
```
with weight `1` resp. `(right-left)*(top-bottom)`; state `(temp, total_bins)`. -/
def accLoop (wt : Row → Int) : List Row → List Int → Int → Except Err (List Int × Int)
  | [], temp, tb => .ok (temp, tb)
  | a :: rest, temp, tb =>
    let binIdx := a.bin - 1
    match addAt temp binIdx (wt a) with
    | .error e => .error e
    | .ok temp' => accLoop wt rest temp' (max tb binIdx)

def binCountAndEmpty (rows : List Row) (temp : List Int) : Except Err Int :=
  -- total_bins = -1 ; temp.fill(0) ; n_items = len(y)
  match accLoop (fun _ => 1) rows (fill0 temp) (-1) with
  | .error e => .error e
  | .ok (temp', tb) =>
    match sliceMin temp' (tb + 1) with
    | .error e => .error e
    | .ok m => .ok ((rows.length : Int) * tb + m)

def binCountAndSmall (rows : List Row) (binArea : Int) (temp : List Int) : Except Err Int :=
  -- total_bins = 0 ; n_items = len(y) ; temp.fill(0)
  match accLoop rarea rows (fill0 temp) 0 with
  | .error e => .error e
  | .ok (temp', tb) =>
    match sliceMin temp' (tb + 1) with
    | .error e => .error e
    | .ok m => .ok (binArea * tb + m)

/-! ## 4. `bin_count_and_last_small(y, bin_area)` -/
/-- state `(current_bin, current_area)` -/
def lastSmallLoop : List Row → Int → Int → Int × Int
  | [], cb, ca => (cb, ca)
  | a :: rest, cb, ca =>
    let binIdx := a.bin
    if binIdx < cb then lastSmallLoop rest cb ca          -- continue
    else
      let area := (a.r - a.l) * (a.t - a.b)
      if binIdx > cb then lastSmallLoop rest binIdx area
      else if binIdx = cb then lastSmallLoop rest cb (ca + area)
      else lastSmallLoop rest cb ca

def binCountAndLastSmall (rows : List Row) (binArea : Int) : Int :=
  let st := lastSmallLoop rows (-1) 0
  binArea * (st.1 - 1) + st.2

/-! ## 6./7. the skyline sweep -/
/-- state of the inner `for i in range(len_y)` loop -/
structure Sw where
  useTop : Int
  useRight : Int
  nextLeft : Int
  deriving Repr, DecidableEq

/-- one iteration of the inner loop for row `a` -/
def innerStep (useBin curLeft : Int) (s : Sw) (a : Row) : Sw :=
  if a.bin ≠ useBin then s                                  -- continue
  else
    let s1 : Sw := if a.l ≤ curLeft ∧ curLeft < a.r ∧ a.t > s.useTop
                   then { s with useTop := a.t, useRight := a.r } else s
    if curLeft < a.l ∧ a.l < s1.nextLeft then { s1 with nextLeft := a.l } else s1

def inner (rows : List Row) (useBin curLeft : Int) (s : Sw) : Sw :=
  rows.foldl (innerStep useBin curLeft) s

theorem innerStep_gt (useBin curLeft : Int) (s : Sw) (a : Row)
    (h : curLeft < s.useRight ∧ curLeft < s.nextLeft) :
    curLeft < (innerStep useBin curLeft s a).useRight ∧
    curLeft < (innerStep useBin curLeft s a).nextLeft := by
  unfold innerStep
  split
  · exact h
  · simp only []
    split <;> split <;> simp_all <;> omega

theorem inner_gt (rows : List Row) (useBin curLeft : Int) (s : Sw)
    (h : curLeft < s.useRight ∧ curLeft < s.nextLeft) :
    curLeft < (inner rows useBin curLeft s).useRight ∧
    curLeft < (inner rows useBin curLeft s).nextLeft := by
  induction rows generalizing s with
  | nil => exact h
  | cons a rest ih => exact ih _ (innerStep_gt useBin curLeft s a h)

/-- the `while cur_left < bin_width` loop; state `(cur_left, area_under_skyline)`.
Termination is an obligation about the code: every round advances `cur_left` strictly. -/
def sweep (rows : List Row) (useBin binWidth : Int) (curLeft area : Int) : Int :=
  if h : curLeft < binWidth then
    let s := inner rows useBin curLeft ⟨0, binWidth, binWidth⟩
    let useRight := min s.useRight s.nextLeft
    sweep rows useBin binWidth useRight (area + (useRight - curLeft) * s.useTop)
  else area
termination_by (binWidth - curLeft).toNat
decreasing_by
  have := inner_gt rows useBin curLeft ⟨0, binWidth, binWidth⟩ ⟨h, h⟩
  omega

def binCountAndLastSkyline (rows : List Row) (binWidth binHeight : Int) : Except Err Int :=
  match colMaxBin rows with          -- bins = int(y[:, IDX_BIN].max())
  | .error e => .error e
  | .ok bins =>
    let binSize := binHeight * binWidth
    match colMaxBin rows with        -- use_bin = max(y[:, IDX_BIN])
    | .error e => .error e
    | .ok useBin => .ok ((bins - 1) * binSize + sweep rows useBin binWidth 0 0)

/-- `for use_bin in range(1, bins + 1)`; state `min_area_under_skyline` -/
def lowestLoop (rows : List Row) (binWidth : Int) : List Nat → Int → Int
  | [], m => m
  | j :: js, m => lowestLoop rows binWidth js (min m (sweep rows ((j : Int) + 1) binWidth 0 0))

def binCountAndLowestSkyline (rows : List Row) (binWidth binHeight : Int) : Except Err Int :=
  match colMaxBin rows with
  | .error e => .error e
  | .ok bins =>
    let binSize := binHeight * binWidth
    .ok ((bins - 1) * binSize + lowestLoop rows binWidth (List.range bins.toNat) binSize)

/-! ## the seven `Objective` classes -/
inductive Obj where
  | binCount | lastEmpty | empty | lastSmall | small | lastSkyline | lowestSkyline
  deriving DecidableEq, Repr

def Obj.all : List Obj :=
  [.binCount, .lastEmpty, .empty, .lastSmall, .small, .lastSkyline, .lowestSkyline]

/-- `Objective.evaluate(y)`: the arguments each class passes to its kernel
(`_bin_size = instance.bin_width * instance.bin_height`); `temp` is the private scratch array of
`BinCountAndEmpty` / `BinCountAndSmall` -/
def eval (o : Obj) (I : Inst) (rows : List Row) (temp : List Int) : Except Err Int :=
  match o with
  | .binCount => binCount rows
  | .lastEmpty => .ok (binCountAndLastEmpty rows)
  | .empty => binCountAndEmpty rows temp
  | .lastSmall => .ok (binCountAndLastSmall rows (I.W * I.H))
  | .small => binCountAndSmall rows (I.W * I.H) temp
  | .lastSkyline => binCountAndLastSkyline rows I.W I.H
  | .lowestSkyline => binCountAndLowestSkyline rows I.W I.H

/-- `pycommons.math.int_math.ceil_div(a, b) = -((-a) // b)` (Python floor division) -/
def ceilDiv (a b : Int) : Int := -(Int.fdiv (-a) b)

/-- the `for row in self._instance` loop of `BinCountAndLastSmall.lower_bound` -/
def smallestArea (I : Inst) : Int :=
  I.items.foldl (fun s it => let area := it.w * it.h
                             if s < 0 ∨ area < s then area else s) (-1)

/-- `lower_bound()`; `lb` = the instance's `lower_bound_bins` -/
def lower (o : Obj) (I : Inst) (lb : Int) : Int :=
  match o with
  | .binCount => lb
  | .lastEmpty | .empty => max I.nItems ((lb - 1) * I.nItems + 1)
  | .lastSmall | .small | .lastSkyline | .lowestSkyline =>
    if lb = 1 then I.totalArea else (lb - 1) * I.H * I.W + smallestArea I

/-- `upper_bound()` -/
def upper (o : Obj) (I : Inst) : Int :=
  match o with
  | .binCount => I.nItems
  | .lastEmpty | .empty => I.nItems * I.nItems
  | .lastSmall | .small | .lastSkyline | .lowestSkyline => I.nItems * I.H * I.W

/-- `to_bin_count(z)` -/
def toBinCount (o : Obj) (I : Inst) (z : Int) : Int :=
  match o with
  | .binCount => z
  | .lastEmpty | .empty => ceilDiv z I.nItems
  | .lastSmall | .small | .lastSkyline | .lowestSkyline => ceilDiv z (I.W * I.H)

/-- the geometric part of `Instance.lower_bound_bins` (`instance.py`, lines 629–632):
`lower_bound_bins = max(lower_bound_damv, lower_bound_geo)` -/
def lbGeo (I : Inst) : Int :=
  let binArea := I.H * I.W
  let g := I.totalArea / binArea
  if g * binArea < I.totalArea then g + 1 else g

/-! ## specification (from the module docstrings) -/

/-- number of items in bin `b` -/
def countIn (rows : List Row) (b : Int) : Int := ((rows.filter (fun a => a.bin = b)).length : Int)

/-- area covered by the items in bin `b` -/
def areaIn (rows : List Row) (b : Int) : Int :=
  ((rows.filter (fun a => a.bin = b)).map rarea).sum

/-- "The skyline at any horizontal `x` coordinate be the highest border of any object that
intersects with `x` horizontally": the maximum of the top edges of the rectangles of bin `b`
whose horizontal extent contains column `x` (the unit column `[x, x+1)`), and 0 if there is none -/
def sky (rows : List Row) (b x : Int) : Int :=
  ((rows.filter (fun a => a.bin = b ∧ a.l ≤ x ∧ x < a.r)).map (·.t)).foldl max 0

/-- `Σ_{lo ≤ x < hi} f x` -/
def sumFrom (lo hi : Int) (f : Int → Int) : Int :=
  ((List.range (hi - lo).toNat).map (fun (i : Nat) => f (lo + (i : Int)))).sum

/-- area under the skyline of bin `b` in a bin of width `W` -/
def skyArea (rows : List Row) (b W : Int) : Int := sumFrom 0 W (sky rows b)

/-- minimum of `f 1, …, f k` (`0` for `k ≤ 0`) -/
def minOver (f : Int → Int) (k : Int) : Int :=
  (((List.range k.toNat).map (fun (j : Nat) => f ((j : Int) + 1))).min?).getD 0

/-- the factor the bin count is multiplied with -/
def scale (o : Obj) (I : Inst) : Int :=
  match o with
  | .binCount => 1
  | .lastEmpty | .empty => I.nItems
  | .lastSmall | .small | .lastSkyline | .lowestSkyline => I.W * I.H

/-- the tie-breaking part of the documented value for a packing that uses `k` bins -/
def tie (o : Obj) (I : Inst) (rows : List Row) (k : Int) : Int :=
  match o with
  | .binCount => 1
  | .lastEmpty => countIn rows k
  | .empty => minOver (countIn rows) k
  | .lastSmall => areaIn rows k
  | .small => minOver (areaIn rows) k
  | .lastSkyline => skyArea rows k I.W
  | .lowestSkyline => minOver (fun b => skyArea rows b I.W) k

/-- the documented objective value of a packing `rows` that uses `k` bins:
`(k - 1) * scale + tie` (for `BinCount`: `k`) -/
def spec (o : Obj) (I : Inst) (rows : List Row) (k : Int) : Int :=
  (k - 1) * scale o I + tie o I rows k

/-- what the kernels need from a packing that is merely of the right shape (not feasible):
bin ids in `1..n` where `n` is the length of the scratch array, and at least one row -/
def InSpace (n : Nat) (rows : List Row) : Prop :=
  rows ≠ [] ∧ ∀ a ∈ rows, 1 ≤ a.bin ∧ a.bin ≤ n

instance (n : Nat) (rows : List Row) : Decidable (InSpace n rows) := by
  unfold InSpace; infer_instance

end BinObj
