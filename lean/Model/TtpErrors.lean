/-!
C07 — model of `moptipyapps/ttp/errors.py`: the numba kernel `count_errors` (as it is after the
two `fix:` commits bc86a40 and 45f1494) and `Errors.upper_bound`, plus the declarative
specification of a *feasible round-robin schedule* written from the property text.

Array-level conventions: a plan is the list of its rows (days), `temp_1` is a `List Int`,
`temp_2` a list of rows; the prior contents of both scratch arrays are inputs; every array
read/write goes through a checked accessor, `none` = the kernel would leave an array
(`IndexError` under bounds checking) or divide by zero (`days // (teams - 1)` for one team).
The kernel never relies on negative-index wrap (all computed indices are `≥ 0`).

The error counter `errors` of the code is kept as a record of *named components* whose sum
(`Errs.total`) is the returned number.
-/
namespace TtpErrors

/-- the six constraint settings of a TTP instance, in the order of the kernel's parameters -/
structure Cfg where
  hmin : Int
  hmax : Int
  amin : Int
  amax : Int
  smin : Int
  smax : Int
  deriving Repr, DecidableEq, Inhabited

abbrev Plan := List (List Int)

/-- checked `y[day, team]` -/
def entry? (p : Plan) (d t : Nat) : Option Int := (p[d]?).bind (·[t]?)

/-- the error counter, split by the rule that adds to it -/
structure Errs where
  bye : Int := 0         -- rule 2: `team_2_id == 0`
  incons : Int := 0      -- rule 1: other team's entry is not the mirror image
  streakMax : Int := 0   -- rules 4, 6
  streakMin : Int := 0   -- rules 3, 5 (and the streak part of rule 2)
  sepMin : Int := 0      -- rule 7
  sepMax : Int := 0      -- rule 8
  pairCount : Int := 0   -- rule 10
  balance : Int := 0     -- rule 9
  deriving Repr, DecidableEq, Inhabited

def Errs.total (e : Errs) : Int :=
  e.bye + e.incons + e.streakMax + e.streakMin + e.sepMin + e.sepMax + e.pairCount + e.balance

/-- the four local variables of the streak state machine -/
structure Streak where
  inHome : Bool
  homeLen : Int
  inAway : Bool
  awayLen : Int
  deriving Repr, DecidableEq, Inhabited

def Streak.init : Streak := ⟨false, -1, false, -1⟩

/-- `if len < min: errors += min - len` -/
def short (min len : Int) : Int := if len < min then min - len else 0

/-- the `team_2_id == 0` branch: new streak state and streak-min penalty -/
def byeStreak (c : Cfg) (s : Streak) : Streak × Int :=
  if s.inAway then
    ({ s with inAway := false, awayLen := -1 }, short c.amin s.awayLen)
  else if s.inHome then
    ({ s with inHome := false, homeLen := -1 }, short c.hmin s.homeLen)
  else (s, 0)

/-- home game: new state, streak-max penalty, streak-min penalty -/
def homeStreak (c : Cfg) (s : Streak) : Streak × Int × Int :=
  if s.inHome then
    ({ s with homeLen := s.homeLen + 1 }, (if s.homeLen + 1 > c.hmax then 1 else 0), 0)
  else if s.inAway then
    ({ inHome := true, homeLen := 1, inAway := false, awayLen := -1 }, 0, short c.amin s.awayLen)
  else
    ({ s with inHome := true, homeLen := 1 }, 0, 0)

/-- away game (note the code resets `home_streak_len` to `0` here, not to `-1`) -/
def awayStreak (c : Cfg) (s : Streak) : Streak × Int × Int :=
  if s.inAway then
    ({ s with awayLen := s.awayLen + 1 }, (if s.awayLen + 1 > c.amax then 1 else 0), 0)
  else if s.inHome then
    ({ inHome := false, homeLen := 0, inAway := true, awayLen := 1 }, 0, short c.hmin s.homeLen)
  else
    ({ s with inAway := true, awayLen := 1 }, 0, 0)

/-- the check after the day loop (fix 45f1494): a streak still open can be too short -/
def closeStreak (c : Cfg) (s : Streak) : Int :=
  if s.inAway then short c.amin s.awayLen
  else if s.inHome then short c.hmin s.homeLen
  else 0

/-- `temp_2[i, j] += 1`, checked -/
def incr2? (m : List (List Int)) (i j : Nat) : Option (List (List Int)) :=
  match m[i]? with
  | none => none
  | some row =>
    match row[j]? with
    | none => none
    | some x => some (m.set i (row.set j (x + 1)))

/-- index of the unordered pair in `temp_1`: `max*(max-1)//2 + min` -/
def pairIdx (a b : Nat) : Nat :=
  if a > b then a * (a - 1) / 2 + b else b * (b - 1) / 2 + a

/-- what happens to one cell of `temp_1` when its pairing is seen on `day`:
new cell value, rule-7 penalty, rule-8 penalty.  (`last ≥ day` is the `continue`.) -/
def touch (c : Cfg) (last : Int) (day : Nat) : Int × Int × Int :=
  if last ≥ 0 then
    if last < day then
      let diff : Int := day - last - 1
      if diff < c.smin then (day, c.smin - diff, 0)
      else if diff > c.smax then (day, 0, diff - c.smax)
      else (day, 0, 0)
    else (last, 0, 0)
  else (day, 0, 0)

/-- read `temp_1[idx]`, `touch`, write back; `none` = index outside `temp_1` -/
def sepStep (c : Cfg) (t1 : List Int) (idx day : Nat) : Option (List Int × Int × Int) :=
  match t1[idx]? with
  | none => none
  | some last =>
    let r := touch c last day
    some (t1.set idx r.1, r.2.1, r.2.2)

/-- loop state of the scan of one column -/
structure Acc where
  s : Streak
  e : Errs
  t1 : List Int
  t2 : List (List Int)
  deriving Repr

/-- body of `for day, team_2_id in enumerate(col)` for `team_1 = t` -/
def dayStep (c : Cfg) (p : Plan) (t : Nat) (a : Acc) (day : Nat) (v : Int) : Option Acc :=
  if v = 0 then
    let r := byeStreak c a.s
    some { a with s := r.1, e := { a.e with bye := a.e.bye + 1, streakMin := a.e.streakMin + r.2 } }
  else if v > 0 then
    let o := (v - 1).toNat
    match entry? p day o with
    | none => none
    | some other =>
      match incr2? a.t2 t o with
      | none => none
      | some t2' =>
        let r := homeStreak c a.s
        let e' := { a.e with incons := a.e.incons + (if other ≠ -((t : Int) + 1) then 1 else 0),
                             streakMax := a.e.streakMax + r.2.1,
                             streakMin := a.e.streakMin + r.2.2 }
        if t = o then some { s := r.1, e := e', t1 := a.t1, t2 := t2' }
        else
          match sepStep c a.t1 (pairIdx t o) day with
          | none => none
          | some q => some { s := r.1, e := { e' with sepMin := e'.sepMin + q.2.1, sepMax := e'.sepMax + q.2.2 },
                             t1 := q.1, t2 := t2' }
  else
    let o := (-v - 1).toNat
    match entry? p day o with
    | none => none
    | some other =>
      let r := awayStreak c a.s
      let e' := { a.e with incons := a.e.incons + (if other ≠ (t : Int) + 1 then 1 else 0),
                           streakMax := a.e.streakMax + r.2.1,
                           streakMin := a.e.streakMin + r.2.2 }
      if t = o then some { s := r.1, e := e', t1 := a.t1, t2 := a.t2 }
      else
        match sepStep c a.t1 (pairIdx t o) day with
        | none => none
        | some q => some { s := r.1, e := { e' with sepMin := e'.sepMin + q.2.1, sepMax := e'.sepMax + q.2.2 },
                           t1 := q.1, t2 := a.t2 }

/-- the day loop over a column, `day` counting up from `d` -/
def foldDays (c : Cfg) (p : Plan) (t : Nat) : Acc → Nat → List Int → Option Acc
  | a, _, [] => some a
  | a, d, v :: vs =>
    match dayStep c p t a d v with
    | none => none
    | some a' => foldDays c p t a' (d + 1) vs

/-- `col = y[:, team_1]`, checked -/
def column? (p : Plan) (t : Nat) : Option (List Int) := p.mapM (·[t]?)

/-- global state between columns -/
structure G where
  e : Errs
  t1 : List Int
  t2 : List (List Int)
  deriving Repr

/-- body of `for team_1 in range(teams)` -/
def teamStep (c : Cfg) (p : Plan) (g : G) (t : Nat) : Option G :=
  match column? p t with
  | none => none
  | some col =>
    match foldDays c p t { s := Streak.init, e := g.e, t1 := g.t1, t2 := g.t2 } 0 col with
    | none => none
    | some a =>
      some { e := { a.e with streakMin := a.e.streakMin + closeStreak c a.s }, t1 := a.t1, t2 := a.t2 }

def foldTeams (c : Cfg) (p : Plan) : G → List Nat → Option G
  | g, [] => some g
  | g, t :: ts =>
    match teamStep c p g t with
    | none => none
    | some g' => foldTeams c p g' ts

/-- checked `temp_2[i, j]` -/
def entry2? (m : List (List Int)) (i j : Nat) : Option Int := (m[i]?).bind (·[j]?)

/-- `errors += abs(ij + ji - games_per_combo); diff = abs(ij - ji); if diff > 1: errors += diff - 1`
as (rule-10 part, rule-9 part) -/
def pairTerm (gpc ij ji : Int) : Int × Int :=
  ((ij + ji - gpc).natAbs, if ((ij - ji).natAbs : Int) > 1 then ((ij - ji).natAbs : Int) - 1 else 0)

/-- `for j in range(i)` of the final pass -/
def pairRow (gpc : Int) (t2 : List (List Int)) (i : Nat) : List Nat → Option (Int × Int)
  | [] => some (0, 0)
  | j :: js =>
    match entry2? t2 i j, entry2? t2 j i with
    | some ij, some ji =>
      match pairRow gpc t2 i js with
      | none => none
      | some r => some ((pairTerm gpc ij ji).1 + r.1, (pairTerm gpc ij ji).2 + r.2)
    | _, _ => none

/-- `for i in range(teams)` of the final pass -/
def pairPass (gpc : Int) (t2 : List (List Int)) : List Nat → Option (Int × Int)
  | [] => some (0, 0)
  | i :: is =>
    match pairRow gpc t2 i (List.range i) with
    | none => none
    | some r =>
      match pairPass gpc t2 is with
      | none => none
      | some r' => some (r.1 + r'.1, r.2 + r'.2)

/-- `count_errors(y, …, temp_1, temp_2)` with `y.shape = (p.length, n)`; all components.
`t1₀`, `t2₀` are the scratch arrays with whatever they contained before the call. -/
def countErrs? (n : Nat) (p : Plan) (c : Cfg) (t1₀ : List Int) (t2₀ : List (List Int)) : Option Errs :=
  let t1 := t1₀.map (fun _ => (-1 : Int))          -- temp_1.fill(-1)
  let t2 := t2₀.map (fun r => r.map (fun _ => (0 : Int)))   -- temp_2.fill(0)
  match foldTeams c p { e := {}, t1 := t1, t2 := t2 } (List.range n) with
  | none => none
  | some g =>
    if n = 1 then none else                          -- days // (teams - 1): ZeroDivisionError
    let gpc : Int := ((p.length / (n - 1) : Nat) : Int)
    match pairPass gpc g.t2 (List.range n) with
    | none => none
    | some r => some { g.e with pairCount := r.1, balance := r.2 }

/-- the returned number -/
def countErrors? (n : Nat) (p : Plan) (c : Cfg) (t1₀ : List Int) (t2₀ : List (List Int)) : Option Int :=
  (countErrs? n p c t1₀ t2₀).map Errs.total

/-- the scratch arrays `Errors.__init__` allocates (contents arbitrary: `np.empty`) -/
def ScratchOk (n : Nat) (t1 : List Int) (t2 : List (List Int)) : Prop :=
  t1.length = n * (n - 1) / 2 ∧ t2.length = n ∧ ∀ r ∈ t2, r.length = n

instance (n : Nat) (t1 : List Int) (t2 : List (List Int)) : Decidable (ScratchOk n t1 t2) := by
  unfold ScratchOk; infer_instance

/-- clean scratch arrays of the right size; the value of the kernel does not depend on the
contents (theorem `scratch_irrelevant`), so this is *the* objective value -/
def countErrors (n : Nat) (p : Plan) (c : Cfg) : Option Int :=
  countErrors? n p c (List.replicate (n * (n - 1) / 2) 0) (List.replicate n (List.replicate n 0))

/-- `Errors.upper_bound()`: `(4*D - 1)*n - 1` with `D = (n - 1)*rounds` -/
def upperBound (n rounds : Nat) : Int :=
  (4 * (((n : Int) - 1) * rounds) - 1) * n - 1

/-! ## Specification (from the property text and the docstring; not from the loop) -/

/-- what `GamePlanSpace.validate` accepts for an instance with `n` teams and `rounds` rounds -/
def InSpace (n rounds : Nat) (p : Plan) : Prop :=
  p.length = (n - 1) * rounds ∧ ∀ row ∈ p, row.length = n ∧ ∀ v ∈ row, -(n : Int) ≤ v ∧ v ≤ n

instance (n rounds : Nat) (p : Plan) : Decidable (InSpace n rounds p) := by
  unfold InSpace; infer_instance

/-- what `Instance.__new__` accepts as constraint settings (`ll = rounds*n - 1`) -/
def Cfg.Accepted (c : Cfg) (n rounds : Nat) : Prop :=
  let ll : Int := (rounds : Int) * n - 1
  1 ≤ c.hmin ∧ c.hmin ≤ c.hmax ∧ c.hmax ≤ ll ∧ 1 ≤ c.amin ∧ c.amin ≤ c.amax ∧ c.amax ≤ ll ∧
  0 ≤ c.smin ∧ c.smin ≤ c.smax ∧ c.smax ≤ ll

instance (c : Cfg) (n rounds : Nat) : Decidable (c.Accepted n rounds) := by
  unfold Cfg.Accepted; infer_instance

/-- the entry of team `t` (0-based) on day `d`; `0` (= no game) outside the plan -/
def cell (p : Plan) (d t : Nat) : Int := (p.getD d []).getD t 0

/-- 0-based index of the opponent named by a non-zero entry -/
def opp (v : Int) : Nat := v.natAbs - 1

/-- Opponents and home/away roles are mutually consistent: if `A` is listed at home against `B`
then `B` is listed away at `A` on that day, and vice versa. -/
def Consistent (n : Nat) (p : Plan) : Prop :=
  ∀ d < p.length, ∀ t < n,
    (cell p d t > 0 → cell p d (opp (cell p d t)) = -((t : Int) + 1)) ∧
    (cell p d t < 0 → cell p d (opp (cell p d t)) = (t : Int) + 1)

instance (n : Nat) (p : Plan) : Decidable (Consistent n p) := by unfold Consistent; infer_instance

/-- every team plays on every day -/
def NoBye (n : Nat) (p : Plan) : Prop := ∀ d < p.length, ∀ t < n, cell p d t ≠ 0

instance (n : Nat) (p : Plan) : Decidable (NoBye n p) := by unfold NoBye; infer_instance

/-- the schedule of one team: its entries day by day -/
def col (p : Plan) (t : Nat) : List Int := p.map (·.getD t 0)

/-- kind of a day for a team: `1` home game, `-1` away game, `0` no game -/
def kind (v : Int) : Int := if v > 0 then 1 else if v < 0 then -1 else 0

/-- put a block of `k` days of kind `s` in front of a list of blocks -/
def pushRun (s : Int) (k : Nat) : List (Int × Nat) → List (Int × Nat)
  | (s', j) :: rest => if s = s' then (s', j + k) :: rest else (s, k) :: (s', j) :: rest
  | [] => [(s, k)]

/-- the maximal blocks of consecutive days of the same kind, with their lengths; home and
away blocks are the *streaks* (a day without a game separates streaks) -/
def runs : List Int → List (Int × Nat)
  | [] => []
  | v :: vs => pushRun (kind v) 1 (runs vs)

/-- no home or away streak leaves its permitted length range -/
def StreaksOk (c : Cfg) (sched : List Int) : Prop :=
  ∀ r ∈ runs sched, (r.1 = 1 → c.hmin ≤ r.2 ∧ (r.2 : Int) ≤ c.hmax) ∧
                    (r.1 = -1 → c.amin ≤ r.2 ∧ (r.2 : Int) ≤ c.amax)

instance (c : Cfg) (s : List Int) : Decidable (StreaksOk c s) := by unfold StreaksOk; infer_instance

/-- the days on which team `t` meets team `o` (at home or away), increasing -/
def meetingDays (p : Plan) (t o : Nat) : List Nat :=
  (List.range p.length).filter (fun d => (cell p d t).natAbs = o + 1)

/-- number of days strictly between consecutive elements -/
def gaps : List Nat → List Int
  | a :: b :: rest => ((b : Int) - a - 1) :: gaps (b :: rest)
  | _ => []

/-- repeated pairings respect the separation limits -/
def SeparationOk (c : Cfg) (p : Plan) (t o : Nat) : Prop :=
  ∀ g ∈ gaps (meetingDays p t o), c.smin ≤ g ∧ g ≤ c.smax

instance (c : Cfg) (p : Plan) (t o : Nat) : Decidable (SeparationOk c p t o) := by
  unfold SeparationOk; infer_instance

/-- how often `t` plays at home against `o` / away at `o` -/
def homeGames (p : Plan) (t o : Nat) : Nat := (col p t).count ((o : Int) + 1)
def awayGames (p : Plan) (t o : Nat) : Nat := (col p t).count (-((o : Int) + 1))

/-- every pairing occurs `rounds` times with balanced home/away roles -/
def PairingsOk (n rounds : Nat) (p : Plan) : Prop :=
  ∀ t < n, ∀ o < n, t ≠ o →
    homeGames p t o + awayGames p t o = rounds ∧
    ((homeGames p t o : Int) - awayGames p t o).natAbs ≤ 1

instance (n rounds : Nat) (p : Plan) : Decidable (PairingsOk n rounds p) := by
  unfold PairingsOk; infer_instance

/-- **feasible round-robin schedule** (the right-hand side of C07) -/
def FeasiblePlan (n rounds : Nat) (c : Cfg) (p : Plan) : Prop :=
  NoBye n p ∧ Consistent n p ∧ (∀ t < n, StreaksOk c (col p t)) ∧
  (∀ t < n, ∀ o < n, t ≠ o → SeparationOk c p t o) ∧ PairingsOk n rounds p

instance (n rounds : Nat) (c : Cfg) (p : Plan) : Decidable (FeasiblePlan n rounds c p) := by
  unfold FeasiblePlan; infer_instance

/-! ### the documented per-rule count (docstring of `count_errors`, rules 1–10) -/

def posPart (x : Int) : Int := if x > 0 then x else 0

/-- rules 3–6: per day a streak is too short or too long -/
def runPenalty (c : Cfg) (r : Int × Nat) : Int :=
  if r.1 = 1 then posPart (c.hmin - r.2) + posPart (r.2 - c.hmax)
  else if r.1 = -1 then posPart (c.amin - r.2) + posPart (r.2 - c.amax)
  else 0

def streakCount (c : Cfg) (sched : List Int) : Int := List.sum ((runs sched).map (runPenalty c))

/-- rules 7, 8: by how many games a repetition comes too early / too late -/
def gapPenalty (c : Cfg) (g : Int) : Int := posPart (c.smin - g) + posPart (g - c.smax)

def sepCount (c : Cfg) (p : Plan) (t o : Nat) : Int :=
  List.sum ((gaps (meetingDays p t o)).map (gapPenalty c))

/-- all unordered pairs `(i, j)` with `j < i < n` -/
def pairs (n : Nat) : List (Nat × Nat) :=
  (List.range n).flatMap (fun i => (List.range i).map (fun j => (i, j)))

/-- The documented number of errors of a mutually consistent plan: one per missing game
(rule 2), streak violations per day (3–6), separation violations per game and *per pairing*
(7, 8: counted once, not for both teams), home/away imbalance beyond 1 (9), deviation of the
number of meetings from `rounds` (10). -/
def documentedCount (n rounds : Nat) (c : Cfg) (p : Plan) : Int :=
  List.sum ((List.range n).map (fun t => ((col p t).count 0 : Int)))
  + List.sum ((List.range n).map (fun t => streakCount c (col p t)))
  + List.sum ((pairs n).map (fun ij => sepCount c p ij.2 ij.1))
  + List.sum ((pairs n).map (fun ij =>
      posPart ((((homeGames p ij.1 ij.2 : Int) - homeGames p ij.2 ij.1).natAbs : Int) - 1)))
  + List.sum ((pairs n).map (fun ij =>
      ((((homeGames p ij.1 ij.2 : Int) + awayGames p ij.1 ij.2) - rounds).natAbs : Int)))

end TtpErrors
