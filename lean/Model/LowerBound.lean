import Model.Pack
/-!
# C03 — model of the bin-count lower bound of `moptipyapps/binpacking2d/instance.py`

Executable model (core Lean only) of

* `__cutsq`  (`cutLoop`, `cutItem`, `cutsq`): every item is put into horizontal orientation and
  cut Euclid-style into squares (`while h > 1`), the per-item square list is repeated `times`
  times, the whole list is sorted in decreasing order;
* `__lb_q`   (`classify`, `removeFirstFit`, `greedy`, `lbQ`): the sets S1…S4 (if/elif chain with
  `break`), S23, the reversed S2, the greedy removal loop with its early `break`, `b1`, `b2`,
  `l̃`, the Theorem-3 term;
* `_lower_bound_damv` (`lowerBoundDamv`): orientation swap, maximum over `q ∈ range(H//2+1)`,
  `max(1, ·)`;
* the geometric bound and `lower_bound_bins = max(damv, geo)` of `Instance.__new__`
  (`lowerBoundGeo`, `Inst.lowerBoundBins`).

Modelling decisions (each is checked by the correspondence harness `harness/c03.py`):

* The code keeps *index* lists `s1 … s4` into the sorted square list `j_js` and only ever reads
  `j_js[i]` through them; the model keeps the lists of the *values* `j_js[i]` in the same order.
* `half_width = bin_width / 2` and `half_height = bin_height / 2` are Python floats and
  `l_i > half_width` compares an `int` with a `float` exactly.  For `|W| < 2^53` the float `W/2`
  is exact, hence `l > W/2 ⇔ 2*l > W`; the model uses the integer form.  (`Inst.Valid` bounds
  `W, H ≤ 10^12 < 2^53`.)
* `//` is Python floor division; all divisors are ≥ 1 for valid instances (`Props/C03.lean :
  damv_defined`), where it agrees with Lean's `Int` division `/`.  The driver answers `ERR` when
  a divisor is `0` (Python: `ZeroDivisionError`) or the `max()` over `q` is empty (`ValueError`).
* `list.sort(reverse=True)` on Python ints: the result is the unique non-increasing
  rearrangement; it is modelled by an insertion sort (`sortDesc`).
* the `while h > 1` loop is modelled with fuel `h` (`cutLoop`); `Proofs/LowerBoundCut.lean :
  cutLoop_fuel` (`Props/C03.lean : cutLoop_fuel_enough`) shows the fuel never runs out (result independent of any larger fuel).
-/
namespace Pack
namespace LB

/-! ## `__cutsq` -/

/-- `while h > 1: k = w // h; s += [h] * k; w, h = h, w - k*h`  (fuel-bounded; fuel `≥ h` is enough) -/
def cutLoop : Nat → Int → Int → List Int
  | 0, _, _ => []
  | fuel + 1, w, h =>
    if h > 1 then List.replicate (w / h).toNat h ++ cutLoop fuel h (w - (w / h) * h) else []

/-- horizontal orientation of an item: `(max, min)` exactly as `if h > w: w, h = h, w` -/
def orient (w h : Int) : Int × Int := if h > w then (h, w) else (w, h)

/-- the squares `s` cut from one item (one copy) -/
def cutOne (w h : Int) : List Int :=
  let p := orient w h
  cutLoop p.2.toNat p.1 p.2

/-- `j_sq.extend(s * times if times > 1 else s)` -/
def cutItem (it : Item) : List Int :=
  let s := cutOne it.w it.h
  if it.rep > 1 then (List.replicate it.rep.toNat s).flatten else s

def insertDesc (x : Int) : List Int → List Int
  | [] => [x]
  | y :: ys => if x ≥ y then x :: y :: ys else y :: insertDesc x ys

/-- `list.sort(reverse=True)` -/
def sortDesc (l : List Int) : List Int := l.foldr insertDesc []

/-- `__cutsq(matrix)` -/
def cutsq (items : List Item) : List Int := sortDesc (items.flatMap cutItem)

/-! ## `__lb_q` -/

/-- the value lists of `s1 … s4` in the order of appending -/
structure Sets where
  s1 : List Int
  s2 : List Int
  s3 : List Int
  s4 : List Int
  deriving Repr, DecidableEq

def Sets.empty : Sets := ⟨[], [], [], []⟩

/-- the classification loop `for i in range(m): … else: break` -/
def classify (W H q : Int) : List Int → Sets
  | [] => Sets.empty
  | l :: rest =>
    if l > W - q then let r := classify W H q rest; { r with s1 := l :: r.s1 }
    else if 2 * l > W then let r := classify W H q rest; { r with s2 := l :: r.s2 }
    else if 2 * l > H then let r := classify W H q rest; { r with s3 := l :: r.s3 }
    else if l ≥ q then let r := classify W H q rest; { r with s4 := l :: r.s4 }
    else Sets.empty

/-- inner loop of the greedy: delete the first element with `needs <= residual`;
`none` = `not_found` -/
def removeFirstFit (residual : Int) : List Int → Option (List Int)
  | [] => none
  | x :: xs => if x ≤ residual then some xs else (removeFirstFit residual xs).map (x :: ·)

/-- `for i in s2: … if not_found: break` on the working copy `s3_minus_s3d` -/
def greedy (W : Int) : List Int → List Int → List Int
  | [], s3 => s3
  | l2 :: rest, s3 =>
    match removeFirstFit (W - l2) s3 with
    | some s3' => greedy W rest s3'
    | none => s3

/-- `b = a // d; if b * d < a: b += 1` -/
def ceilDiv (a d : Int) : Int :=
  let b := a / d
  if b * d < a then b + 1 else b

/-- `l_tilde` (Equation 6) for already classified sets -/
def lTilde (W H : Int) (S : Sets) : Int :=
  let rem := greedy W S.s2.reverse S.s3
  let b1 := ceilDiv rem.sum W
  let b2 := ceilDiv (rem.length : Int) (W / (H / 2 + 1))
  (S.s2.length : Int) + max b1 b2

/-- `denom` of the Theorem-3 term -/
def denom (W H q : Int) (S : Sets) : Int :=
  let s23 := (S.s2 ++ S.s3).filter (fun l => l > H - q)
  ((S.s2 ++ S.s3 ++ S.s4).map (fun l => l * l)).sum
    - (W * H * lTilde W H S - (s23.map (fun l => l * (H - l))).sum)

/-- `__lb_q(bin_width, bin_height, q, j_js)` -/
def lbQ (W H q : Int) (sq : List Int) : Int :=
  let S := classify W H q sq
  let bound := (S.s1.length : Int) + lTilde W H S
  let d := denom W H q S
  if d > 0 then bound + ceilDiv d (W * H) else bound

/-- `max(iterable)` for a non-empty list -/
def maxOf (l : List Int) : Int := l.foldl max (l.headD 0)

/-- orientation swap of `_lower_bound_damv` -/
def frame (W H : Int) : Int × Int := if H > W then (H, W) else (W, H)

/-- the `q` values `range((bin_height // 2) + 1)` -/
def qRange (H : Int) : List Int := (List.range (H / 2 + 1).toNat).map (fun (q : Nat) => (q : Int))

/-- `_lower_bound_damv(bin_width, bin_height, matrix)` -/
def lowerBoundDamv (W H : Int) (items : List Item) : Int :=
  let f := frame W H
  let sq := cutsq items
  max 1 (maxOf ((qRange f.2).map (fun q => lbQ f.1 f.2 q sq)))

/-- Python would raise instead of returning a number (`ZeroDivisionError` in `__lb_q`, `max()` of
an empty range); never the case for valid instances (`Props/C03.lean : damv_defined`) -/
def damvRaises (W H : Int) : Bool :=
  let f := frame W H
  f.2 / 2 + 1 ≤ 0 || f.1 == 0 || f.1 / (f.2 / 2 + 1) == 0

end LB

open LB in
/-- the geometric bound of the constructor: `item_area // bin_area`, `+1` if there is a remainder -/
def Inst.lowerBoundGeo (I : Inst) : Int := ceilDiv I.totalArea (I.H * I.W)

open LB in
/-- `lower_bound_bins = max(lower_bound_damv, lower_bound_geo)` -/
def Inst.lowerBoundBins (I : Inst) : Int := max (lowerBoundDamv I.W I.H I.items) I.lowerBoundGeo

/-! ## specification vocabulary -/

/-- `c = ⌈a / b⌉` for `b > 0`, written without division -/
def IsCeilDiv (a b c : Int) : Prop := (c - 1) * b < a ∧ a ≤ c * b

/-- the full C03 statement (DAMV part): the computed lower bound never exceeds the number of bins
of any feasible packing (rotation allowed) -/
def LowerBoundLeBins : Prop :=
  ∀ (I : Inst) (rows : List Row) (k : Int), I.Valid → Feasible I rows k → I.lowerBoundBins ≤ k

end Pack
