import Model.Tsp
/-!
C08 — model of `moptipyapps/ttp/plan_length.py` (kernel `game_plan_length`, class
`GamePlanLength`: bye penalty, lower/upper bound) and of the constructor
`moptipyapps/ttp/instance.py:Instance.__new__` as far as it decides which distance matrices
exist (it delegates the matrix checks to the TSP constructor modelled in `Model/Tsp.lean`).

A plan is a list of rows (days × teams) of `Int`, the distance matrix a list of rows.  Every
array read goes through the checked accessor `Tsp.entry?` (`none` = access outside the
array; the kernel never produces a negative index, see `nextLoc?`).  Unbounded `Int`; the
int64 accumulator is the subject of the range theorem `planLength_no_overflow`.
-/
namespace TtpLength
open Base Tsp

abbrev Plan := List (List Int)

/-! ### the kernel `game_plan_length(y, distances, bye_penalty)` -/

/-- the `if next_location < 0 … elif next_location > 0 … else` cascade: where the team has to be
on a day with entry `v`; `none` = bye -/
def nextLoc? (team : Nat) (v : Int) : Option Nat :=
  if v < 0 then some (-v - 1).toNat      -- away game at the other team: `(-v) - 1`
  else if v > 0 then some team           -- home game at home
  else none                              -- bye

/-- `for day in range(days)` for one team; the remaining day indices are the list argument,
the loop state is `(length, current_location)`; `none` = an access outside `y` or `distances` -/
def dayLoop? (y : Plan) (d : Matrix) (pen : Int) (team : Nat) :
    List Nat → Int → Nat → Option (Int × Nat)
  | [], len, cur => some (len, cur)
  | day :: rest, len, cur =>
    match entry? y day team with                       -- `y[day, team]`
    | none => none
    | some v =>
      match nextLoc? team v with
      | none => dayLoop? y d pen team rest (len + pen) cur     -- `length += bye_penalty; continue`
      | some nxt =>
        if cur = nxt then dayLoop? y d pen team rest len cur   -- `continue  # no move`
        else match entry? d cur nxt with                       -- `distances[cur, nxt]`
          | none => none
          | some x => dayLoop? y d pen team rest (len + x) nxt

/-- body of `for team in range(teams)`: the day loop, then `if current_location != team` the leg
back home -/
def teamWalk? (y : Plan) (d : Matrix) (pen : Int) (days team : Nat) (len : Int) : Option Int :=
  match dayLoop? y d pen team (List.range days) len team with
  | none => none
  | some (len', cur) =>
    if cur ≠ team then
      match entry? d cur team with
      | none => none
      | some x => some (len' + x)
    else some len'

def teamsLoop? (y : Plan) (d : Matrix) (pen : Int) (days : Nat) : List Nat → Int → Option Int
  | [], len => some len
  | team :: rest, len =>
    match teamWalk? y d pen days team len with
    | none => none
    | some len' => teamsLoop? y d pen days rest len'

/-- `game_plan_length`; `days, teams = y.shape` (`teams` is a parameter because a list of rows
does not know its width when there are no rows) -/
def planLength? (y : Plan) (teams : Nat) (d : Matrix) (pen : Int) : Option Int :=
  teamsLoop? y d pen y.length (List.range teams) 0

/-! the same loops, total (`Tsp.entry` reads `0` outside an array; every theorem that speaks about
the real kernel goes through `planLength?_noOOB`) -/

def dayLoop (y : Plan) (d : Matrix) (pen : Int) (team : Nat) : List Nat → Int → Nat → Int × Nat
  | [], len, cur => (len, cur)
  | day :: rest, len, cur =>
    match nextLoc? team (entry y day team) with
    | none => dayLoop y d pen team rest (len + pen) cur
    | some nxt =>
      if cur = nxt then dayLoop y d pen team rest len cur
      else dayLoop y d pen team rest (len + entry d cur nxt) nxt

def teamWalk (y : Plan) (d : Matrix) (pen : Int) (days team : Nat) (len : Int) : Int :=
  let r := dayLoop y d pen team (List.range days) len team
  if r.2 ≠ team then r.1 + entry d r.2 team else r.1

def teamsLoop (y : Plan) (d : Matrix) (pen : Int) (days : Nat) : List Nat → Int → Int
  | [], len => len
  | team :: rest, len => teamsLoop y d pen days rest (teamWalk y d pen days team len)

def planLength (y : Plan) (teams : Nat) (d : Matrix) (pen : Int) : Int :=
  teamsLoop y d pen y.length (List.range teams) 0

/-- every value the accumulator `length` takes, in order (for the int64 range clause) -/
def dayPartials (y : Plan) (d : Matrix) (pen : Int) (team : Nat) :
    List Nat → Int → Nat → List Int
  | [], _, _ => []
  | day :: rest, len, cur =>
    match nextLoc? team (entry y day team) with
    | none => (len + pen) :: dayPartials y d pen team rest (len + pen) cur
    | some nxt =>
      if cur = nxt then dayPartials y d pen team rest len cur
      else (len + entry d cur nxt) :: dayPartials y d pen team rest (len + entry d cur nxt) nxt

def teamsPartials (y : Plan) (d : Matrix) (pen : Int) (days : Nat) : List Nat → Int → List Int
  | [], _ => []
  | team :: rest, len =>
    dayPartials y d pen team (List.range days) len team
      ++ teamWalk y d pen days team len :: teamsPartials y d pen days rest (teamWalk y d pen days team len)

def planPartials (y : Plan) (teams : Nat) (d : Matrix) (pen : Int) : List Int :=
  teamsPartials y d pen y.length (List.range teams) 0

/-! ### `GamePlanLength`: bye penalty and bounds -/

/-- `instance.max()`: the largest entry of the whole matrix, diagonal included (`none` = empty) -/
def maxEntry (d : Matrix) : Option Int :=
  match d.flatten with
  | [] => none
  | a :: r => some (r.foldl max a)

/-- `self.bye_penalty = 2 * int(instance.max()) + 1` -/
def byePenalty (M : Int) : Int := 2 * M + 1

/-- `upper_bound()`: `n * days * bye_penalty` with `days = (n - 1) * rounds` -/
def upperBound (n rounds : Nat) (pen : Int) : Int := (n : Int) * (((n : Int) - 1) * rounds) * pen

/-- `lower_bound()` -/
def lowerBound : Int := 0

/-! ### the TTP instance constructor (which matrices / settings exist) -/

structure Cfg where
  rounds : Int
  hmin : Int
  hmax : Int
  amin : Int
  amax : Int
  smin : Int
  smax : Int
  deriving Repr

structure Inst where
  n : Nat
  rounds : Nat
  d : Matrix
  maxD : Int
  planDtype : DType
  tsp : Tsp.Inst
  deriving Repr

/-- `Instance.__new__(name, matrix, teams, rounds, …)` with `len(teams) = len(matrix)` distinct
blank-free names (names are outside the model); `none` = the constructor raises -/
def mkTtp (M : Matrix) (c : Cfg) : Option Inst :=
  let n := M.length
  if n % 2 ≠ 0 then none else
  match Tsp.mkInstance 0 M (c.rounds * n) with     -- `super().__new__(cls, name, 0, matrix, rounds * n)`
  | none => none
  | some t =>
    if c.rounds < 1 ∨ c.rounds > 100 then none else
    let ll : Int := c.rounds * n - 1
    if c.hmin < 1 ∨ c.hmin > ll then none else
    if c.hmax < c.hmin ∨ c.hmax > ll then none else
    if c.amin < 1 ∨ c.amin > ll then none else
    if c.amax < c.amin ∨ c.amax > ll then none else
    if c.smin < 0 ∨ c.smin > ll then none else
    if c.smax < c.smin ∨ c.smax > ll then none else
    match dtypeFor (-(n : Int)) n, maxEntry t.stored with
    | some pd, some mx =>
      some { n := n, rounds := c.rounds.toNat, d := t.stored, maxD := mx, planDtype := pd, tsp := t }
    | _, _ => none

/-- membership in the game-plan space of an instance with `n` teams and `rounds` rounds
(`GamePlanSpace.validate`): shape `((n-1)·rounds, n)`, entries in `-n..n` -/
def InSpace (y : Plan) (n rounds : Nat) : Prop :=
  y.length = (n - 1) * rounds ∧ ∀ r ∈ y, r.length = n ∧ ∀ v ∈ r, -(n : Int) ≤ v ∧ v ≤ n

instance (y : Plan) (n rounds : Nat) : Decidable (InSpace y n rounds) := by
  unfold InSpace; infer_instance

/-- the plan with entry `(day, team)` replaced by a bye -/
def setBye (y : Plan) (day team : Nat) : Plan := y.set day ((y.getD day []).set team 0)

/-! ### Specification: the tournament model in the property's words

Every team is at home before the first day.  For each *game* it has to be at the venue of that
game: the opponent's town for an away game, its own town for a home game.  After the last day
it has to be home again.  The travel length of a team is the sum of the distances between
consecutive places of this itinerary (being at the same place twice in a row is no travel);
each day without a game costs the bye penalty.  The plan length is the sum over all teams. -/

/-- what team `t` has in the plan, day by day -/
def column (y : Plan) (t : Nat) : List Int := y.map (·.getD t 0)

/-- town in which game `v ≠ 0` of team `t` takes place (towns are numbered like teams, from 0) -/
def venue (t : Nat) (v : Int) : Nat := if v < 0 then (-v - 1).toNat else t

/-- the games of a team in day order -/
def games (col : List Int) : List Int := col.filter (· ≠ 0)

/-- the itinerary of team `t`: home, the venue of each game, home -/
def itinerary (t : Nat) (col : List Int) : List Nat := t :: ((games col).map (venue t) ++ [t])

/-- distance travelled between two consecutive places of an itinerary -/
def leg (d : Matrix) (a b : Nat) : Int := if a = b then 0 else entry d a b

/-- distance travelled along a sequence of places -/
def travel (d : Matrix) : List Nat → Int
  | a :: b :: rest => leg d a b + travel d (b :: rest)
  | _ => 0

/-- days without a game -/
def byes (col : List Int) : Nat := col.count 0

def teamCost (d : Matrix) (pen : Int) (t : Nat) (col : List Int) : Int :=
  travel d (itinerary t col) + pen * byes col

/-- the documented plan length -/
def walkLength (y : Plan) (teams : Nat) (d : Matrix) (pen : Int) : Int :=
  ((List.range teams).map fun t => teamCost d pen t (column y t)).sum

/-- all distances between different towns are non-negative (what the RobinX loader enforces with
`dist ∈ 0..10^12`; the constructor itself does **not** check it) -/
def NonNeg (d : Matrix) (n : Nat) : Prop := ∀ i < n, ∀ j < n, 0 ≤ entry d i j

instance (d : Matrix) (n : Nat) : Decidable (NonNeg d n) := by unfold NonNeg; infer_instance

end TtpLength
