/-!
C11 — model of `moptipyapps/dynamic_control/objective.py`: the classes `FigureOfMerit` and
`FigureOfMeritLE` as an *object state machine*.

What is logic here and what is runtime: the integrator (`run_ode`), the figure of merit of one
training case (`j_from_ode`), the extraction of training data (`diff_from_ode`), `numpy.mean`,
`log1p`, `expm1` and all float comparisons are runtime; they are the fields of `Env`
(arbitrary *functions of their arguments*).  The logic is what the object does with them:
the reused `__results` buffer (allocated with `np.empty`, i.e. with arbitrary stale content),
the loop over the training cases with its early `return 1e200`, the `__collect` flag, the two
collection lists (which are `None` when `supports_model_mode=False`), `set_raw`/`set_model`
swapping `__equations`, `initialize()` clearing the lists, and the concatenate-and-cache of
`get_differentials()`.

The fields of `St` are the mutable private fields of the class, one to one.  Python exceptions
are outcomes (`Out.error`, `Out.oob`), never defaults.  No Mathlib.
-/
namespace Fom

/-- The numerics the objective is built on.  `V` = float values, `R` = one row of collected
training data, `X` = controller parameter vectors, `E` = differential-equation callables. -/
structure Env (V R X E : Type) where
  /-- `len(instance.system.training_starting_states)` -/
  n : Nat
  /-- `instance.system.equations` -/
  raw : E
  /-- `j_from_ode(run_ode(training[i], equations, controller, x, …), …)` -/
  J : E → X → Nat → V
  /-- `diff_from_ode(run_ode(training[i], equations, controller, x, …), state_dim)`:
  (state+control rows, differential rows) -/
  diff : E → X → Nat → List R × List R
  /-- value returned by `sum_up_results(results)` (mean, or `expm1(mean(log1p(·)))`) -/
  agg : List V → V
  /-- what `sum_up_results` leaves in every slot of `results` (identity for
  `FigureOfMerit`; `log1p` for `FigureOfMeritLE`, which calls `np.log1p(results, results)`) -/
  post : V → V
  /-- `0.0 <= z <= 1e100` -/
  ok : V → Bool
  /-- `1e200` -/
  fail : V

/-- The mutable fields of one objective object. -/
structure St (V R E : Type) where
  /-- `__equations` -/
  eq : E
  /-- `__collect` -/
  collect : Bool
  /-- `__results` (reused, never cleared) -/
  results : List V
  /-- `__collection_sc` (`none` = Python `None`) -/
  sc : Option (List (List R))
  /-- `__collection_df` -/
  df : Option (List (List R))

inductive Op (X E : Type) where
  | evaluate (x : X)
  | initialise
  | setRaw
  | setModel (m : E)
  | getDifferentials

/-- What the caller of a method sees. -/
inductive Out (V R : Type) where
  | value (v : V)
  | unit
  | data (sc df : List R)
  /-- a Python exception other than an index error (`ValueError`, `AttributeError`, `TypeError`) -/
  | error
  /-- an access outside an array / a list -/
  | oob
deriving DecidableEq

variable {V R X E : Type}

/-- `__init__(instance, supports_model_mode)`; `garbage` is the content `np.empty` happened to
return for `__results`. -/
def init (env : Env V R X E) (supports : Bool) (garbage : List V) : St V R E :=
  { eq := env.raw
    collect := supports                       -- `self.__collection_df is not None`
    results := garbage
    sc := if supports then some [] else none
    df := if supports then some [] else none }

/-- checked `results[i] = v` -/
def setAt? : List V → Nat → V → Option (List V)
  | [], _, _ => none
  | _ :: t, 0, v => some (v :: t)
  | h :: t, i + 1, v => (setAt? t i v).map (h :: ·)

/-- how the loop over the training cases ended -/
inductive Status where
  | done | failed | oob | crash
deriving DecidableEq

/-- the arrays the loop of `evaluate` mutates -/
structure Acc (V R : Type) where
  res : List V
  sc : Option (List (List R))
  df : Option (List (List R))

/-- `for i, start in enumerate(training): …` of `evaluate`, from case `i` with `k` cases to go.
```
    results[i] = z = j_from_ode(run_ode(start, equations, controller, x, …), …)
    if not (0.0 <= z <= 1e100): return 1e200
    if collector is not None: collector(diff_from_ode(the_ode, state_dim))
```
`collector` is `self.__append`, which appends to `__collection_sc` and then to
`__collection_df` (an `AttributeError` if a list is `None`). -/
def loop (env : Env V R X E) (e : E) (x : X) (coll : Bool) :
    Nat → Nat → Acc V R → Status × Acc V R
  | _, 0, a => (.done, a)
  | i, k + 1, a =>
    let z := env.J e x i
    match setAt? a.res i z with
    | none => (.oob, a)
    | some res' =>
      if env.ok z = false then (.failed, { a with res := res' })
      else if coll then
        let b := env.diff e x i
        match a.sc with
        | none => (.crash, { a with res := res' })
        | some l =>
          match a.df with
          | none => (.crash, { a with res := res', sc := some (l ++ [b.1]) })
          | some d => loop env e x coll (i + 1) k
              { res := res', sc := some (l ++ [b.1]), df := some (d ++ [b.2]) }
      else loop env e x coll (i + 1) k { a with res := res' }

/-- `evaluate(x)`: the loop, then `z = self.sum_up_results(results)` and
`return z if 0.0 <= z <= 1e100 else 1e200`. -/
def evaluate (env : Env V R X E) (s : St V R E) (x : X) : St V R E × Out V R :=
  match loop env s.eq x s.collect 0 env.n ⟨s.results, s.sc, s.df⟩ with
  | (.done, a) =>
    let z := env.agg a.res
    ({ s with results := a.res.map env.post, sc := a.sc, df := a.df },
     .value (if env.ok z then z else env.fail))
  | (.failed, a) => ({ s with results := a.res, sc := a.sc, df := a.df }, .value env.fail)
  | (.oob, a) => ({ s with results := a.res, sc := a.sc, df := a.df }, .oob)
  | (.crash, a) => ({ s with results := a.res, sc := a.sc, df := a.df }, .error)

/-- `set_raw()` -/
def setRaw (env : Env V R X E) (s : St V R E) : St V R E :=
  { s with eq := env.raw, collect := s.sc.isSome }

/-- `initialize()`: clear both lists (if they exist), then `set_raw()`. -/
def initialise (env : Env V R X E) (s : St V R E) : St V R E :=
  setRaw env { s with df := s.df.map (fun _ => []), sc := s.sc.map (fun _ => []) }

/-- `set_model(equations)` -/
def setModel (s : St V R E) (m : E) : St V R E × Out V R :=
  match s.sc with
  | none => (s, .error)                        -- ValueError("Cannot go into model mode …")
  | some _ => ({ s with eq := m, collect := false }, .unit)

/-- `get_differentials()`:
```
    if clsc is None: raise ValueError
    if len(clsc) == 1: return clsc[0], cldf[0]
    sc = np.concatenate(clsc); df = np.concatenate(cldf)     # ValueError on an empty list
    clsc.clear(); clsc.append(sc); cldf.clear(); cldf.append(df)
    return sc, df
``` -/
def getDifferentials (s : St V R E) : St V R E × Out V R :=
  match s.sc with
  | none => (s, .error)
  | some clsc =>
    if clsc.length = 1 then
      match clsc[0]?, s.df with
      | some a, some cldf =>
        (match cldf[0]? with
         | some b => (s, .data a b)
         | none => (s, .oob))
      | some _, none => (s, .error)            -- `None[0]`
      | none, _ => (s, .oob)
    else if clsc.isEmpty then (s, .error)       -- need at least one array to concatenate
    else
      match s.df with
      | none => (s, .error)
      | some cldf =>
        if cldf.isEmpty then (s, .error)
        else
          let sc := clsc.flatten
          let df := cldf.flatten
          ({ s with sc := some [sc], df := some [df] }, .data sc df)

def step (env : Env V R X E) (s : St V R E) : Op X E → St V R E × Out V R
  | .evaluate x => evaluate env s x
  | .initialise => (initialise env s, .unit)
  | .setRaw => (setRaw env s, .unit)
  | .setModel m => setModel s m
  | .getDifferentials => getDifferentials s

/-- run a history; a method that raised leaves the object as it was at the `raise`. -/
def run (env : Env V R X E) (s : St V R E) : List (Op X E) → St V R E
  | [] => s
  | op :: ops => run env (step env s op).1 ops

/-- the outputs of a history, in order -/
def outputs (env : Env V R X E) (s : St V R E) : List (Op X E) → List (Out V R)
  | [] => []
  | op :: ops => (step env s op).2 :: outputs env (step env s op).1 ops

/-! ### Specification (the property's own words; no buffer, no flags, no lists of arrays)

"The objective returns for a parameter vector the value a freshly created objective would
return: the mean of the per-training-case figures of merit, a number in [0, 1e100], or the
failure value.  The recorded training data grows only during real-system evaluations." -/

/-- the figures of merit of all training cases under equations `e` -/
def caseValues (env : Env V R X E) (e : E) (x : X) : List V :=
  (List.range env.n).map (env.J e x)

/-- the documented value of the objective: the aggregate of the per-case values when every
one of them and the aggregate are in range, the failure value otherwise -/
def specValue (env : Env V R X E) (e : E) (x : X) : V :=
  let js := caseValues env e x
  if js.all env.ok then (if env.ok (env.agg js) then env.agg js else env.fail) else env.fail

/-- the training cases whose simulation is recorded: those before the first failing one -/
def goodCases (env : Env V R X E) (e : E) (x : X) : List Nat :=
  (List.range env.n).takeWhile (fun i => env.ok (env.J e x i))

/-- The documented behaviour as a machine without implementation state: which system is
being simulated (`none` = the real one), whether anything has been recorded since the last
reset, and the recorded log (one flat sequence of rows per kind). -/
structure Abs (R E : Type) where
  model : Option E
  any : Bool
  sc : List R
  df : List R

def ainit : Abs R E := { model := none, any := false, sc := [], df := [] }

def astep (env : Env V R X E) (sup : Bool) (a : Abs R E) : Op X E → Abs R E × Out V R
  | .evaluate x =>
    let e := a.model.getD env.raw
    let good := goodCases env e x
    (if sup && a.model.isNone then
       { a with any := a.any || !good.isEmpty
                sc := a.sc ++ (good.map (fun i => (env.diff e x i).1)).flatten
                df := a.df ++ (good.map (fun i => (env.diff e x i).2)).flatten }
     else a,
     .value (specValue env e x))
  | .initialise => (ainit, .unit)
  | .setRaw => ({ a with model := none }, .unit)
  | .setModel m => if sup then ({ a with model := some m }, .unit) else (a, .error)
  | .getDifferentials => if sup && a.any then (a, .data a.sc a.df) else (a, .error)

def aoutputs (env : Env V R X E) (sup : Bool) (a : Abs R E) : List (Op X E) → List (Out V R)
  | [] => []
  | op :: ops => (astep env sup a op).2 :: aoutputs env sup (astep env sup a op).1 ops

def arun (env : Env V R X E) (sup : Bool) (a : Abs R E) : List (Op X E) → Abs R E
  | [] => a
  | op :: ops => arun env sup (astep env sup a op).1 ops

/-- `fresh x`: what `evaluate(x)` returns on a freshly constructed objective (whose buffer
holds whatever `np.empty` returned). -/
def fresh (env : Env V R X E) (supports : Bool) (garbage : List V) (x : X) : Out V R :=
  (evaluate env (init env supports garbage) x).2

/-- the recorded data of an object, as one flat log per kind -/
def dataSc (s : St V R E) : List R := (s.sc.getD []).flatten
def dataDf (s : St V R E) : List R := (s.df.getD []).flatten

/-- "in raw mode": the object simulates the real system -/
def InRaw (env : Env V R X E) (s : St V R E) : Prop := s.eq = env.raw ∧ s.collect = s.sc.isSome

/-! ### The instantiation used by the correspondence driver

Values are IEEE-754 binary64 numbers given by their bit pattern read as a signed 64-bit
integer (`struct.unpack('<q', struct.pack('<d', f))`).  On non-negative floats this code is
strictly increasing, `+0.0 ↦ 0`, `-0.0 ↦ -2^63`, negative floats ↦ negative codes, and
`inf`, `nan` ↦ codes above every finite float.  Hence the Python test `0.0 <= z <= 1e100` is
`0 ≤ code ≤ code(1e100)` or `code = -2^63` (`0.0 <= -0.0` holds). -/

def code1e100 : Int := 6103021453049119613
def code1e200 : Int := 7598952565167317594
def codeNegZero : Int := -9223372036854775808

def codeOk (c : Int) : Bool := (decide (0 ≤ c) && decide (c ≤ code1e100)) || c == codeNegZero

/-- a recorded batch in the driver: (equations id, parameter-vector id, training case) -/
abbrev Seg := Nat × Nat × Nat

/-- per-(equations, x) table: for every training case its `J` code, the code of `log1p(J)` and
the number of rows of its batch -/
abbrev CaseTab := List ((Nat × Nat) × List (Int × Int × Nat))

def missJ : Int := -4242
def missAgg : Int := -4243
def missPost : Int := -4244

def tabJ (t : CaseTab) (e x i : Nat) : Int :=
  match t.lookup (e, x) with
  | some row => (row[i]?.map (·.1)).getD missJ
  | none => missJ

def tabRows (t : CaseTab) (g : Seg) : Nat :=
  match t.lookup (g.1, g.2.1) with
  | some row => (row[g.2.2]?.map (·.2.2)).getD 0
  | none => 0

def tabPost (t : CaseTab) (v : Int) : Int :=
  match (t.flatMap (·.2)).find? (fun r => r.1 == v) with
  | some r => r.2.1
  | none => missPost

/-- the environment of one correspondence history: `J`, `diff` and `sum_up_results` are the
tables the harness obtained by calling `run_ode`/`j_from_ode`/`diff_from_ode`/
`sum_up_results` directly. -/
def tabEnv (le : Bool) (n : Nat) (t : CaseTab) (aggT : List (List Int × Int)) :
    Env Int Seg Nat Nat :=
  { n := n, raw := 0
    J := tabJ t
    diff := fun e x i => ([(e, x, i)], [(e, x, i)])
    agg := fun l => (aggT.lookup l).getD missAgg
    post := if le then tabPost t else id
    ok := codeOk
    fail := code1e200 }

end Fom
