import Model.Tsp
/-!
C18 — model of the TSPLIB reader and writer of `moptipyapps/tsp/instance.py`
(`__line_to_nums`, `__read_n_ints`, `_matrix_from_edge_weights`, `__matrix_from_points`,
`_matrix_from_node_coord_section`, `_from_stream`, `Instance.to_stream`) and of the tour reader
`moptipyapps/tsp/known_optima.py:_from_stream`.

Two layers:
* character level: a line is a `List Char`; Python's `str.strip`, `str.find`, the blank-splitting loop
  of `__line_to_nums`, the grammars of `int(str)` / `float(str)` (ASCII digits, optional sign, single
  underscores between digits, surrounding white space) and the decimal → binary64 rounding of `float`;
* token level: `readNInts`, the index walkers, the header state machine, the writer.

The instance constructor is `Tsp.mkInstance` (C05).  External functions are parameters (`Cfg`):
the lower-bound getter, `sanitize_name` (only its fixed-point test is needed), the GEO metric
(needs `cos`/`acos`).
The second half of the file is the *specification*: what the four explicit TSPLIB formats
list for a matrix, and integer characterisations of the TSPLIB95 metrics.
-/
namespace Tsplib
open Tsp Base

abbrev Line := List Char

/-! ## character level -/

/-- the characters `str.strip()` / `str.split()` / `int()` / `float()` treat as white space -/
def isWs (c : Char) : Bool :=
  let v := c.toNat
  (9 ≤ v && v ≤ 13) || (28 ≤ v && v ≤ 32) || v == 0x85 || v == 0xa0 || v == 0x1680 ||
  (0x2000 ≤ v && v ≤ 0x200a) || v == 0x2028 || v == 0x2029 || v == 0x202f || v == 0x205f ||
  v == 0x3000

def lstrip (l : Line) : Line := l.dropWhile isWs
def rstrip (l : Line) : Line := (l.reverse.dropWhile isWs).reverse
/-- `str.strip()` -/
def strip (l : Line) : Line := rstrip (lstrip l)

/-- the white space `int(str)` / `float(str)` ignore around a number: as `isWs`, but *not* the ASCII
separators `\x1c`–`\x1f` (they are `str.isspace()` but not C `isspace`) -/
def isWsNum (c : Char) : Bool := isWs c && !(decide (28 ≤ c.toNat) && decide (c.toNat ≤ 31))

def stripBy (p : Char → Bool) (l : Line) : Line := ((l.dropWhile p).reverse.dropWhile p).reverse

/-- split at every character satisfying `p` (like `str.split(sep)`, keeps empty parts) -/
def splitOn (p : Char → Bool) : Line → List Line
  | [] => [[]]
  | c :: cs =>
    if p c then [] :: splitOn p cs
    else match splitOn p cs with
      | [] => [[c]]
      | t :: ts => (c :: t) :: ts

/-- the non-empty parts between separator runs: the `while` loop of `__line_to_nums` for
`p = (· = ' ')`, `str.split()` for `p = isWs` -/
def fieldsOf (p : Char → Bool) (l : Line) : List Line := (splitOn p l).filter (fun t => !t.isEmpty)

/-- `l.find(c)`: index of the first occurrence -/
def find? (c : Char) : Line → Option Nat
  | [] => none
  | d :: ds => if d = c then some 0 else (find? c ds).map (· + 1)

/-- digits with single underscores between digits (the digit-part grammar of `int()`/`float()`);
returns the digits -/
def pyDigits : Line → Option Line
  | [] => none
  | c :: cs =>
    if !c.isDigit then none else
    match cs with
    | [] => some [c]
    | d :: ds =>
      if d = '_' then (pyDigits ds).map (c :: ·) else (pyDigits (d :: ds)).map (c :: ·)

def natOfDigits (ds : Line) : Nat := Nat.ofDigitChars 10 ds 0

/-- optional sign -/
def splitSign : Line → Bool × Line
  | [] => (false, [])
  | c :: r => if c = '-' then (true, r) else if c = '+' then (false, r) else (false, c :: r)

/-- `int(tok)` for a string (base 10); `none` = ValueError -/
def pyInt? (tok : Line) : Option Int :=
  let (neg, body) := splitSign (stripBy isWsNum tok)
  (pyDigits body).map fun ds => if neg then -(natOfDigits ds : Int) else (natOfDigits ds : Int)

/-- `check_to_int_range(tok, _, lo, hi)` -/
def pyIntRange? (tok : Line) (lo hi : Int) : Option Int :=
  match pyInt? tok with
  | some v => if lo ≤ v ∧ v ≤ hi then some v else none
  | none => none

/-- (part before the first `p`-character, part after it if there is one) -/
def splitFirst (p : Char → Bool) : Line → Line × Option Line
  | [] => ([], none)
  | c :: cs => if p c then ([], some cs) else
      let (a, b) := splitFirst p cs
      (c :: a, b)

/-- round-half-even quotient `a / b` -/
def divRne (a b : Nat) : Nat :=
  let q := a / b
  let r := a % b
  if 2 * r > b ∨ (2 * r = b ∧ q % 2 = 1) then q + 1 else q

/-- `a / b ≥ 2^k` -/
def geTwoPow (a b : Nat) (k : Int) : Bool :=
  if k ≥ 0 then decide (a ≥ b * 2 ^ k.toNat) else decide (a * 2 ^ (-k).toNat ≥ b)

/-- `⌊log₂ (a / b)⌋` for `a, b > 0` -/
def floorLog2Q (a b : Nat) : Int :=
  let k0 : Int := (a.log2 : Int) - (b.log2 : Int)
  if geTwoPow a b (k0 + 1) then k0 + 1 else if geTwoPow a b k0 then k0 else k0 - 1

/-- IEEE-754 binary64 round-to-nearest-even of the positive rational `a / b`, as `(m, e)` with value
`m · 2^e` (`m ≤ 2^53`, `e ≥ -1074`); `none` = overflow to `inf` -/
def roundQ (a b : Nat) : Option (Nat × Int) :=
  if a = 0 then some (0, 0) else
  let k := floorLog2Q a b
  let e : Int := max (k - 52) (-1074)
  let m := if e ≥ 0 then divRne a (b * 2 ^ e.toNat) else divRne (a * 2 ^ (-e).toNat) b
  if m = 0 then some (0, 0) else
  if e > 971 ∨ (e = 971 ∧ m ≥ 2 ^ 53) then none else some (m, e)

/-- binary64 value of the decimal `mant · 10^exp`: what `float(str)` computes (correctly rounded) -/
def toBinary64 (mant : Nat) (exp : Int) : Option (Nat × Int) :=
  if mant = 0 then some (0, 0) else
  let nd : Int := ((Nat.toDigits 10 mant).length : Nat)
  if nd + exp > 400 then none else
  if nd + exp < -400 then some (0, 0) else
  let a := if exp ≥ 0 then mant * 10 ^ exp.toNat else mant
  let b := if exp ≥ 0 then 1 else 10 ^ (-exp).toNat
  roundQ a b

/-- the decimal denotation of a float token: `(-1)^neg · mant · 10^exp`; `none` = ValueError.
Grammar: `[sign] (digits ['.' [digits]] | '.' digits) [(e|E) [sign] digits]` (`inf`/`nan` cannot
reach this function: they contain none of `.`, `e`, `E`). -/
def pyFloatDec? (tok : Line) : Option (Bool × Nat × Int) :=
  let (neg, body) := splitSign (stripBy isWsNum tok)
  let (mantS, expS) := splitFirst (fun c => c = 'e' || c = 'E') body
  let (intS, fracS) := splitFirst (· = '.') mantS
  let intD : Option Line := if intS.isEmpty then (if fracS.isSome then some [] else none) else pyDigits intS
  let fracD : Option Line := match fracS with
    | none => some []
    | some [] => some []
    | some f => pyDigits f
  let expV : Option Int := match expS with
    | none => some 0
    | some es =>
      let (eneg, eb) := splitSign es
      (pyDigits eb).map fun ds => if eneg then -(natOfDigits ds : Int) else (natOfDigits ds : Int)
  match intD, fracD, expV with
  | some i, some f, some e =>
    if i.isEmpty && f.isEmpty then none else some (neg, natOfDigits (i ++ f), e - (f.length : Nat))
  | _, _, _ => none

/-- a number token: a Python `int`, or a Python `float` given by its decimal text and the
binary64 value `m · 2^e` it is rounded to -/
inductive Num where
  | int (v : Int)
  | flt (neg : Bool) (mant : Nat) (exp : Int) (m : Nat) (e : Int)
  deriving Repr, DecidableEq

def LIM12 : Int := 1000000000000
/-- the range `__line_to_nums` admits for integer tokens: every distance an instance can hold -/
def LIMTOK : Int := 1000000000000000

/-- one fragment of `__line_to_nums`: `float(part)` if it contains `.`, `e` or `E` (must be finite),
else `check_to_int_range(part, …, -10^15, 10^15)` -/
def tokNum? (part : Line) : Option Num :=
  if part.any (fun c => c = '.' || c = 'E' || c = 'e') then
    match pyFloatDec? part with
    | none => none
    | some (neg, mant, exp) =>
      match toBinary64 mant exp with
      | none => none
      | some (m, e) => some (.flt neg mant exp m e)
  else (pyIntRange? part (-LIMTOK) LIMTOK).map .int

/-- `__line_to_nums(line, collector)`: strip, then the fragments between runs of blanks -/
def lineNums? (l : Line) : Option (List Num) := (fieldsOf (· = ' ') (strip l)).mapM tokNum?

/-- the `__append` of `__read_n_ints`: ints pass, floats must be integral (`int(f) == f`) -/
def Num.toInt? : Num → Option Int
  | .int v => some v
  | .flt neg _ _ m e =>
    let mag : Option Nat :=
      if e ≥ 0 then some (m * 2 ^ e.toNat)
      else if m % 2 ^ (-e).toNat = 0 then some (m / 2 ^ (-e).toNat) else none
    mag.map fun a => if neg then -(a : Int) else (a : Int)

def lineInts? (l : Line) : Option (List Int) := (lineNums? l).bind (·.mapM Num.toInt?)

/-! ## token level: explicit edge weight sections -/

inductive Fmt where
  | full | upperRow | lowerDiag | upperDiag
  deriving DecidableEq, Repr

/-- how many integers `_matrix_from_edge_weights` asks `__read_n_ints` for -/
def Fmt.need (f : Fmt) (n : Nat) : Nat :=
  match f with
  | .full => n * n
  | .upperRow => (n * (n - 1)) / 2
  | .lowerDiag => n + (n * (n - 1)) / 2
  | .upperDiag => n + (n * (n - 1)) / 2

def inInt64 (v : Int) : Bool := decide (-9223372036854775808 ≤ v) && decide (v ≤ 9223372036854775807)

/-- checked `m[r, c] = v` -/
def set2? (m : Matrix) (r c : Nat) (v : Int) : Option Matrix :=
  match m[r]? with
  | none => none
  | some row => if c < row.length then some (m.set r (row.set c v)) else none

/-- `res[j, i] = res[i, j] = v` on an int64 array (`none`: index outside the array, or the
value does not fit: OverflowError) -/
def symSet? (m : Matrix) (j i : Nat) (v : Int) : Option Matrix :=
  if !inInt64 v then none else (set2? m j i v).bind (set2? · i j v)

def zeros (n : Nat) : Matrix := List.replicate n (List.replicate n 0)

/-- the common shape of the three index-walker loops: state `(i, j)`; `guard` = the loop has the
`if i != j` test -/
def walk (guard : Bool) (next : Nat × Nat → Nat × Nat) : Matrix → Nat × Nat → List Int → Option Matrix
  | res, _, [] => some res
  | res, (i, j), v :: vs =>
    match (if guard && i == j then some res else symSet? res j i v) with
    | none => none
    | some res' => walk guard next res' (next (i, j)) vs

/-- UPPER_ROW: `i = i + 1; if i >= n: j = j + 1; i = j + 1` -/
def nextUR (n : Nat) : Nat × Nat → Nat × Nat := fun (i, j) => if i + 1 ≥ n then (j + 1 + 1, j + 1) else (i + 1, j)
/-- LOWER_DIAG_ROW: `i = i + 1; if i > j: j = j + 1; i = 0` -/
def nextLD : Nat × Nat → Nat × Nat := fun (i, j) => if i + 1 > j then (0, j + 1) else (i + 1, j)
/-- UPPER_DIAG_ROW: `i = i + 1; if i >= n: j = j + 1; i = j` -/
def nextUD (n : Nat) : Nat × Nat → Nat × Nat := fun (i, j) => if i + 1 ≥ n then (j + 1, j + 1) else (i + 1, j)

/-- `reshape((n, n))` of a flat row-major list: `k` rows of `n` -/
def chunk (n : Nat) : Nat → List Int → Matrix
  | 0, _ => []
  | k + 1, l => l.take n :: chunk n k (l.drop n)

/-- `np.fill_diagonal(res, 0)` -/
def zeroDiag (m : Matrix) : Matrix := m.mapIdx fun r row => row.set r 0

/-- the four branches of `_matrix_from_edge_weights` after `__read_n_ints` -/
def buildMatrix (f : Fmt) (n : Nat) (ints : List Int) : Option Matrix :=
  match f with
  | .full => if ints.all inInt64 then some (zeroDiag (chunk n n ints)) else none
  | .upperRow => walk false (nextUR n) (zeros n) (1, 0) ints
  | .lowerDiag => walk true nextLD (zeros n) (0, 0) ints
  | .upperDiag => walk true (nextUD n) (zeros n) (0, 0) ints

/-- `__read_n_ints(n, stream)` on a list of lines, returning the integers and the unread lines.
`none` = ValueError (bad token, non-integral float, wrong count). -/
def readNInts (need : Nat) : List Line → List Int → Option (List Int × List Line)
  | [], acc => if acc.length = need then some (acc, []) else none
  | l :: rest, acc =>
    match lineInts? l with
    | none => none
    | some ts =>
      let acc' := acc ++ ts
      if acc'.length = need then some (acc', rest) else readNInts need rest acc'

/-! ## coordinate sections -/

inductive Metric where
  | euc2d | ceil2d | att | geo
  deriving DecidableEq, Repr

/-- a coordinate as an exact rational `num / 10^k` (the decimal text's denotation) -/
def Num.dec : Num → Bool × Nat × Int
  | .int v => (decide (v < 0), v.natAbs, 0)
  | .flt neg mant exp _ _ => (neg, mant, exp)

/-- numerators of four coordinates over one common denominator `10^k` -/
def commonDen (cs : List Num) : List Int × Nat :=
  let ds := cs.map Num.dec
  let minE : Int := ds.foldl (fun m d => min m d.2.2) 0
  let k := (-minE).toNat
  (ds.map fun (neg, mant, exp) =>
      let v : Int := (mant : Int) * 10 ^ (exp + (k : Int)).toNat
      if neg then -v else v,
   10 ^ k)

/-- `nint(sqrt(S) / D)`: the unique `r` with `(2r-1)²D² ≤ 4S < (2r+1)²D²` -/
def nintSqrtQ (S D : Nat) : Nat := (Nat.sqrt (4 * S) + D) / (2 * D)
/-- `⌈sqrt(S) / D⌉`: the unique `r` with `(r-1)²D² < S ≤ r²D²` -/
def ceilSqrtQ (S D : Nat) : Nat :=
  let f := Nat.sqrt S / D
  if f * f * (D * D) = S then f else f + 1

/-- TSPLIB95 distance of two points (squared distance `S / D²`), evaluated exactly -/
def metricQ (m : Metric) (S D : Nat) : Nat :=
  match m with
  | .euc2d => nintSqrtQ S D
  | .ceil2d => ceilSqrtQ S D
  | .att =>
    -- rij = sqrt(S / (10 D²)); tij = nint(rij); if tij < rij then tij + 1 else tij
    let t := (Nat.sqrt (4 * S * 10) + 10 * D) / (2 * (10 * D))   -- nint(sqrt(10 S) / (10 D))
    if t * t * (10 * (D * D)) < S then t + 1 else t
  | .geo => 0

/-! ### the distance functions as TSPLIB95 defines them: C/Python code in binary64 arithmetic.
Every operation is evaluated exactly on dyadic rationals and rounded once (round-to-nearest-even),
which is what IEEE-754 `+ - * / sqrt` do.  Python keeps `int` coordinates exact (`int - int`,
`int ** 2`, `int + int` are integer operations) and converts at the first mixed operation. -/

/-- a finite binary64 value `(-1)^neg · m · 2^e` -/
structure Dbl where
  neg : Bool
  m : Nat
  e : Int
  deriving Repr

/-- a Python number: exact `int` or `float` -/
inductive PV where
  | int (v : Int)
  | dbl (d : Dbl)
  deriving Repr

def Num.toPV : Num → PV
  | .int v => .int v
  | .flt neg _ _ m e => .dbl ⟨neg, m, e⟩

/-- round the dyadic rational `n · 2^e` (`n : Int`) -/
def roundDyadic (n : Int) (e : Int) : Option Dbl :=
  let a := n.natAbs
  let r := if e ≥ 0 then roundQ (a * 2 ^ e.toNat) 1 else roundQ a (2 ^ (-e).toNat)
  r.map fun (m, e') => ⟨decide (n < 0), m, e'⟩

/-- `float(int)` -/
def PV.toDbl : PV → Option Dbl
  | .int v => roundDyadic v 0
  | .dbl d => some d

def Dbl.sInt (d : Dbl) : Int := if d.neg then -(d.m : Int) else (d.m : Int)

/-- exact `x ± y` as a dyadic rational, then one rounding -/
def dblAddSub (sub : Bool) (x y : Dbl) : Option Dbl :=
  let e0 := min x.e y.e
  let nx := x.sInt * 2 ^ (x.e - e0).toNat
  let ny := y.sInt * 2 ^ (y.e - e0).toNat
  roundDyadic (if sub then nx - ny else nx + ny) e0

def dblMul (x y : Dbl) : Option Dbl := roundDyadic (x.sInt * y.sInt) (x.e + y.e)

/-- `x / 10.0` -/
def dblDiv10 (x : Dbl) : Option Dbl :=
  let r := if x.e ≥ 0 then roundQ (x.m * 2 ^ x.e.toNat) 10 else roundQ x.m (10 * 2 ^ (-x.e).toNat)
  r.map fun (m, e') => ⟨x.neg, m, e'⟩

/-- correctly rounded `sqrt` of a non-negative value -/
def dblSqrt (x : Dbl) : Option Dbl :=
  if x.m = 0 then some ⟨false, 0, 0⟩ else
  if x.neg then none else
  let s : Nat := 120 + x.e.natAbs
  let N := x.m * 2 ^ ((2 * s : Nat) + x.e).toNat       -- x · 4^s, an integer
  let r := Nat.sqrt N
  let q := if r * r = N then roundQ r (2 ^ s) else roundQ (2 * r + 1) (2 ^ (s + 1))
  q.map fun (m, e') => ⟨false, m, e'⟩

def pvSub (x y : PV) : Option PV :=
  match x, y with
  | .int a, .int b => some (.int (a - b))
  | _, _ => do let a ← x.toDbl; let b ← y.toDbl; (dblAddSub true a b).map .dbl

def pvAdd (x y : PV) : Option PV :=
  match x, y with
  | .int a, .int b => some (.int (a + b))
  | _, _ => do let a ← x.toDbl; let b ← y.toDbl; (dblAddSub false a b).map .dbl

/-- `x * x` and `x ** 2` (libm `pow(x, 2.0)` is taken to be the correctly rounded square) -/
def pvSq (x : PV) : Option PV :=
  match x with
  | .int a => some (.int (a * a))
  | .dbl d => (dblMul d d).map .dbl

/-- `int(d)` for `d ≥ 0`: truncation -/
def Dbl.trunc (d : Dbl) : Int :=
  let a : Nat := if d.e ≥ 0 then d.m * 2 ^ d.e.toNat else d.m / 2 ^ (-d.e).toNat
  if d.neg then -(a : Int) else (a : Int)

/-- `t < d` (Python compares int and float exactly) -/
def intLtDbl (t : Int) (d : Dbl) : Bool :=
  if d.e ≥ 0 then decide (t < d.sInt * 2 ^ d.e.toNat) else decide (t * 2 ^ (-d.e).toNat < d.sInt)

/-- `__nint(v)` on a float: `int(0.5 + v)` -/
def nintDbl (v : Dbl) : Option Int := (dblAddSub false ⟨false, 1, -1⟩ v).map Dbl.trunc

/-- `sqrt((a[0]-b[0])**2 + (a[1]-b[1])**2)` -/
def eucRoot (a b : PV × PV) : Option Dbl := do
  let xd ← pvSub a.1 b.1
  let yd ← pvSub a.2 b.2
  let s ← pvAdd (← pvSq xd) (← pvSq yd)
  dblSqrt (← s.toDbl)

/-- `__dist_2deuc`, `__dist_2dceil`, `__dist_att` (`none` = OverflowError) -/
def pyDist (m : Metric) (a b : PV × PV) : Option Int :=
  match m with
  | .euc2d => do nintDbl (← eucRoot a b)
  | .ceil2d => do
      let d ← eucRoot a b
      let t := d.trunc
      pure (if intLtDbl t d then t + 1 else t)
  | .att => do
      let xd ← pvSub a.1 b.1
      let yd ← pvSub a.2 b.2
      let s ← pvAdd (← pvSq xd) (← pvSq yd)
      let r ← dblSqrt (← dblDiv10 (← s.toDbl))
      let t ← nintDbl r
      pure (if intLtDbl t r then t + 1 else t)
  | .geo => none

structure Cfg where
  /-- `lower_bound_getter` (or `fun _ => 0` for `None`) -/
  lbOf : Line → Int
  /-- `sanitize_name(name) == name` -/
  nameOk : Line → Bool
  /-- the GEO distance (external: cos / acos) -/
  geo : Num × Num → Num × Num → Int

def pointDist (cfg : Cfg) (m : Metric) (a b : Num × Num) : Option Int :=
  match m with
  | .geo => some (cfg.geo a b)
  | _ => pyDist m (a.1.toPV, a.2.toPV) (b.1.toPV, b.2.toPV)

/-- exact evaluation of the real-number definition on the decimal denotations (specification side) -/
def exactDist (m : Metric) (a b : Num × Num) : Nat × Nat × Nat :=
  match commonDen [a.1, a.2, b.1, b.2] with
  | ([ax, ay, bx, b_y], D) =>
    let S := ((ax - bx) * (ax - bx) + (ay - b_y) * (ay - b_y)).toNat
    (metricQ m S D, S, D)
  | _ => (0, 0, 1)

/-- the matrix `__matrix_from_points` builds from the coordinate list: `dist_func(coords[i], coords[j])`
for `j < i`, mirrored -/
def matrixFromPoints (cfg : Cfg) (m : Metric) (pts : List (Num × Num)) : Option Matrix :=
  (pts.mapIdx fun i a => (pts.mapIdx fun j b =>
      if i = j then some 0 else if j < i then pointDist cfg m a b else pointDist cfg m b a).mapM id).mapM id

/-! ## `_from_stream`: the header state machine -/

structure Hdr where
  name : Option Line := none
  type : Option Line := none
  n : Option Nat := none
  ewt : Option Line := none
  ewf : Option Line := none
  nct : Option Line := none
  matrix : Option Matrix := none
  deriving Repr

/-- where the (single) line iterator is being consumed -/
inductive Mode where
  | hdr
  | ints (f : Fmt) (n : Nat) (acc : List Int)
  | coords (m : Metric) (n : Nat) (index : Nat) (pts : List (Num × Num))
  deriving Repr

def sNAME : Line := "NAME".toList
def sTYPE : Line := "TYPE".toList
def sDIMENSION : Line := "DIMENSION".toList
def sEWT : Line := "EDGE_WEIGHT_TYPE".toList
def sEWF : Line := "EDGE_WEIGHT_FORMAT".toList
def sNCT : Line := "NODE_COORD_TYPE".toList
def sCOMMENT : Line := "COMMENT".toList
def sTSP : Line := "TSP".toList
def sATSP : Line := "ATSP".toList
def sHOF : Line := "TSP (M.~Hofmeister)".toList
def sEXPLICIT : Line := "EXPLICIT".toList
def sEUC2D : Line := "EUC_2D".toList
def sGEO : Line := "GEO".toList
def sATT : Line := "ATT".toList
def sCEIL2D : Line := "CEIL_2D".toList
def sFUNCTION : Line := "FUNCTION".toList
def sFULL : Line := "FULL_MATRIX".toList
def sUR : Line := "UPPER_ROW".toList
def sLDR : Line := "LOWER_DIAG_ROW".toList
def sUDR : Line := "UPPER_DIAG_ROW".toList
def sTWOD : Line := "TWOD_COORDS".toList
def sNOCOORDS : Line := "NO_COORDS".toList
def sNCS : Line := "NODE_COORD_SECTION".toList
def sEWS : Line := "EDGE_WEIGHT_SECTION".toList
def sEOF : Line := "EOF".toList
def sFIXED : Line := "FIXED_EDGES_SECTION".toList
def sDotTsp : Line := ".tsp".toList

def fmtOf (ewf : Option Line) : Option Fmt :=
  match ewf with
  | none => none
  | some s =>
    if s = sFULL then some .full else if s = sUR then some .upperRow
    else if s = sLDR then some .lowerDiag else if s = sUDR then some .upperDiag else none

def metricOf (ewt : Line) : Option Metric :=
  if ewt = sEUC2D then some .euc2d else if ewt = sGEO then some .geo
  else if ewt = sATT then some .att else if ewt = sCEIL2D then some .ceil2d else none

def endsWith (l suf : Line) : Bool := decide (suf.length ≤ l.length) && l.drop (l.length - suf.length) == suf

/-- a `key: value` header line; `none` = ValueError -/
def hdrKeyValue (h : Hdr) (key value : Line) : Option Hdr :=
  if value.isEmpty then none else
  if key = sNAME then
    if h.name.isSome then none else
    some { h with name := some (if endsWith value sDotTsp then value.take (value.length - 4) else value) }
  else if key = sTYPE then
    if h.type.isSome then none else
    let t := if value = sHOF then sTSP else value
    if t = sTSP ∨ t = sATSP then some { h with type := some t } else none
  else if key = sDIMENSION then
    if h.n.isSome then none else
    match pyIntRange? value 2 1000000000 with
    | none => none
    | some v => some { h with n := some v.toNat }
  else if key = sEWT then
    if h.ewt.isSome then none else
    if value = sEUC2D ∨ value = sGEO ∨ value = sATT ∨ value = sCEIL2D ∨ value = sEXPLICIT
    then some { h with ewt := some value } else none
  else if key = sEWF then
    if h.ewf.isSome then none else
    if value = sFUNCTION ∨ value = sFULL ∨ value = sUR ∨ value = sLDR ∨ value = sUDR
    then some { h with ewf := some value } else none
  else if key = sNCT then
    if h.nct.isSome then none else
    if value = sTWOD ∨ value = sNOCOORDS then some { h with nct := some value } else none
  else some h

/-- entry of `_matrix_from_edge_weights`: which format will be read (`none` = it raises) -/
def startEdgeWeights (h : Hdr) : Option (Fmt × Nat) :=
  match h.n, h.ewt with
  | some n, some ewt => if ewt = sEXPLICIT then (fmtOf h.ewf).map (·, n) else none
  | _, _ => none

/-- entry of `_matrix_from_node_coord_section` -/
def startCoords (h : Hdr) : Option (Metric × Nat) :=
  match h.n, h.ewt with
  | some n, some ewt =>
    if h.nct = none ∨ h.nct = some sTWOD then (metricOf ewt).map (·, n) else none
  | _, _ => none

/-- end of `__matrix_from_points` -/
def finishCoords (cfg : Cfg) (m : Metric) (n index : Nat) (pts : List (Num × Num)) : Option Matrix :=
  if index ≠ n then none else matrixFromPoints cfg m pts

/-- after the loop of `_from_stream` -/
def finish (cfg : Cfg) (h : Hdr) : Option (Line × Inst) :=
  match h.name, h.matrix with
  | some name, some M =>
    if !cfg.nameOk name then none else
    match mkInstance (cfg.lbOf name) M with
    | none => none
    | some I => if h.type = some sTSP ∧ I.sym = false then none else some (name, I)
  | _, _ => none

/-- `_from_stream` as one pass over the lines; the nested readers (`__read_n_ints`,
`__matrix_from_points`) are modes of the same iterator -/
def loop (cfg : Cfg) : Hdr → Mode → List Line → Option (Line × Inst)
  | h, .hdr, [] => finish cfg h
  | h, .ints f n acc, [] =>
    -- the stream ended inside `__read_n_ints`
    if acc.length = f.need n then
      match buildMatrix f n acc with
      | none => none
      | some M => finish cfg { h with matrix := some M }
    else none
  | h, .coords m n index pts, [] =>
    match finishCoords cfg m n index pts with
    | none => none
    | some M => finish cfg { h with matrix := some M }
  | h, .hdr, raw :: rest =>
    let line := strip raw
    if line.isEmpty then loop cfg h .hdr rest else
    match find? ':' line with
    | some (sep + 1) =>
      match hdrKeyValue h (strip (line.take (sep + 1))) (strip (line.drop (sep + 2))) with
      | none => none
      | some h' => loop cfg h' .hdr rest
    | _ =>
      if line = sNCS then
        if h.matrix.isSome then none else
        match startCoords h with
        | none => none
        | some (m, n) => loop cfg h (.coords m n 0 []) rest
      else if line = sEWS then
        if h.matrix.isSome then none else
        match startEdgeWeights h with
        | none => none
        | some (f, n) => loop cfg h (.ints f n []) rest
      else if line = sEOF then finish cfg h
      else if line = sFIXED then none
      else loop cfg h .hdr rest
  | h, .ints f n acc, raw :: rest =>
    match lineInts? raw with
    | none => none
    | some ts =>
      let acc' := acc ++ ts
      if acc'.length = f.need n then
        match buildMatrix f n acc' with
        | none => none
        | some M => loop cfg { h with matrix := some M } .hdr rest
      else loop cfg h (.ints f n acc') rest
  | h, .coords m n index pts, raw :: rest =>
    let line := strip raw
    if line.isEmpty then loop cfg h (.coords m n index pts) rest else
    if line = sEOF then
      match finishCoords cfg m n index pts with
      | none => none
      | some M => loop cfg { h with matrix := some M } .hdr rest
    else
      match lineNums? line with
      | some [.int k, x, y] =>
        if k = (index : Int) + 1 then loop cfg h (.coords m n (index + 1) (pts ++ [(x, y)])) rest else none
      | _ => none

/-- `_from_stream(iter(lines), lower_bound_getter)` -/
def fromLines (cfg : Cfg) (lines : List Line) : Option (Line × Inst) := loop cfg {} .hdr lines

/-! ## `Instance.to_stream` -/

/-- `str(int)` -/
def showNat (n : Nat) : Line := Nat.toDigits 10 n
def showInt : Int → Line
  | .ofNat m => showNat m
  | .negSucc m => '-' :: showNat (m + 1)

/-- `" ".join(parts)` -/
def joinSp : List Line → Line
  | [] => []
  | [a] => a
  | a :: rest => a ++ ' ' :: joinSp rest

/-- the rows `to_stream` emits after `EDGE_WEIGHT_SECTION` -/
def bodyLines (I : Inst) : List Line :=
  if I.sym then (List.range I.n).map fun i => joinSp (((I.stored.getD i []).drop (i + 1)).map showInt)
  else (List.range I.n).map fun i => joinSp ((I.stored.getD i []).map showInt)

def toLines (name : Line) (I : Inst) (comments : List Line) : List Line :=
  [sNAME ++ ": ".toList ++ name,
   sTYPE ++ ": ".toList ++ (if I.sym then sTSP else sATSP)] ++
  comments.map (fun c => sCOMMENT ++ ": ".toList ++ strip c) ++
  [sDIMENSION ++ ": ".toList ++ showNat I.n,
   sEWT ++ ": ".toList ++ sEXPLICIT,
   sEWF ++ ": ".toList ++ (if I.sym then sUR else sFULL),
   sEWS] ++ bodyLines I ++ [sEOF]

/-! ## tour files (`known_optima._from_stream`) -/

/-- `str.upper()` on ASCII -/
def upperAscii (c : Char) : Char :=
  if 97 ≤ c.toNat ∧ c.toNat ≤ 122 then Char.ofNat (c.toNat - 32) else c

def sTOUR : Line := "TOUR_SECTION".toList
def sM1 : Line := "-1".toList

structure TourSt where
  nodes : List Nat := []
  inTour : Bool := false
  done : List Int := []
  maxNode : Int := -1

/-- the `for node_str in line.rsplit()` loop -/
def tourTokens : TourSt → List Line → Option TourSt
  | s, [] => some s
  | s, t :: ts =>
    match pyIntRange? t 1 LIM12 with
    | none => none
    | some node =>
      if node ∈ s.done then none else
      tourTokens { s with done := node :: s.done, maxNode := max s.maxNode node,
                          nodes := s.nodes ++ [(node - 1).toNat] } ts

def tourFinish (s : TourSt) : Option (List Nat) :=
  if (s.nodes.length : Int) ≠ s.maxNode then none else some s.nodes

def tourLoop : TourSt → List Line → Option (List Nat)
  | s, [] => tourFinish s
  | s, raw :: rest =>
    let line := (strip raw).map upperAscii
    if line.isEmpty then tourLoop s rest else
    if line = sTOUR then tourLoop { s with inTour := true } rest else
    if line = sM1 ∨ line = sEOF then tourFinish s else
    if s.inTour then
      match tourTokens s (fieldsOf isWs line) with
      | none => none
      | some s' => tourLoop s' rest
    else tourLoop s rest

/-- `known_optima._from_stream` -/
def parseTour (lines : List Line) : Option (List Nat) := tourLoop {} lines

/-! ## Specification: what the explicit formats list for a matrix (TSPLIB95, section 1.2) -/

/-- FULL_MATRIX: all entries, row by row -/
def listFull (M : Matrix) : List Int := M.flatten
/-- UPPER_ROW: of row `r` the entries right of the diagonal -/
def listUpperRow (M : Matrix) : List Int := (M.mapIdx fun r row => row.drop (r + 1)).flatten
/-- LOWER_DIAG_ROW: of row `r` the entries up to and including the diagonal -/
def listLowerDiag (M : Matrix) : List Int := (M.mapIdx fun r row => row.take (r + 1)).flatten
/-- UPPER_DIAG_ROW: of row `r` the entries from the diagonal on -/
def listUpperDiag (M : Matrix) : List Int := (M.mapIdx fun r row => row.drop r).flatten

def listOf (f : Fmt) (M : Matrix) : List Int :=
  match f with
  | .full => listFull M
  | .upperRow => listUpperRow M
  | .lowerDiag => listLowerDiag M
  | .upperDiag => listUpperDiag M

def Symmetric (M : Matrix) (n : Nat) : Prop := ∀ i < n, ∀ j < n, entry M i j = entry M j i
def ZeroDiag (M : Matrix) (n : Nat) : Prop := ∀ i < n, entry M i i = 0

/-! ### integer characterisations of the TSPLIB95 metrics (squared distance `S / D²`) -/

/-- `r = nint(sqrt(A / B))` (round half up): `(2r-1)² B ≤ 4A < (2r+1)² B` -/
def IsNintSqrt (A B r : Nat) : Prop :=
  4 * A < (2 * r + 1) * (2 * r + 1) * B ∧ (r = 0 ∨ (2 * r - 1) * (2 * r - 1) * B ≤ 4 * A)
instance (A B r : Nat) : Decidable (IsNintSqrt A B r) := by unfold IsNintSqrt; infer_instance

/-- `r = ⌈sqrt(A / B)⌉`: `(r-1)² B < A ≤ r² B` -/
def IsCeilSqrt (A B r : Nat) : Prop :=
  A ≤ r * r * B ∧ (r = 0 ∨ (r - 1) * (r - 1) * B < A)
instance (A B r : Nat) : Decidable (IsCeilSqrt A B r) := by unfold IsCeilSqrt; infer_instance

/-- EUC_2D: `nint(sqrt(xd² + yd²))` -/
def IsEuc2d (S D d : Nat) : Prop := IsNintSqrt S (D * D) d
instance (S D d : Nat) : Decidable (IsEuc2d S D d) := by unfold IsEuc2d; infer_instance
/-- CEIL_2D: the Euclidean distance rounded up -/
def IsCeil2d (S D d : Nat) : Prop := IsCeilSqrt S (D * D) d
instance (S D d : Nat) : Decidable (IsCeil2d S D d) := by unfold IsCeil2d; infer_instance
/-- ATT: `rij = sqrt((xd² + yd²) / 10); tij = nint(rij); dij = tij + 1 if tij < rij else tij` -/
def IsAtt (S D d : Nat) : Prop :=
  ∃ t, (t = d ∨ t + 1 = d) ∧ IsNintSqrt S (10 * (D * D)) t ∧
    d = if t * t * (10 * (D * D)) < S then t + 1 else t
instance (S D d : Nat) : Decidable (IsAtt S D d) :=
  decidable_of_iff (∃ t ∈ [d, d - 1], (t = d ∨ t + 1 = d) ∧ IsNintSqrt S (10 * (D * D)) t ∧
      d = if t * t * (10 * (D * D)) < S then t + 1 else t) (by
    constructor
    · rintro ⟨t, _, h⟩; exact ⟨t, h⟩
    · rintro ⟨t, h1, h2⟩
      refine ⟨t, ?_, h1, h2⟩
      rcases h1 with h | h
      · simp [h]
      · simp; right; omega)

def metricSpecB (m : Metric) (S D d : Nat) : Bool :=
  match m with
  | .euc2d => decide (IsEuc2d S D d)
  | .ceil2d => decide (IsCeil2d S D d)
  | .att => decide (IsAtt S D d)
  | .geo => false

end Tsplib
