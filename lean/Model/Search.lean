/-!
# Abstract black-box search run (used by C12 only; core Lean, no Mathlib)

A *shape* of what a moptipy `Execution` does, not a model of moptipy's code (that tie is an
assumption of C12, see `harness/c12.py`): an algorithm is an arbitrary deterministic transducer over
its own state `A` and a random-stream state `R`; the process evaluates every candidate, remembers
the first strictly best one, counts objective-function evaluations (FEs) and stops at the budget or
when the goal value is reached.  `runS` is the same run with an objective *implementation* that
threads a scratch state `S` (objective scratch arrays, the decoder's destination and bin tables).
-/
namespace Search

structure Algo (X A R : Type) where
  /-- seed ↦ algorithm state, random state, first candidate -/
  init : R → A × R × X
  /-- state, random state, last candidate and its objective value ↦ next candidate -/
  next : A → R → X → Int → A × R × X

/-- what a finished process reports -/
structure Proc (X : Type) where
  best : X
  bestF : Int
  fes : Nat
  lastImp : Nat

/-- `Process.evaluate/register`: count the FE, keep a strictly better candidate -/
def record {X : Type} (p : Proc X) (x : X) (v : Int) : Proc X :=
  if v < p.bestF then ⟨x, v, p.fes + 1, p.fes + 1⟩ else { p with fes := p.fes + 1 }

def loop {X A R : Type} (alg : Algo X A R) (f : X → Int) (goal : Int) :
    Nat → A → R → X → Int → Proc X → Proc X
  | 0, _, _, _, _, p => p
  | n + 1, a, r, x, v, p =>
    if p.bestF ≤ goal then p else
    let t := alg.next a r x v
    loop alg f goal n t.1 t.2.1 t.2.2 (f t.2.2) (record p t.2.2 (f t.2.2))

/-- a run with a budget of `budget ≥ 1` FEs -/
def run {X A R : Type} (alg : Algo X A R) (f : X → Int) (goal : Int) (budget : Nat) (seed : R) : Proc X :=
  let t := alg.init seed
  loop alg f goal (budget - 1) t.1 t.2.1 t.2.2 (f t.2.2) ⟨t.2.2, f t.2.2, 1, 1⟩

def loopS {X A R S : Type} (alg : Algo X A R) (fS : S → X → Int × S) (goal : Int) :
    Nat → A → R → X → Int → S → Proc X → Proc X
  | 0, _, _, _, _, _, p => p
  | n + 1, a, r, x, v, s, p =>
    if p.bestF ≤ goal then p else
    let t := alg.next a r x v
    let e := fS s t.2.2
    loopS alg fS goal n t.1 t.2.1 t.2.2 e.1 e.2 (record p t.2.2 e.1)

/-- the same run with a stateful objective implementation started on scratch content `s0` -/
def runS {X A R S : Type} (alg : Algo X A R) (fS : S → X → Int × S) (goal : Int) (budget : Nat)
    (seed : R) (s0 : S) : Proc X :=
  let t := alg.init seed
  let e := fS s0 t.2.2
  loopS alg fS goal (budget - 1) t.1 t.2.1 t.2.2 e.1 e.2 ⟨t.2.2, e.1, 1, 1⟩

end Search
