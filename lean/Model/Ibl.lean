import Model.Pack
/-!
C01 / C14 / C13 — model of the two improved-bottom-left decoders
`moptipyapps/binpacking2d/encodings/ibl_encoding_{1,2}.py` (`__move_down`, `__move_left`, `_decode`).

Representation of the in-place destination array `y`: the pair (`done`, stale suffix). Row `i`
is written in iteration `i` and the kernels only ever read rows `< i` of `y` (loops
`range(bin_start, i1)` resp. `range(bin_start, bin_end)` with `bin_end ≤ i`) plus row `i` itself
after having written it, so `done` = rows `0..i-1` written in *this* call, and the prior content of
`y` is passed through untouched behind it (`decode?` returns `done ++ stale`).  The prior contents
of `bin_starts` / `bin_ends` (encoding 2) are explicit inputs of the model and are read through
checked accessors.  `none` = an access outside an array (or outside the rows written so far).
-/
namespace Ibl
open Pack

/-- `min_down` of `__move_down`: start with `cur.b`; every window row that overlaps horizontally
and whose bottom is below `cur`'s top limits the move to `cur.b - row.t` -/
def minDown (win : List Row) (cur : Row) : Int :=
  win.foldl (fun m p => if p.r > cur.l ∧ p.l < cur.r ∧ p.b < cur.t then min m (cur.b - p.t) else m) cur.b

/-- `min_left` of `__move_left` (the `continue`, the "directly below" branch, the `elif` branch) -/
def minLeft (win : List Row) (cur : Row) : Int :=
  win.foldl (fun m p =>
    if p.l ≥ cur.r then m
    else if p.r > cur.l ∧ p.l < cur.r then
      (if p.t = cur.b then min m (cur.r - p.l) else m)
    else if cur.t > p.b ∧ cur.b < p.t then min m (cur.l - p.r)
    else m) cur.l

def _root_.Pack.Row.down (cur : Row) (d : Int) : Row := { cur with b := cur.b - d, t := cur.t - d }
def _root_.Pack.Row.left (cur : Row) (d : Int) : Row := { cur with l := cur.l - d, r := cur.r - d }

/-- `while __move_down(...) or __move_left(...): pass` with explicit fuel
(`settle_fuel_suffices` in `Props/C01.lean` shows the fuel used by the decoders is enough:
each successful move decreases `b + l` by at least one and both stay ≥ 0) -/
def settle : Nat → List Row → Row → Row
  | 0, _, cur => cur
  | fuel + 1, win, cur =>
    let md := minDown win cur
    if md > 0 then settle fuel win (cur.down md)
    else
      let ml := minLeft win cur
      if ml > 0 then settle fuel win (cur.left ml) else cur

/-- fuel that always suffices for a rectangle with `0 ≤ l`, `0 ≤ b` -/
def fuelFor (cur : Row) : Nat := cur.b.toNat + cur.l.toNat + 1

/-- width/height lookup including the sign rule and the forced rotation;
`none` = `instance[use_id, ·]` outside the instance array -/
def dims? (I : Inst) (itemId : Int) : Option (Int × Int × Int) :=
  let useId : Int := if itemId < 0 then -(itemId + 1) else itemId - 1
  if useId < 0 then none else    -- negative index would wrap in numpy: only for itemId = 0
  match I.items[useId.toNat]? with
  | none => none
  | some it =>
    let (w, h) := if itemId < 0 then (it.h, it.w) else (it.w, it.h)
    let (w, h) := if w > I.W ∨ h > I.H then (h, w) else (w, h)
    some (useId + 1, w, h)

/-- the transient start position: right edge at the bin's right end, sitting on top of the bin -/
def startRow (I : Inst) (id w h : Int) : Row := ⟨id, 0, I.W - w, I.H, I.W, I.H + h⟩

/-! ### Encoding 1 (next fit: only the current bin is tried) -/

structure St1 where
  done : List Row
  binStart : Nat
  binId : Int
  deriving Repr

def step1 (I : Inst) (st : St1) (itemId : Int) : Option St1 :=
  match dims? I itemId with
  | none => none
  | some (id, w, h) =>
    let cur := startRow I id w h
    let win := st.done.drop st.binStart
    let cur := settle (fuelFor cur) win cur
    if cur.r > I.W ∨ cur.t > I.H then
      let binId := st.binId + 1
      some { done := st.done ++ [{ cur with l := 0, b := 0, r := w, t := h, bin := binId }],
             binStart := st.done.length, binId := binId }
    else
      some { st with done := st.done ++ [{ cur with bin := st.binId }] }

def run1 (I : Inst) : List Int → St1 → Option St1
  | [], st => some st
  | v :: rest, st => (step1 I st v).bind (run1 I rest)

/-- `_decode` of encoding 1 on destination `y0`: `(rows of y afterwards, n_bins)` -/
def decode1? (I : Inst) (x : List Int) (y0 : List Row) : Option (List Row × Int) :=
  if y0.length < x.length then none else   -- `y[i, ·]` outside the destination
  match run1 I x { done := [], binStart := 0, binId := 1 } with
  | none => none
  | some st => some (st.done ++ y0.drop x.length, st.binId)

/-! ### Encoding 2 (first fit: all open bins are tried, first to last) -/

structure St2 where
  done : List Row
  starts : List Int
  ends : List Int
  binId : Int
  deriving Repr

/-- the rows the move kernels look at for bin `b`: indices `start ≤ j < end` of `y` with
`y[j].bin = b`.  `none` if that range is not inside the rows written so far. -/
def window2? (done : List Row) (start end_ : Int) (b : Int) : Option (List Row) :=
  if start < 0 ∨ end_ < start ∨ end_ > done.length then none
  else some (((done.take end_.toNat).drop start.toNat).filter (fun p => p.bin = b))

/-- the `for item_bin in range(1, bin_id + 1)` loop, as recursion over the remaining bins -/
def tryBins (I : Inst) (st : St2) (id w h : Int) : Nat → Int → Option (Option (Row × Int))
  | 0, _ => some none
  | k + 1, b =>
    match st.starts[(b - 1).toNat]?, st.ends[(b - 1).toNat]? with
    | some s, some e =>
      match window2? st.done s e b with
      | none => none
      | some win =>
        let cur := startRow I id w h
        let cur := settle (fuelFor cur) win cur
        if cur.r ≤ I.W ∧ cur.t ≤ I.H then some (some ({ cur with bin := b }, b))
        else tryBins I st id w h k (b + 1)
    | _, _ => none

def step2 (I : Inst) (st : St2) (itemId : Int) : Option St2 :=
  match dims? I itemId with
  | none => none
  | some (id, w, h) =>
    let i := st.done.length
    match tryBins I st id w h st.binId.toNat 1 with
    | none => none
    | some (some (row, b)) =>
      if (b - 1).toNat < st.ends.length then
        some { st with done := st.done ++ [row], ends := st.ends.set (b - 1).toNat (i + 1) }
      else none
    | some none =>
      let k := st.binId.toNat
      if k < st.starts.length ∧ k < st.ends.length then
        some { done := st.done ++ [⟨id, st.binId + 1, 0, 0, w, h⟩],
               starts := st.starts.set k i, ends := st.ends.set k (i + 1), binId := st.binId + 1 }
      else none

def run2 (I : Inst) : List Int → St2 → Option St2
  | [], st => some st
  | v :: rest, st => (step2 I st v).bind (run2 I rest)

/-- `_decode` of encoding 2 on destination `y0` and scratch arrays `s0`, `e0` -/
def decode2? (I : Inst) (x : List Int) (y0 : List Row) (s0 e0 : List Int) :
    Option (List Row × Int × List Int × List Int) :=
  if y0.length < x.length then none else
  if s0.length = 0 ∨ e0.length = 0 then none else   -- `bin_starts[0] = 0`
  match run2 I x { done := [], starts := s0.set 0 0, ends := e0.set 0 0, binId := 1 } with
  | none => none
  | some st => some (st.done ++ y0.drop x.length, st.binId, st.starts, st.ends)

end Ibl
