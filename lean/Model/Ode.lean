/-!
# Model of `moptipyapps/dynamic_control/ode.py`  (property C10)

What is *logic* (modelled here, statement by statement) and what is *runtime* (inputs of the
model):

* runtime, i.e. parameters of `Env`: what scipy's `RK45` does in a cycle (which right-hand-side
  evaluations it makes, the status after every `step()`, the `[t_min,t_max]` range of every
  dense interpolator), the value of a dense interpolator at a time, the controller and the
  system equations (pure functions returning float-like values `V`), `np.linspace`, and the
  two float formulas that shorten the time limit (`shrink1`, `shrink2`), `np.nextafter`.
* logic: `_is_ok`, the bookkeeping of `__IntegrationState.f` (`is_ok`, `max_ok_t`,
  `min_error_t`), the step-collection loop, the `is_finished and is_ok` gate, the first row
  and its check, the segment search `while not (t_min <= t <= t_max)`, the per-row check with
  the `max_ok_t/min_error_t` updates (including the fact that the `for` loop *continues* after
  a failed segment search), the choice between the two shrink formulas, the exit condition
  `cycle > 4 or max_time <= 1e-10`, the failure row; and the index arithmetic of
  `__j_from_ode_compute`, `j_from_ode`, `t_from_ode`.

Numbers are exact rationals (`Rat`, core Lean); a float-like value is `V`.
No Mathlib import (the driver links this file).
-/
namespace Ode

/-! ## float-like values -/

/-- a float as far as the control flow can see it: a finite (exact) value, NaN, or ±∞ -/
inductive V where
  | fin (q : Rat)
  | nan
  | posInf
  | negInf
  deriving DecidableEq, Repr, Inhabited

/-- `1e10` (exactly representable) -/
def LIM : Rat := 10000000000
/-- the double nearest to `1e-10` -/
def TINY : Rat := (7737125245533627 : Rat) / 77371252455336267181195264
/-- the double nearest to `1e100` -/
def D100 : Rat := 10000000000000000159028911097599180468360808563945281389781327557747838772170381060813469985856815104
/-- the double nearest to `1e200` -/
def D200 : Rat := 99999999999999996973312221251036165947450327545502362648241750950346848435554075534196338404706251868027512415973882408182135734368278484639385041047239877871023591066789981811181813306167128854888448

/-- float `a < b` (false as soon as a NaN is involved) -/
def V.lt : V → V → Bool
  | .fin a, .fin b => decide (a < b)
  | .negInf, .fin _ => true
  | .negInf, .posInf => true
  | .fin _, .posInf => true
  | _, _ => false

/-- float `a <= b` -/
def V.le : V → V → Bool
  | .fin a, .fin b => decide (a ≤ b)
  | .negInf, .fin _ => true
  | .negInf, .posInf => true
  | .negInf, .negInf => true
  | .fin _, .posInf => true
  | .posInf, .posInf => true
  | _, _ => false

/-- Python's `min(a, b)`: `b` if `b < a`, else `a` -/
def V.pmin (a b : V) : V := if b.lt a then b else a

/-- one element test of `_is_ok`: `-1e10 < xx < 1e10` -/
def V.isOk : V → Bool
  | .fin q => decide (-LIM < q) && decide (q < LIM)
  | _ => false

/-- `_is_ok(x)`: every element is in the open range -/
def rowOk (r : List V) : Bool := r.all V.isOk

/-! ## `__IntegrationState` -/

/-- `is_ok`, `max_ok_t`, `min_error_t` -/
structure FSt where
  isOk : Bool
  maxOk : V
  minErr : V
  deriving DecidableEq, Repr

/-- `__init__` / `init()` -/
def FSt.init : FSt := ⟨true, .negInf, .posInf⟩

/-- one call of `f(t, state)` as seen by the bookkeeping: the time, `np.nextafter(t, -inf)`,
the control vector the controller produced and (if that was ok) the differential -/
structure Eval where
  t : Rat
  tPrev : Rat
  ctrl : List V
  out : List V
  deriving Repr

/-- the body of `f` after the two callables returned -/
def FSt.eval (s : FSt) (ev : Eval) : FSt :=
  let ok := rowOk ev.ctrl && rowOk ev.out
  if ok then
    if s.maxOk.lt (.fin ev.t) && (V.fin ev.t).lt s.minErr then { s with maxOk := .fin ev.t } else s
  else
    { isOk := false
      minErr := s.minErr.pmin (.fin ev.t)
      maxOk := if (V.fin ev.t).lt s.maxOk then .fin ev.tPrev else s.maxOk }

def FSt.evals (s : FSt) (evs : List Eval) : FSt := evs.foldl FSt.eval s

/-! ## what the integrator does in one cycle (runtime input) -/

inductive Status where
  | running | finished | failed
  deriving DecidableEq, Repr

abbrev Seg := Rat × Rat

/-- one `integration.step()`: the evaluations of `f` it made, `integration.status`
afterwards and the range of `integration.dense_output()` -/
structure StepRec where
  evals : List Eval
  status : Status
  seg : Seg
  deriving Repr

/-- constructor of `RK45` (evaluates `f` at least once) followed by the `step()` calls -/
structure IntegRun where
  pre : List Eval
  steps : List StepRec
  deriving Repr

/-- the inner `while True:  integration.step() …` loop.  Result: `is_finished`, the function
state, the collected interpolator ranges.  `none`: the record ends while the integrator is
still "running" (the real loop would call `step()` again). -/
def collect : List StepRec → FSt → List Seg → Option (Bool × FSt × List Seg)
  | [], _, _ => none
  | r :: rs, s, acc =>
    let s := s.evals r.evals
    if !s.isOk then some (false, s, acc)     -- break; is_finished is still False
    else match r.status with
      | .finished => some (true, s, acc ++ [r.seg])
      | .running => collect rs s (acc ++ [r.seg])
      | .failed => some (false, s, acc)

/-! ## the environment of a simulation -/

structure Env where
  /-- `starting_state` -/
  start : List V
  /-- `controller_dim` -/
  cdim : Nat
  /-- `steps` -/
  steps : Nat
  /-- behaviour of `RK45` in cycle `c` with `t_bound = maxTime` -/
  integ : Nat → Rat → IntegRun
  /-- `np.linspace(0.0, max_time, steps)` -/
  grid : Rat → List Rat
  /-- `denses[j](t)` in cycle `c` -/
  dense : Nat → Nat → Rat → List V
  /-- the controller as a function of state and time (parameters are fixed) -/
  ctrl : List V → Rat → List V
  /-- `np.nextafter(min(min_error_t, 0.8*max_ok_t + 0.2*min_error_t), -inf)` as a function of
  `max_ok_t`, `min_error_t` -/
  shrink1 : V → V → V
  /-- `np.nextafter(0.7 * min(max_ok_t, max_time), -inf)` as a function of `max_ok_t`, `max_time` -/
  shrink2 : V → V → V
  /-- `np.nextafter(x, inf)`: the next float above (only used to state `EnvOk`: scipy evaluates the
  last stage of a step at `t + (t_bound - t)`, which can round to one ulp above `t_bound`) -/
  nextUp : Rat → Rat

/-- `dense.t_min <= t <= dense.t_max` -/
def Seg.has (d : Seg) (t : Rat) : Bool := decide (d.1 ≤ t) && decide (t ≤ d.2)

/-- `while not (dense.t_min <= t <= dense.t_max): j += 1; if j >= n_dense: …break; dense = denses[j]`.
Returns the new `j`, the new `dense` and whether the loop ended normally (`true`) or through the
`break` (`false`). -/
def segSearch (segs : List Seg) (t : Rat) (j : Nat) (cur : Seg) : Nat × Seg × Bool :=
  if cur.has t then (j, cur, true)
  else if h : j + 1 ≥ segs.length then (j + 1, cur, false)
  else segSearch segs t (j + 1) (segs[j + 1]'(by omega))
termination_by segs.length - j

inductive Tag where
  | gate | first | seg (i : Nat) | row (i : Nat) | ok | stuck | oob | badBound
  deriving DecidableEq, Repr

/-- local variables of the row-building `for` loop -/
structure LoopSt where
  j : Nat
  cur : Seg
  t : Rat
  fin : Bool
  maxOk : V
  minErr : V
  acc : List (List V)
  calls : Nat
  tag : Tag

/-- `for point in result[1:]: …` over the remaining grid times; `i` is the row index. -/
def rowLoop (e : Env) (cyc : Nat) (segs : List Seg) : List Rat → Nat → LoopSt → LoopSt
  | [], _, st => st
  | tt :: rest, i, st =>
    let last := st.t
    let r := segSearch segs tt st.j st.cur
    let st1 : LoopSt :=
      if r.2.2 then { st with j := r.1, cur := r.2.1, t := tt }
      else { st with j := r.1, cur := r.2.1, t := tt, maxOk := .fin last, minErr := .fin tt,
                     fin := false, tag := if st.fin then .seg i else st.tag }
    if st1.fin then
      let s := e.dense cyc r.1 tt
      let c := e.ctrl s tt
      let row := s ++ c ++ [V.fin tt]
      if rowOk row then
        rowLoop e cyc segs rest (i + 1) { st1 with acc := st1.acc ++ [row], calls := st1.calls + 1 }
      else  -- break
        { st1 with maxOk := .fin last, minErr := .fin tt, fin := false, calls := st1.calls + 1,
                   tag := .row i }
    else rowLoop e cyc segs rest (i + 1) st1

/-- what one pass through the body of the outer `while True` yields, before the shrink -/
inductive CycleRes where
  | done (rows : List (List V)) (calls : Nat) (maxOk minErr : V)
  | firstFail (maxOk minErr : V)                -- `break` to the failure row
  | retry (maxOk minErr : V) (tag : Tag) (calls : Nat)
  | stuck                                       -- integrator record ended while running
  | oob                                         -- an index error (`result[0]` with `steps = 0`, `denses[0]`)

def cycleStep (e : Env) (cyc : Nat) (maxTime : Rat) : CycleRes :=
  let run := e.integ cyc maxTime
  match collect run.steps (FSt.init.evals run.pre) [] with
  | none => .stuck
  | some (isFin, fs, segs) =>
    if isFin && fs.isOk then
      match e.grid maxTime with           -- `result = zeros((steps, dim)); point = result[0]`
      | [] => .oob
      | t0 :: rest =>
        let c0 := e.ctrl e.start 0
        if !rowOk (e.start ++ c0 ++ [V.fin 0]) then .firstFail fs.maxOk fs.minErr
        else match segs with                      -- `dense = denses[0]`
          | [] => .oob
          | d0 :: _ =>
            let st := rowLoop e cyc segs rest 1
              { j := 0, cur := d0, t := 0, fin := true, maxOk := fs.maxOk, minErr := fs.minErr,
                acc := [e.start ++ c0 ++ [V.fin t0]], calls := 1, tag := .ok }
            if st.fin then .done st.acc st.calls st.maxOk st.minErr
            else .retry st.maxOk st.minErr st.tag st.calls
    else .retry fs.maxOk fs.minErr .gate 0

/-- the default error result: start state, `1e100` for every control, time 0 -/
def failRow (e : Env) : List V := e.start ++ List.replicate e.cdim (.fin D100) ++ [.fin 0]

structure CycleInfo where
  cycle : Nat
  maxTime : Rat
  tag : Tag
  calls : Nat
  maxOk : V
  minErr : V
  branch : Nat
  newMax : V

inductive Out where
  | rows (rs : List (List V))
  | failure (row : List V)
  | stuck
  | oob
  | badBound     -- the shrink formula produced NaN or +inf (scipy's behaviour is not modelled)
  deriving DecidableEq

structure Result where
  out : Out
  cycles : Nat
  /-- the time limit of the last cycle -/
  finalMax : Rat
  trace : List CycleInfo

/-- the outer `while True` loop; `cycle` = value of the counter before `cycle += 1`. -/
def runFrom (e : Env) (cycle : Nat) (maxTime : Rat) : Result :=
  let c := cycle + 1
  match cycleStep e c maxTime with
  | .done rs calls mo me => ⟨.rows rs, c, maxTime, [⟨c, maxTime, .ok, calls, mo, me, 0, .nan⟩]⟩
  | .firstFail mo me => ⟨.failure (failRow e), c, maxTime, [⟨c, maxTime, .first, 1, mo, me, 0, .nan⟩]⟩
  | .stuck => ⟨.stuck, c, maxTime, [⟨c, maxTime, .stuck, 0, .nan, .nan, 0, .nan⟩]⟩
  | .oob => ⟨.oob, c, maxTime, [⟨c, maxTime, .oob, 0, .nan, .nan, 0, .nan⟩]⟩
  | .retry mo me tag calls =>
    let first := decide (c < 3) && (mo.lt me && me.lt .posInf)   -- `max_ok_t < min_error_t < inf`
    let newMax := if first then e.shrink1 mo me else e.shrink2 mo (.fin maxTime)
    let info : CycleInfo := ⟨c, maxTime, tag, calls, mo, me, if first then 1 else 2, newMax⟩
    if _h : c > 4 then ⟨.failure (failRow e), c, maxTime, [info]⟩
    else if newMax.le (.fin TINY) then ⟨.failure (failRow e), c, maxTime, [info]⟩
    else match newMax with
      | .fin m =>
        let r := runFrom e c m
        { r with trace := info :: r.trace }
      | _ => ⟨.badBound, c, maxTime, [info]⟩
termination_by 5 - cycle

/-- `run_ode(starting_state, equations, controller, parameters, controller_dim, steps, max_time)` -/
def runOde (e : Env) (maxTime : Rat) : Result := runFrom e 0 maxTime

/-! ## specification of a simulation result (the property's own words) -/

/-- finite and strictly inside ±1e10 -/
def V.InRange (v : V) : Prop := ∃ q, v = .fin q ∧ -10000000000 < q ∧ q < 10000000000

instance (v : V) : Decidable v.InRange :=
  match v with
  | .fin q => if h : -10000000000 < q ∧ q < 10000000000 then isTrue ⟨q, rfl, h⟩
              else isFalse (fun ⟨q', e, h'⟩ => by cases e; exact h h')
  | .nan => isFalse (fun ⟨_, e, _⟩ => by cases e)
  | .posInf => isFalse (fun ⟨_, e, _⟩ => by cases e)
  | .negInf => isFalse (fun ⟨_, e, _⟩ => by cases e)

/-- the time entry of a row -/
def timeOf (r : List V) : V := r.getLastD .nan
/-- the state part of a row (`n` = state dimension) -/
def stateOf (n : Nat) (r : List V) : List V := r.take n
/-- the control part of a row -/
def controlOf (n cdim : Nat) (r : List V) : List V := (r.drop n).take cdim

/-- `a` and `b` are finite times and `a` is earlier -/
def V.Before (a b : V) : Prop := ∃ x y, a = .fin x ∧ b = .fin y ∧ x < y

instance (a b : V) : Decidable (a.Before b) :=
  match a, b with
  | .fin x, .fin y => if h : x < y then isTrue ⟨x, y, rfl, rfl, h⟩
                      else isFalse (fun ⟨_, _, e1, e2, h'⟩ => by cases e1; cases e2; exact h h')
  | .nan, _ => isFalse (fun ⟨_, _, e, _, _⟩ => by cases e)
  | .posInf, _ => isFalse (fun ⟨_, _, e, _, _⟩ => by cases e)
  | .negInf, _ => isFalse (fun ⟨_, _, e, _, _⟩ => by cases e)
  | .fin _, .nan => isFalse (fun ⟨_, _, _, e, _⟩ => by cases e)
  | .fin _, .posInf => isFalse (fun ⟨_, _, _, e, _⟩ => by cases e)
  | .fin _, .negInf => isFalse (fun ⟨_, _, _, e, _⟩ => by cases e)

/-- a time not later than the limit -/
def V.AtMost (a : V) (m : Rat) : Prop := ∃ x, a = .fin x ∧ x ≤ m

instance (a : V) (m : Rat) : Decidable (a.AtMost m) :=
  match a with
  | .fin x => if h : x ≤ m then isTrue ⟨x, rfl, h⟩ else isFalse (fun ⟨_, e, h'⟩ => by cases e; exact h h')
  | .nan => isFalse (fun ⟨_, e, _⟩ => by cases e)
  | .posInf => isFalse (fun ⟨_, e, _⟩ => by cases e)
  | .negInf => isFalse (fun ⟨_, e, _⟩ => by cases e)

/-- "the requested number of rows with times strictly increasing from 0 to at most the time
limit, the starting state in the first row, all values finite and within ±1e10 and every
control entry equal to the controller's output for that row's state and time" -/
structure GoodRows (start : List V) (cdim steps : Nat) (ctrl : List V → V → List V)
    (limit : Rat) (rs : List (List V)) : Prop where
  count : rs.length = steps
  width : ∀ r ∈ rs, r.length = start.length + cdim + 1
  first : (rs.head?).map (stateOf start.length) = some start
  time0 : (rs.head?).map timeOf = some (.fin 0)
  increasing : (rs.map timeOf).Pairwise V.Before
  limited : ∀ r ∈ rs, (timeOf r).AtMost limit
  bounded : ∀ r ∈ rs, ∀ v ∈ r, v.InRange
  control : ∀ r ∈ rs, controlOf start.length cdim r = ctrl (stateOf start.length r) (timeOf r)

instance (start cdim steps ctrl limit rs) : Decidable (GoodRows start cdim steps ctrl limit rs) :=
  if h : rs.length = steps ∧ (∀ r ∈ rs, r.length = start.length + cdim + 1) ∧
      (rs.head?).map (stateOf start.length) = some start ∧ (rs.head?).map timeOf = some (.fin 0) ∧
      (rs.map timeOf).Pairwise V.Before ∧ (∀ r ∈ rs, (timeOf r).AtMost limit) ∧
      (∀ r ∈ rs, ∀ v ∈ r, v.InRange) ∧
      (∀ r ∈ rs, controlOf start.length cdim r = ctrl (stateOf start.length r) (timeOf r))
  then isTrue ⟨h.1, h.2.1, h.2.2.1, h.2.2.2.1, h.2.2.2.2.1, h.2.2.2.2.2.1, h.2.2.2.2.2.2.1, h.2.2.2.2.2.2.2⟩
  else isFalse (fun g => h ⟨g.count, g.width, g.first, g.time0, g.increasing, g.limited, g.bounded, g.control⟩)

/-- "… or a single failure row": the start state, every control entry `1e100`, time 0 -/
def IsFailureRow (start : List V) (cdim : Nat) (row : List V) : Prop :=
  row.length = start.length + cdim + 1 ∧ stateOf start.length row = start ∧
  (∀ v ∈ controlOf start.length cdim row, v = .fin D100) ∧ timeOf row = .fin 0

instance (start cdim row) : Decidable (IsFailureRow start cdim row) := by
  unfold IsFailureRow; infer_instance

/-- first clause of `GoodRows` that fails (driver output), `0` = all hold -/
def goodRowsClause (start : List V) (cdim steps : Nat) (ctrl : List V → V → List V)
    (limit : Rat) (rs : List (List V)) : Nat :=
  if ¬ rs.length = steps then 1
  else if ¬ (∀ r ∈ rs, r.length = start.length + cdim + 1) then 2
  else if ¬ (rs.head?).map (stateOf start.length) = some start then 3
  else if ¬ (rs.head?).map timeOf = some (.fin 0) then 4
  else if ¬ (rs.map timeOf).Pairwise V.Before then 5
  else if ¬ (∀ r ∈ rs, (timeOf r).AtMost limit) then 6
  else if ¬ (∀ r ∈ rs, ∀ v ∈ r, v.InRange) then 7
  else if ¬ (∀ r ∈ rs, controlOf start.length cdim r = ctrl (stateOf start.length r) (timeOf r)) then 8
  else 0

/-- the controller of an environment in the vocabulary of `GoodRows` (time as a row entry) -/
def specCtrl (e : Env) : List V → V → List V := fun s t =>
  match t with
  | .fin q => e.ctrl s q
  | _ => []

/-- every evaluation of `f` the integrator made in a cycle -/
def allEvals (run : IntegRun) : List Eval := run.pre ++ run.steps.flatMap (·.evals)

/-- What is assumed about the runtime parts of an environment (all of it is float / scipy / numpy
behaviour; every clause is either checked on each recorded run by the harness or is an IEEE fact):

* at least one row is requested; interpolators return state vectors, the controller control vectors;
* `np.linspace(0, T, steps)` has `steps` entries, starts at 0, increases strictly, stays `≤ T`;
* in every cycle the integrator stops (leaves "running" or hits an out-of-range evaluation) —
  termination of scipy's inner stepping is *not* proved;
* the integrator evaluates the right-hand side only at times `≤ nextUp t_bound` (observed: the last
  stage `t + (t_bound - t)` is sometimes one ulp above `t_bound`); `nextafter(t,-inf) < t`;
* `nextafter(min(b, …), -inf) < b` for finite `b`, and a float below `nextUp T` is `≤ T`;
  `nextafter(0.7·min(a, T), -inf) < T` for `T > 0` and non-NaN `a` (results finite or `-inf`). -/
structure EnvOk (e : Env) : Prop where
  steps_pos : 0 < e.steps
  dense_len : ∀ c j t, (e.dense c j t).length = e.start.length
  ctrl_len : ∀ s t, (e.ctrl s t).length = e.cdim
  grid_len : ∀ m, 0 < m → (e.grid m).length = e.steps
  grid_head : ∀ m, 0 < m → (e.grid m).head? = some 0
  grid_inc : ∀ m, 0 < m → (e.grid m).Pairwise (· < ·)
  grid_le : ∀ m, 0 < m → ∀ t ∈ e.grid m, t ≤ m
  integ_stops : ∀ c m, (collect (e.integ c m).steps (FSt.init.evals (e.integ c m).pre) []).isSome = true
  up_ge : ∀ m, m ≤ e.nextUp m
  evals_le : ∀ c m, 0 < m → ∀ ev ∈ allEvals (e.integ c m), ev.t ≤ e.nextUp m
  evals_prev : ∀ c m, ∀ ev ∈ allEvals (e.integ c m), ev.tPrev < ev.t
  shrink1_lt : ∀ a q, (e.shrink1 a (.fin q)).lt (.fin q) = true
  shrink1_up : ∀ a q m, q ≤ e.nextUp m → (e.shrink1 a (.fin q)).le (.fin m) = true
  shrink2_lt : ∀ a m, a ≠ .nan → 0 < m → (e.shrink2 a (.fin m)).lt (.fin m) = true

/-! ## parameters accepted by `System.__init__` (system.py) -/

/-- the double nearest to `1e-5` -/
def T5 : Rat := (5902958103587057 : Rat) / 590295810358705651712

/-- `isfinite(v) and v > limit` — the negation of the guard `(not isfinite(v)) or (v <= limit)` -/
def V.finiteAbove (v : V) (limit : Rat) : Bool :=
  match v with
  | .fin q => decide (limit < q)
  | _ => false

/-- `System` accepts `gamma`, `test_time`, `training_time` -/
def sysOk (gamma testTime trainingTime : V) : Bool :=
  gamma.finiteAbove 0 && testTime.finiteAbove T5 && trainingTime.finiteAbove T5

/-! ## figure of merit -/

/-- `(v * v) * w if -1e100 < v < 1e100 else 1e100` -/
def clampSq (v w : Rat) : Rat := if -D100 < v ∧ v < D100 then (v * v) * w else D100

/-- columns visited by `inner = start; while inner >= state_dim: … inner -= 1`
(`start = ncols - 2`): `ncols-2, ncols-3, …, state_dim` -/
def ctrlCols (ncols sd : Nat) : List Nat := ((List.range (ncols - 1 - sd)).map (· + sd)).reverse

/-- columns visited by `inner = use; while inner > 0: inner -= 1; …`: `use-1, …, 0` -/
def stateCols (use : Nat) : List Nat := (List.range use).reverse

/-- destination array (`none` = not yet written, `np.empty`) and cursor -/
structure JSt where
  dest : List (Option Rat)
  index : Nat

/-- `dest[index] = x; index += 1` with a bounds check -/
def JSt.push (s : JSt) (x : Rat) : Option JSt :=
  if s.index < s.dest.length then some ⟨s.dest.set s.index (some x), s.index + 1⟩ else none

/-- one of the two inner `while` loops: read `last_row[c]` for the listed columns (checked),
write the weighted square at the cursor (checked) -/
def colLoop (last : List Rat) (w : Rat) : List Nat → JSt → Option JSt
  | [], s => some s
  | c :: cs, s => do
    let v ← last[c]?
    let s ← s.push (clampSq v w)
    colLoop last w cs s

/-- the `for i in range(1, len(ode))` loop: `last` = `last_row`, the list = the remaining rows -/
def pairLoop (ncols sd use : Nat) (gamma : Rat) : List Rat → List (List Rat) → Bool → JSt → Option JSt
  | _, [], _, s => some s
  | last, next :: rest, addState, s => do
    let tn ← next.getLast?
    let tl ← last.getLast?
    let weight := tn - tl
    let s ← colLoop last (weight * gamma) (ctrlCols ncols sd) s
    let s ← if addState then colLoop last weight (stateCols use) s else some s
    pairLoop ncols sd use gamma next rest true s

/-- `__j_from_ode_compute(ode, state_dim, use_state_dims, gamma, dest)` -/
def jCompute (ode : List (List Rat)) (sd use : Nat) (gamma : Rat) (dest : List (Option Rat)) : Option JSt :=
  match ode with
  | [] => none                         -- `ode[0]`
  | r0 :: rest => pairLoop r0.length sd use gamma r0 rest false ⟨dest, 0⟩

inductive JRes where
  | val (q : Rat)
  | oob            -- an access outside an array
  | err            -- negative size for `np.empty`
  | div0           -- total time 0
  deriving DecidableEq, Repr

/-- `t_from_ode(ode)` = `ode[-1, -1]` -/
def tFromOde (ode : List (List Rat)) : Option Rat := ode.getLast?.bind (·.getLast?)

/-- exact sum of a fully initialised destination (`fsum`) -/
def destSum (d : List (Option Rat)) : Option Rat := (d.mapM id).map List.sum

/-- `j_from_ode(ode, state_dim, use_state_dims, gamma)` -/
def jFromOde (ode : List (List Rat)) (sd : Nat) (use : Int) (gamma : Rat) : JRes :=
  if ode.length ≤ 1 then .val D200
  else
    let use : Nat := if use ≤ 0 then sd else use.toNat
    let ncols := (ode.headD []).length
    let size : Int := ((ode.length : Int) - 1) * ((ncols : Int) - 1 - sd + use) - use
    if size < 0 then .err
    else match jCompute ode sd use gamma (List.replicate size.toNat none) with
      | none => .oob
      | some s =>
        match destSum s.dest, tFromOde ode with
        | some total, some t => if t = 0 then .div0 else .val (total / t)
        | _, _ => .oob      -- an uninitialised entry would be read by `fsum`

/-! ### the documented figure of merit -/

def sumSq (l : List Rat) : Rat := (l.map (fun v => v * v)).sum

/-- time of row `i` -/
def timeAt (ode : List (List Rat)) (i : Nat) : Rat := (ode.getD i []).getLastD 0

/-- control entries of a row: everything after the state, without the time -/
def ctrlPart (sd : Nat) (r : List Rat) : List Rat := (r.drop sd).dropLast

/-- "the sum of state variable squares plus gamma times the control variable squares", each
weighted with the length of the time slice that starts at the row; the state of the first row
and the whole last row are disregarded; divided by the simulated time. -/
def docJ (ode : List (List Rat)) (sd use : Nat) (gamma : Rat) : Rat :=
  ((List.range (ode.length - 1)).map (fun i =>
      (timeAt ode (i + 1) - timeAt ode i) *
        (gamma * sumSq (ctrlPart sd (ode.getD i [])) +
          (if 1 ≤ i then sumSq ((ode.getD i []).take use) else 0)))).sum
    / timeAt ode (ode.length - 1)

end Ode
