import Model.Pack
import Model.Ibl
/-!
C14 — executable SPECIFICATION of the documented improved-bottom-left procedure.

Written from the module docstrings of `ibl_encoding_1.py` / `ibl_encoding_2.py` and the docstrings of
`__move_down`, `__move_left`, `_decode` — not from the code.  Vocabulary of the documentation:

* the packing under construction is a list of *bins* in order of opening, each bin the list of the
  items placed in it so far (no destination array, no index windows, no scratch arrays);
* an item *falls* until its bottom reaches the floor or the top edge of an item below it
  ("we cannot move the current box deeper than the top-y coordinate of the other box"): the new
  bottom is the HIGHEST of these stop levels (a position, not a distance);
* an item *slides left* until its left side touches the wall or another item, or until "its right
  side reaches the left end of the object beneath it": the new left end is the RIGHTMOST stop;
* "downward movements are preferred over left movements. This is repeated until no movement of the
  object is possible anymore";
* the item starts "with its right end at the right end of the bin and with its bottom line exactly at
  the top of the bin"; afterwards "we check if it is fully inside the bin";
* an id occurring negated means "rotated by 90°"; an item that does not fit the bin in its rotation is
  force-rotated;
* encoding 1: "If the object does not fit into the current bin, we place it at the bottom-left corner of
  a new bin … the current bin is closed at the same moment";  encoding 2: "always checks all the bins,
  starting at bin 1".
-/
namespace IblSpec
open Pack

/-- the projections onto the x-axis share a piece of positive length -/
@[reducible] def overlapX (p c : Row) : Prop := c.l < p.r ∧ p.l < c.r
/-- the projections onto the y-axis share a piece of positive length -/
@[reducible] def overlapY (p c : Row) : Prop := c.b < p.t ∧ p.b < c.t

/-- the largest of the stop coordinates, never less than the bin wall/floor -/
def highest (wall : Int) (stops : List Int) : Int := stops.foldl max wall

/-- the same rectangle (id, bin, width, height) with its bottom-left corner at `(x, y)` -/
def moveTo (c : Row) (x y : Int) : Row :=
  { c with l := x, b := y, r := x + (c.r - c.l), t := y + (c.t - c.b) }

/-- the placed items that can stop a fall of `c`: they share x-range with `c` and are not above it -/
def below (placed : List Row) (c : Row) : List Row :=
  placed.filter (fun p => overlapX p c ∧ p.b < c.t)

/-- level at which a falling `c` comes to rest: the highest top edge below it, or the floor -/
def dropLevel (placed : List Row) (c : Row) : Int := highest 0 ((below placed c).map (·.t))

def dropDown (placed : List Row) (c : Row) : Row := moveTo c c.l (dropLevel placed c)

/-- items to the left of `c` whose y-range meets that of `c`: `c` cannot slide through them -/
def leftBlockers (placed : List Row) (c : Row) : List Row :=
  placed.filter (fun p => p.r ≤ c.l ∧ overlapY p c)

/-- the supporting items: `c` stands directly on their top edge -/
def supports (placed : List Row) (c : Row) : List Row :=
  placed.filter (fun p => p.t = c.b ∧ overlapX p c)

/-- the x-coordinate at which the left end of a sliding `c` stops: the wall, the right edge of a
blocker, or the place where the right end of `c` has reached the left end of a supporting item
(there it could fall again) — whichever comes first, i.e. is rightmost -/
def leftLevel (placed : List Row) (c : Row) : Int :=
  highest 0 ((leftBlockers placed c).map (·.r) ++ (supports placed c).map (fun p => p.l - (c.r - c.l)))

def slideLeft (placed : List Row) (c : Row) : Row := moveTo c (leftLevel placed c) c.b

/-- repeat { fall if that moves the item; otherwise slide left if that moves it; otherwise stop }.
`n` bounds the number of moves; `IblSpec.settleN_at_rest` / `settleN_fuel_irrelevant` show that the
bound used by `settleSpec` is never reached (every move lowers `bottom + left` and both stay ≥ 0). -/
def settleN : Nat → List Row → Row → Row
  | 0, _, c => c
  | n + 1, placed, c =>
    let d := dropDown placed c
    if d.b < c.b then settleN n placed d
    else
      let s := slideLeft placed c
      if s.l < c.l then settleN n placed s else c

def settleSpec (placed : List Row) (c : Row) : Row := settleN (c.b.toNat + c.l.toNat + 1) placed c

/-- drop an item of the given width and height into one bin: start above the bin at its top-right
corner, let it settle; it is accepted iff it then lies completely inside the bin -/
def placeInBin (I : Inst) (placed : List Row) (id w h : Int) : Option Row :=
  let r := settleSpec placed ⟨id, 0, I.W - w, I.H, I.W, I.H + h⟩
  if 0 ≤ r.l ∧ 0 ≤ r.b ∧ r.r ≤ I.W ∧ r.t ≤ I.H then some r else none

/-- which item an element of the permutation denotes and in which orientation it is packed:
`(id, width, height)`; negated = rotated; rotated (again) if it would not fit the bin otherwise -/
def orient (I : Inst) (v : Int) : Option (Int × Int × Int) :=
  match I.item? v.natAbs with
  | none => none
  | some it =>
    let wh : Int × Int := if v < 0 then (it.h, it.w) else (it.w, it.h)
    if wh.1 ≤ I.W ∧ wh.2 ≤ I.H then some (v.natAbs, wh.1, wh.2) else some (v.natAbs, wh.2, wh.1)

/-- the bins in order of opening; bin number = position + 1 -/
abbrev Bins := List (List Row)

/-- open a new bin; its first item goes to the bottom-left corner -/
def openBin (bins : Bins) (id w h : Int) : Row × Bins :=
  let r : Row := ⟨id, bins.length + 1, 0, 0, w, h⟩
  (r, bins ++ [[r]])

/-- encoding 1: only the most recently opened bin is tried -/
def nextFitPlace (I : Inst) (bins : Bins) (id w h : Int) : Row × Bins :=
  match bins.getLast? with
  | none => openBin bins id w h
  | some cur =>
    match placeInBin I cur id w h with
    | some r =>
      let r := { r with bin := bins.length }
      (r, bins.dropLast ++ [cur ++ [r]])
    | none => openBin bins id w h

/-- try the given bins (numbered `n, n+1, …`) in this order; the first that accepts the item gets it -/
def firstAccepting (I : Inst) (id w h : Int) : Bins → Nat → Option (Row × Bins)
  | [], _ => none
  | bin :: more, n =>
    match placeInBin I bin id w h with
    | some r =>
      let r := { r with bin := n }
      some (r, (bin ++ [r]) :: more)
    | none =>
      match firstAccepting I id w h more (n + 1) with
      | some (r, more') => some (r, bin :: more')
      | none => none

/-- encoding 2: all open bins are tried, starting with the first -/
def firstFitPlace (I : Inst) (bins : Bins) (id w h : Int) : Row × Bins :=
  match firstAccepting I id w h bins 1 with
  | some res => res
  | none => openBin bins id w h

/-- process the permutation from beginning to end; the packing lists the items in that order,
each with the number of the bin that received it; `none` = an element that is no item id -/
def pack (I : Inst) (place : Bins → Int → Int → Int → Row × Bins) : Bins → List Int → Option (List Row × Int)
  | bins, [] => some ([], bins.length)
  | bins, v :: rest =>
    match orient I v with
    | none => none
    | some (id, w, h) =>
      let (r, bins') := place bins id w h
      match pack I place bins' rest with
      | none => none
      | some (rows, k) => some (r :: rows, k)

/-- the documented result of encoding 1: `(rows in permutation order, number of bins)`;
"it starts with an empty bin 1" -/
def nextFit (I : Inst) (x : List Int) : Option (List Row × Int) := pack I (nextFitPlace I) [[]] x

/-- the documented result of encoding 2 -/
def firstFit (I : Inst) (x : List Int) : Option (List Row × Int) := pack I (firstFitPlace I) [[]] x

end IblSpec

/-! ### histories of decode calls on ONE encoder object and ONE destination (statement of statelessness) -/
namespace Ibl
open Pack

/-- everything that survives between two `decode` calls: the destination packing `y` and the two
scratch arrays `bin_starts`, `bin_ends` kept by the `ImprovedBottomLeftEncoding2` object -/
structure Mem where
  y : List Row
  starts : List Int
  ends : List Int
  deriving Repr

/-- one `encoder.decode(x, y)` call: `two = false` for encoding 1 (touches `y` only), `true` for
encoding 2 (`y`, `bin_starts`, `bin_ends`); result = new memory and the `n_bins` stored in `y` -/
def decodeCall (I : Inst) (m : Mem) (two : Bool) (x : List Int) : Option (Mem × Int) :=
  if two then
    match decode2? I x m.y m.starts m.ends with
    | some (rows, k, s, e) => some ({ y := rows, starts := s, ends := e }, k)
    | none => none
  else
    match decode1? I x m.y with
    | some (rows, k) => some ({ m with y := rows }, k)
    | none => none

/-- a history of decode calls, each starting from what the previous one left behind -/
def decodeHistory (I : Inst) : List (Bool × List Int) → Mem → Option Mem
  | [], m => some m
  | (two, x) :: rest, m =>
    match decodeCall I m two x with
    | some (m', _) => decodeHistory I rest m'
    | none => none

end Ibl
