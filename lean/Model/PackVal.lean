import Model.Pack
/-!
# C04 — model of `PackingSpace.validate`, `to_str`, `from_str`
(`moptipyapps/binpacking2d/packing_space.py`, as of the two `fix:` commits 2f230dc, 087758c)

A `Packing` is what the validator looks at: whether `x.instance is space.instance`, the
numpy dtype tag, the matrix as a list of rows (each a list of ints — so wrong shapes
`(m, 6)`, `(n, 5)`, `(n, 7)` are representable) and the attribute `n_bins`.

`validate` mirrors the code in its order and returns the *first* error, as a small enum that
carries the row index (and partner index / item id) the real message mentions:

```
inst is not x.instance            -> inst
inst.dtype is not x.dtype         -> dtype
x.shape != (n_items, 6)           -> shape
check_int_range(bin_width/height) -> binSize          (1 .. 10^12, as in Instance)
for i in range(n_items):
    id  <= 0 or id  > n_different -> id i
    bin <= 0 or bin > n_items     -> bin i
    l >= r or b >= t              -> degenerate i
    l < 0 or b < 0 or r > W or t > H -> outside i
    (rw != w or rh != h) and (rw != h or rh != w) -> dims i
    for j in range(n_items): same bin, j != i, intersecting -> overlap i j
for id, count in Counter.items(): inst[id-1].rep != count -> mult id   (only ids that occur,
                                                                        first-occurrence order)
max(bins)/min(bins) of an empty set -> noBins          (only if n_items = 0)
min != 1 or max - min + 1 != len  -> bins
x.n_bins != len                   -> nBins
```

The set `bins` and the `Counter` are filled inside the row loop of the code but read only
after the loop has completed, so the model computes them from all rows after the loop.
Array reads go through `Inst.item?` / the shape check; the error `oob` stands for a read
outside the instance matrix (`Proofs/PackVal.lean: validate_no_oob` shows it never occurs).

Not modelled (type-level checks of Python): `isinstance(x, Packing)`, `isinstance(x.n_bins, int)`.
-/
namespace PackVal
open Base Pack

/-- what `validate` sees of a `Packing` object -/
structure Packing where
  /-- `x.instance is self.instance` -/
  ownInst : Bool
  dtype : DType
  rows : List (List Int)
  nBins : Int
  deriving DecidableEq, Repr, Inhabited

inductive Err where
  | inst | dtype | shape | binSize
  | id (i : Nat) | bin (i : Nat) | degenerate (i : Nat) | outside (i : Nat) | dims (i : Nat)
  | overlap (i j : Nat)
  | mult (id : Int)
  | noBins | bins | nBins
  | oob
  | parse | count      -- `from_str` only: text not a `;`-list of integers / wrong number of values
  deriving DecidableEq, Repr, Inhabited

def Err.show : Err → String
  | .inst => "inst" | .dtype => "dtype" | .shape => "shape" | .binSize => "binSize"
  | .id i => s!"id:{i}" | .bin i => s!"bin:{i}" | .degenerate i => s!"degenerate:{i}"
  | .outside i => s!"outside:{i}" | .dims i => s!"dims:{i}" | .overlap i j => s!"overlap:{i}:{j}"
  | .mult v => s!"mult:{v}" | .noBins => "noBins" | .bins => "bins" | .nBins => "nBins"
  | .oob => "OOB" | .parse => "parse" | .count => "count"

/-- the rows that have exactly six columns, as `Row`s (all of them if the shape is right) -/
def Packing.rowsR (P : Packing) : List Row := P.rows.filterMap rowOfList

/-- `x.shape == (n, 6)` -/
def Packing.HasShape (P : Packing) (n : Int) : Prop :=
  (P.rows.length : Int) = n ∧ ∀ r ∈ P.rows, r.length = 6

instance (P : Packing) (n : Int) : Decidable (P.HasShape n) := by
  unfold Packing.HasShape; infer_instance

/-- the intersection test of the inner loop, literally:
`x_left_2 < x_right and x_right_2 > x_left and y_bottom_2 < y_top and y_top_2 > y_bottom`
(`a` is row `i`, `c` is row `j`) -/
def overlaps (a c : Row) : Bool :=
  decide (c.l < a.r) && decide (c.r > a.l) && decide (c.b < a.t) && decide (c.t > a.b)

/-- inner loop `for j in range(n_items)`: the first `j` with the same bin, `j ≠ i`, intersecting -/
def firstOverlap (all : List Row) (i : Nat) (a : Row) : Option Nat :=
  (all.zipIdx.find? (fun cj => !(decide (cj.1.bin ≠ a.bin) || decide (i = cj.2)) && overlaps a cj.1)).map (·.2)

/-- body of the row loop for row `a` at index `i` -/
def checkRow (I : Inst) (all : List Row) (i : Nat) (a : Row) : Except Err Unit :=
  if a.id ≤ 0 ∨ a.id > (I.nTypes : Int) then .error (.id i) else
  if a.bin ≤ 0 ∨ a.bin > I.nItems then .error (.bin i) else
  if a.l ≥ a.r ∨ a.b ≥ a.t then .error (.degenerate i) else
  if a.l < 0 ∨ a.b < 0 ∨ a.r > I.W ∨ a.t > I.H then .error (.outside i) else
  match I.item? a.id with
  | none => .error .oob
  | some it =>
    let rw := a.r - a.l
    let rh := a.t - a.b
    if (rw ≠ it.w ∨ rh ≠ it.h) ∧ (rw ≠ it.h ∨ rh ≠ it.w) then .error (.dims i) else
    match firstOverlap all i a with
    | some j => .error (.overlap i j)
    | none => .ok ()

/-- `for i in range(n_items)` over the rows `rest = all[i:]` -/
def checkRowsFrom (I : Inst) (all : List Row) : Nat → List Row → Except Err Unit
  | _, [] => .ok ()
  | i, a :: rest => do
    checkRow I all i a
    checkRowsFrom I all (i + 1) rest

/-- `items[id]` of the `Counter` after the loop -/
def count (rows : List Row) (id : Int) : Nat := (rows.filter (fun a => a.id = id)).length

/-- `for item_id, count in items.items()`: ids in order of first occurrence; the first one whose
prescribed repetition differs from its count -/
def firstBadMult (I : Inst) (rows : List Row) : Option Row :=
  rows.find? (fun a => match I.item? a.id with
    | some it => decide (it.rep ≠ (count rows a.id : Int))
    | none => true)

/-- the Python set `bins` as a duplicate-free list -/
def binSet : List Int → List Int
  | [] => []
  | b :: bs => (binSet bs).insert b

def checkBins (rows : List Row) (nBins : Int) : Except Err Unit :=
  let s := binSet (rows.map (·.bin))
  match s.max?, s.min? with
  | some mx, some mn =>
    if mn ≠ 1 ∨ mx - mn + 1 ≠ (s.length : Int) then .error .bins else
    if nBins ≠ (s.length : Int) then .error .nBins else .ok ()
  | _, _ => .error .noBins

def checkMult (I : Inst) (rows : List Row) : Except Err Unit :=
  match firstBadMult I rows with
  | some a => .error (match I.item? a.id with | some _ => .mult a.id | none => .oob)
  | none => .ok ()

/-- `PackingSpace(I).validate(P)` -/
def validate (I : Inst) (P : Packing) : Except Err Unit :=
  if P.ownInst = false then .error .inst else
  if I.dtype? ≠ some P.dtype then .error .dtype else
  if ¬ P.HasShape I.nItems then .error .shape else
  if I.W < 1 ∨ I.W > 1000000000000 ∨ I.H < 1 ∨ I.H > 1000000000000 then .error .binSize else
  let rows := P.rowsR
  do
    checkRowsFrom I rows 0 rows
    checkMult I rows
    checkBins rows P.nBins

/-! ## text form

`to_str`: `";".join(str(v) for v in np.nditer(x))` — all values row by row, decimal, joined by
`;` without blanks.  `from_str`: `np.fromstring(text, dtype, sep=";").reshape((n_items, 6))`
into a fresh `Packing` of the instance, `n_bins := max of the bin column`, then `validate`.

The tokenizer below is strict (exactly the `;`-separated decimal integers `String.toInt?`
accepts); numpy's `fromstring` is more lenient (blanks, `+`, a trailing `;`, silent stop at the
first unparsable value, wrap-around of values outside the dtype) — it is an external function
and only its behaviour on `to_str` output and on texts with a wrong number of values is
correspondence-checked. -/

def joinSemi : List (List Char) → List Char
  | [] => []
  | [t] => t
  | t :: ts => t ++ ';' :: joinSemi ts

/-- `text.split(';')` on character lists -/
def splitSemi : List Char → List (List Char)
  | [] => [[]]
  | c :: cs =>
    if c = ';' then [] :: splitSemi cs
    else match splitSemi cs with
      | t :: ts => (c :: t) :: ts
      | [] => [[c]]

def Packing.flat (P : Packing) : List Int := P.rows.flatten

def toStr (P : Packing) : String :=
  String.ofList (joinSemi (P.flat.map (fun v => v.repr.toList)))

/-- `.reshape((-1, 6))`; `none` if the number of values is no multiple of 6 -/
def reshape6 : List Int → Option (List (List Int))
  | [] => some []
  | a :: b :: c :: d :: e :: f :: rest => (reshape6 rest).map ([a, b, c, d, e, f] :: ·)
  | _ => none

def parseInts (s : String) : Option (List Int) :=
  (splitSemi s.toList).mapM (fun t => (String.ofList t).toInt?)

def fromStr (I : Inst) (s : String) : Except Err Packing :=
  match parseInts s with
  | none => .error .parse
  | some vals =>
    match reshape6 vals with
    | none => .error .count
    | some rows =>
      if (rows.length : Int) ≠ I.nItems then .error .count else
      match I.dtype? with
      | none => .error .dtype
      | some dt =>
        match (rows.map (fun r => r.getD 1 0)).max? with
        | none => .error .noBins
        | some mx =>
          let P : Packing := ⟨true, dt, rows, mx⟩
          (validate I P).map (fun _ => P)

/-- the right-hand side of the property: the packing belongs to the instance, has its integer
type and shape, and is feasible -/
def Accepts (I : Inst) (P : Packing) : Prop :=
  P.ownInst = true ∧ I.dtype? = some P.dtype ∧ P.HasShape I.nItems ∧ Feasible I P.rowsR P.nBins

instance (I : Inst) (P : Packing) : Decidable (Accepts I P) := by unfold Accepts; infer_instance

/-- `Pack.feasibleB` with a guard: the shared decision procedure enumerates `List.range k.toNat`,
which does not terminate in practice for a corrupted `n_bins` like 10^12; more bins than rows is
never feasible (`Proofs/PackVal.lean: feasibleFast_eq`). -/
def feasibleFast (I : Inst) (rows : List Row) (k : Int) : Bool :=
  if k > (rows.length : Int) then false else feasibleB I rows k

/-- Boolean form of `Accepts` used by the driver (`acc=`) -/
def acceptsB (I : Inst) (P : Packing) : Bool :=
  P.ownInst && decide (I.dtype? = some P.dtype) && decide (P.HasShape I.nItems) &&
    feasibleFast I P.rowsR P.nBins

end PackVal
