/-!
C20 — model of `moptipyapps/order1d/instance.py`
(`Instance.from_sequence_and_distance`, `Instance.__init__`) and of the kernel
`moptipyapps/order1d/distances.py:swap_distance`.

Objects are identified by their position `0 … N-1` in the original sequence; the distance
function is an external parameter `dist : Nat → Nat → Int` (the code only ever calls
`get_distance(o1, o2)` with `o1` *earlier* in the sequence than `o2`).  Distances are
unbounded integers (the harness maps exactly representable float distances order-isomorphically
to integers).  The flow power is an integer `p`; float powers are outside the model.

External / assumed (see `harness/c20.py`, `ck.assumptions`):
* `scipy.stats.rankdata(row, method="average") - 1`, doubled, is `rank2` below;
* `np.argsort` of an array with pairwise different values is the unique sorting index list;
* float arithmetic `multiplier * (max_val - f + 1) ** p` is exact (result `< 2^53`);
* the QAP super-constructor stores both matrices unchanged (that is C09).
-/
namespace Order1d

/-- result of a modelled call: value, `ValueError`/`OverflowError` raised by the code's own
guards, access outside an array, or a `while` loop that never ends -/
inductive Res (α : Type) where
  | ok (a : α)
  | err
  | oob
  | diverge
  deriving Repr, DecidableEq

def Res.isOk {α : Type} : Res α → Bool
  | .ok _ => true
  | _ => false

abbrev Matrix := List (List Int)

/-- total matrix read for specifications (every theorem that uses it has the indices inside) -/
def entry (d : Matrix) (i j : Nat) : Int := (d.getD i []).getD j 0

/-! ## `from_sequence_and_distance`: incremental distance matrix with purge -/

/-- the float constant `1e100` as the exact integer it denotes -/
def E100 : Int :=
  10000000000000000159028911097599180468360808563945281389781327557747838772170381060813469985856815104

/-- `isfinite(dist) and (0 <= dist <= 1e100)` for an integer distance -/
def validDist (d : Int) : Bool := decide (0 ≤ d) && decide (d ≤ E100)

/-- `for ds in distances: del ds[j]` (checked: `del` beyond the end raises `IndexError`) -/
def delCol : Matrix → Nat → Option Matrix
  | [], _ => some []
  | r :: rs, j =>
    if j < r.length then
      match delCol rs j with
      | some rs' => some (r.eraseIdx j :: rs')
      | none => none
    else none

/-- `[d[i] for d in distances]` (checked) -/
def colOf : Matrix → Nat → Option (List Int)
  | [], _ => some []
  | r :: rs, i =>
    match r[i]? with
    | some v =>
      match colOf rs i with
      | some c => some (v :: c)
      | none => none
    | none => none

/-- what one pass of the inner loop yields: the part of `datal[j:]` that survives, the earlier
rows after the column deletions, the entries appended to `current_dists`, and the
`(object, i)` pairs appended to `mappings` -/
structure ScanOut where
  kept : List Nat
  rows : Matrix
  cur : List Int
  maps : List (Nat × Nat)
  deriving Repr, DecidableEq

/-- inner loop `while j < len(datal)` for fixed `i` and `o1 = datal[i]`.
The first list argument is `datal[j:]`; `del datal[j]` drops its head (and leaves `j`), keeping
an element advances `j`. -/
def scan (dist : Nat → Nat → Int) (o1 i : Nat) : List Nat → Nat → Matrix → Res ScanOut
  | [], _, rows => .ok ⟨[], rows, [], []⟩
  | o2 :: rest, j, rows =>
    let d := dist o1 o2
    if !validDist d then .err
    else if d ≤ 0 then
      match delCol rows j with
      | none => .oob
      | some rows' =>
        match scan dist o1 i rest j rows' with
        | .ok s => .ok { s with maps := (o2, i) :: s.maps }
        | e => e
    else
      match scan dist o1 i rest (j + 1) rows with
      | .ok s => .ok { s with kept := o2 :: s.kept, cur := d :: s.cur }
      | e => e

/-- state after the outer loop: `datal` (the kept objects), the distance rows, `mappings` -/
structure SeqOut where
  kept : List Nat
  rows : Matrix
  maps : List (Nat × Nat)
  deriving Repr, DecidableEq

/-- outer loop `while i < len(datal)`.  `done = datal[:i]`, `todo = datal[i:]`.  Every pass
removes `datal[i]` from `todo`, so the loop body runs at most `len(data)` times; that bound is
the structural `fuel` (theorem `outer_total`: it is never exhausted when started with
`fuel = len(data)`). -/
def outer (dist : Nat → Nat → Int) : Nat → List Nat → List Nat → Matrix → List (Nat × Nat) →
    Res SeqOut
  | _, done, [], rows, maps => .ok ⟨done, rows, maps⟩
  | 0, _, _ :: _, _, _ => .diverge
  | fuel + 1, done, o1 :: rest, rows, maps =>
    let i := done.length
    match colOf rows i with
    | none => .oob
    | some col =>
      match scan dist o1 i rest (i + 1) rows with
      | .ok s =>
        outer dist fuel (done ++ [o1]) s.kept (s.rows ++ [col ++ 0 :: s.cur])
          (maps ++ s.maps ++ [(o1, i)])
      | .err => .err
      | .oob => .oob
      | .diverge => .diverge

/-- the first half of `from_sequence_and_distance` for `N` objects -/
def dedupe (dist : Nat → Nat → Int) (N : Nat) : Res SeqOut :=
  outer dist N [] (List.range N) [] []

/-! ## `Instance.__init__`: ranks, multiplier rule, flows -/

/-- twice (`rankdata(row, "average") - 1`) for an entry of value `v`:
`2·#{k | row k < v} + #{k | row k = v} − 1` -/
def rank2 (row : List Int) (v : Int) : Int :=
  2 * (row.countP (fun w => decide (w < v)) : Int) + (row.countP (fun w => decide (w = v)) : Int) - 1

/-- `int(f) < f <= horizon` for some off-diagonal entry: a fractional rank inside the horizon -/
def needDouble (D : Matrix) (h : Int) : Bool :=
  (List.range D.length).any fun i => (List.range D.length).any fun j =>
    i != j && (let r := rank2 (D.getD i []) (entry D i j); decide (r % 2 = 1) && decide (r ≤ 2 * h))

/-- `int(round(multiplier * (max_val - f + 1) ** p))` for `2f = r2`, exactly -/
def flowVal (dbl : Bool) (maxVal : Int) (p : Nat) (r2 : Int) : Int :=
  if dbl then (2 * maxVal - r2 + 2) ^ p else (maxVal - r2 / 2 + 1) ^ p

structure Inst where
  n : Nat
  horizon : Int
  dist : Matrix
  flows : Matrix
  doubled : Bool
  deriving Repr, DecidableEq

/-- one row of the flow matrix; `none` = read outside `flows[i, j]` -/
def flowRow (D : Matrix) (dbl : Bool) (maxVal h : Int) (p : Nat) (i : Nat) : Option (List Int) :=
  (List.range D.length).mapM fun j =>
    if i = j then some 0 else
    match (D[i]?).bind (·[j]?) with
    | none => none
    | some v =>
      let r := rank2 (D.getD i []) v
      if r > 2 * h then some 0 else some (flowVal dbl maxVal p r)

/-- `Instance(distances, flow_power, horizon, …)` for an integer flow power -/
def mkInstance (D : Matrix) (p h : Int) : Res Inst :=
  if p ≤ 0 ∨ p ≥ 100 then .err else
  if h < 1 ∨ h > 1000000000000 then .err else
  let n := D.length
  if !(D.all fun r => r.length == (D.headD []).length) then .err else   -- np.array of ragged lists
  let dist : Matrix := (List.range n).map fun i => (List.range n).map fun j =>
    if i ≤ j then ((j - i : Nat) : Int) else ((i - j : Nat) : Int)
  let dbl := needDouble D h
  let maxVal : Int := min ((n : Int) - 1) h
  match (List.range n).mapM (flowRow D dbl maxVal h p.toNat) with
  | none => .oob
  | some F =>
    if F.any (fun r => r.any fun v => decide (v ≥ 9223372036854775808)) then .err   -- OverflowError
    else .ok ⟨n, maxVal, dist, F, dbl⟩

structure Full where
  inst : Inst
  kept : List Nat
  tags : List (Nat × Nat)
  D : Matrix
  deriving Repr, DecidableEq

def fromSequence (dist : Nat → Nat → Int) (N : Nat) (p h : Int) : Res Full :=
  match dedupe dist N with
  | .ok s =>
    match mkInstance s.rows p h with
    | .ok I => .ok ⟨I, s.kept, s.maps, s.rows⟩
    | .err => .err
    | .oob => .oob
    | .diverge => .diverge
  | .err => .err
  | .oob => .oob
  | .diverge => .diverge

/-! ## Specification of the instance clauses (the property's own words) -/

/-- symmetrised distance between original objects `a`, `b`: the code evaluates the distance
function with the earlier object first -/
def sdist (dist : Nat → Nat → Int) (a b : Nat) : Int :=
  if a = b then 0 else if a < b then dist a b else dist b a

/-- *every original object is mapped to exactly one kept object, which is itself or an earlier
object at distance zero from it — the first such kept object —; kept objects keep their order
and are at positive distance from every earlier kept object.* -/
def DedupeSpec (dist : Nat → Nat → Int) (N : Nat) (kept : List Nat) (maps : List (Nat × Nat)) : Prop :=
  (maps.map Prod.fst).Perm (List.range N) ∧
  kept.Pairwise (· < ·) ∧ (∀ k ∈ kept, k < N) ∧
  (∀ m ∈ maps, ∃ k, kept[m.2]? = some k ∧
      (m.1 = k ∨ (k < m.1 ∧ dist k m.1 = 0 ∧ m.1 ∉ kept)) ∧
      (∀ r, r < m.2 → 0 < dist (kept.getD r 0) m.1)) ∧
  (∀ a, a < kept.length → ∀ b, b < kept.length → a < b → 0 < dist (kept.getD a 0) (kept.getD b 0))

instance (dist N kept maps) : Decidable (DedupeSpec dist N kept maps) := by
  unfold DedupeSpec
  have : ∀ m : Nat × Nat, Decidable (∃ k, kept[m.2]? = some k ∧
      (m.1 = k ∨ (k < m.1 ∧ dist k m.1 = 0 ∧ m.1 ∉ kept)) ∧
      (∀ r, r < m.2 → 0 < dist (kept.getD r 0) m.1)) := fun m =>
    match h : kept[m.2]? with
    | none => isFalse (by simp)
    | some k => decidable_of_iff ((m.1 = k ∨ (k < m.1 ∧ dist k m.1 = 0 ∧ m.1 ∉ kept)) ∧
        (∀ r, r < m.2 → 0 < dist (kept.getD r 0) m.1)) (by simp)
  infer_instance

/-- the matrix handed to the constructor holds the (symmetrised) distances of the kept objects -/
def MatrixSpec (dist : Nat → Nat → Int) (kept : List Nat) (D : Matrix) : Prop :=
  D.length = kept.length ∧ (∀ r ∈ D, r.length = kept.length) ∧
  ∀ a, a < kept.length → ∀ b, b < kept.length →
    entry D a b = sdist dist (kept.getD a 0) (kept.getD b 0)

instance (dist kept D) : Decidable (MatrixSpec dist kept D) := by
  unfold MatrixSpec; infer_instance

/-- number of objects strictly closer to `i` than `j` is (row entries, including `i` itself) -/
def closer (D : Matrix) (i j : Nat) : Nat :=
  ((List.range D.length).filter fun k => decide (entry D i k < entry D i j)).length
/-- number of objects exactly as far from `i` as `j` is (including `j`) -/
def asFar (D : Matrix) (i j : Nat) : Nat :=
  ((List.range D.length).filter fun k => decide (entry D i k = entry D i j)).length

/-- `j` lies beyond the horizon `h` of `i`: its zero-based average rank
`closer + (asFar − 1)/2` exceeds `h` -/
def Beyond (D : Matrix) (h : Int) (i j : Nat) : Prop :=
  2 * h < 2 * (closer D i j : Int) + (asFar D i j : Int) - 1

instance (D h i j) : Decidable (Beyond D h i j) := by unfold Beyond; infer_instance

def PosDist (n : Nat) (P : Matrix) : Prop :=
  ∀ i, i < n → ∀ j, j < n → entry P i j = if i ≤ j then ((j - i : Nat) : Int) else ((i - j : Nat) : Int)
def DiagZero (n : Nat) (F : Matrix) : Prop := ∀ i, i < n → entry F i i = 0
def BeyondZero (D : Matrix) (h : Int) (F : Matrix) : Prop :=
  ∀ i, i < D.length → ∀ j, j < D.length → i ≠ j → Beyond D h i j → entry F i j = 0
def TiesEqual (D F : Matrix) : Prop :=
  ∀ i, i < D.length → ∀ j, j < D.length → ∀ k, k < D.length →
    (i ≠ j ∧ i ≠ k ∧ entry D i j = entry D i k) → entry F i j = entry F i k
def Antitone (D F : Matrix) : Prop :=
  ∀ i, i < D.length → ∀ j, j < D.length → ∀ k, k < D.length →
    (i ≠ j ∧ i ≠ k ∧ entry D i j ≤ entry D i k) → entry F i k ≤ entry F i j
/-- bonus clauses: flows inside the horizon are positive, and a strictly nearer neighbour
inside the horizon has a strictly larger flow -/
def InsidePos (D : Matrix) (h : Int) (F : Matrix) : Prop :=
  ∀ i, i < D.length → ∀ j, j < D.length → i ≠ j → ¬ Beyond D h i j → 0 < entry F i j
def StrictAt (D : Matrix) (h : Int) (F : Matrix) (i j k : Nat) : Prop :=
  (i ≠ j ∧ i ≠ k ∧ entry D i j < entry D i k ∧ ¬ Beyond D h i j) → entry F i k < entry F i j
instance (D h F i j k) : Decidable (StrictAt D h F i j k) := by unfold StrictAt; infer_instance
def StrictInside (D : Matrix) (h : Int) (F : Matrix) : Prop :=
  ∀ i, i < D.length → ∀ j, j < D.length → ∀ k, k < D.length → StrictAt D h F i j k

instance (n P) : Decidable (PosDist n P) := by unfold PosDist; infer_instance
instance (n F) : Decidable (DiagZero n F) := by unfold DiagZero; infer_instance
instance (D h F) : Decidable (BeyondZero D h F) := by unfold BeyondZero; infer_instance
instance (D F) : Decidable (TiesEqual D F) := by unfold TiesEqual; infer_instance
instance (D F) : Decidable (Antitone D F) := by unfold Antitone; infer_instance
instance (D h F) : Decidable (InsidePos D h F) := by unfold InsidePos; infer_instance
instance (D h F) : Decidable (StrictInside D h F) := by unfold StrictInside; infer_instance

/-- name of the first violated clause, for the spec oracle (`ok` if none); the two bonus clauses
hold for integer powers only and are evaluated on request -/
def flowClauses (D : Matrix) (h : Int) (P F : Matrix) (bonus : Bool) : String :=
  if !decide (F.length = D.length ∧ ∀ r ∈ F, r.length = D.length) then "shape"
  else if !decide (PosDist D.length P) then "posdist"
  else if !decide (DiagZero D.length F) then "diag"
  else if !decide (BeyondZero D h F) then "beyond"
  else if !decide (TiesEqual D F) then "ties"
  else if !decide (Antitone D F) then "antitone"
  else if bonus && !decide (InsidePos D h F) then "insidepos"
  else if bonus && !decide (StrictInside D h F) then "strict"
  else "ok"

/-! ## `swap_distance` -/

/-- numpy/numba index with negative wrap-around: valid iff `-n ≤ j < n` -/
def wrapIdx (n : Nat) (j : Int) : Option Nat :=
  if 0 ≤ j ∧ j < (n : Int) then some j.toNat
  else if -(n : Int) ≤ j ∧ j < 0 then some (j + n).toNat
  else none

/-- `np.argsort(p)`: the indices in the order of their values (stable; for pairwise different
values — the only case compared with numpy — the result is unique) -/
def argsort (p : List Int) : List Nat :=
  (List.range p.length).mergeSort fun a b => decide (p.getD a 0 ≤ p.getD b 0)

/-- `x = p2[np.argsort(p1)]` (fancy indexing, checked) -/
def composeX (p1 p2 : List Int) : Option (List Int) := (argsort p1).mapM fun k => p2[k]?

/-- `while j != i: unchecked[j] = False; j = x[j]`.  A walk that has not come back to `i` after
`2·n` steps never will (`j` ranges over the `2n − 1` values of `[-n, n) \ {i}`), hence
`fuel = 2·n` makes `diverge` exact. -/
def walk (x : List Int) (i : Nat) : Nat → Int → List Bool → Res (List Bool)
  | fuel, j, u =>
    if j = (i : Int) then .ok u else
    match fuel with
    | 0 => .diverge
    | fuel + 1 =>
      match wrapIdx u.length j with
      | none => .oob
      | some ju =>
        match wrapIdx x.length j with
        | none => .oob
        | some jx =>
          match x[jx]? with
          | none => .oob
          | some j' => walk x i fuel j' (u.set ju false)

/-- `for i in range(n): if unchecked[i]: result += 1; unchecked[i] = False; j = x[i]; while …` -/
def cyclesLoop (x : List Int) (n : Nat) : List Nat → List Bool → Int → Res Int
  | [], _, r => .ok r
  | i :: is, u, r =>
    match u[i]? with
    | none => .oob
    | some false => cyclesLoop x n is u r
    | some true =>
      match x[i]? with
      | none => .oob
      | some j =>
        match walk x i (2 * n) j (u.set i false) with
        | .ok u' => cyclesLoop x n is u' (r + 1)
        | .err => .err
        | .oob => .oob
        | .diverge => .diverge

/-- the kernel `swap_distance(p1, p2)` -/
def swapDistance (p1 p2 : List Int) : Res Int :=
  let n := p1.length
  match composeX p1 p2 with
  | none => .oob
  | some x =>
    match cyclesLoop x n (List.range n) (List.replicate n true) 0 with
    | .ok r => .ok ((n : Int) - r)
    | .err => .err
    | .oob => .oob
    | .diverge => .diverge

/-! ### Specification: cycles and transpositions -/

def IsPerm (p : List Nat) (n : Nat) : Prop := p.Perm (List.range n)
instance (p n) : Decidable (IsPerm p n) := by unfold IsPerm; infer_instance

/-- `k`-fold application of `f` -/
def iter (f : Nat → Nat) : Nat → Nat → Nat
  | 0, a => a
  | k + 1, a => iter f k (f a)

/-- the permutation `σ` with `σ(p1[k]) = p2[k]` as a function on values (identity on values that
do not occur) -/
def sigma (p1 p2 : List Nat) (v : Nat) : Nat := if v ∈ p1 then p2.getD (p1.idxOf v) 0 else v

/-- `i ≤ f^t(a)` for `t = 0 … k-1` -/
def minOnOrbit (f : Nat → Nat) (i : Nat) : Nat → Nat → Bool
  | 0, _ => true
  | k + 1, a => decide (i ≤ a) && minOnOrbit f i k (f a)

/-- number of cycles of `f` on `{0,…,n-1}`: the elements that are the smallest of their cycle
(`i ≤ f^t(i)` for all `t < n`; see `Proofs.Order1d.minOnOrbit_iff`) -/
def numCycles (f : Nat → Nat) (n : Nat) : Nat :=
  ((List.range n).filter fun i => minOnOrbit f i n i).length

/-- exchange the entries at positions `a` and `b` -/
def swapAt (p : List Nat) (s : Nat × Nat) : List Nat :=
  (p.set s.1 (p.getD s.2 0)).set s.2 (p.getD s.1 0)

def applySwaps (p : List Nat) (ss : List (Nat × Nat)) : List Nat := ss.foldl swapAt p

/-- a transposition of two different positions of an array of length `n` -/
def IsTransp (n : Nat) (s : Nat × Nat) : Prop := s.1 < n ∧ s.2 < n ∧ s.1 ≠ s.2

end Order1d
