import Model.Pack
/-!
# C17 — model of the 2D bin-packing instance generator

Mirrors `moptipyapps/binpacking2d/instgen/`:
`instance_space.py:InstanceSpace.__init__`, `inst_decoding.py:InstanceDecoder.{get_x_dim,decode}`,
`errors.py:Errors.{__init__,evaluate}` and the pure arithmetic of `hardness.py` /
`errors_and_hardness.py`.

* The two float uses of `decode` — `int(k * selector)` and `int(cut_modulus * cutter)` — and the
  two sign tests (`selector < 0.0`, `cutter >= 0.0`) are the interface `Num X` of an abstract
  vector-entry type `X`.  All theorems quantify over an arbitrary `Num X`.  The instance used
  for correspondence is `dblNum` : exact IEEE-754 binary64 multiply (round to nearest even, 53
  bits) followed by truncation toward zero, on `(mantissa, exponent)` integer pairs.
* Every item carries, besides `[w, h]`, three *ghost* fields `bin, x, y` (its place in the
  guillotine layout).  No branch of the model reads them; they make the packing that the
  docstring of `inst_decoding.py` argues for explicit and executable.
* `none` = the Python code raises (IndexError on a too short vector, ZeroDivisionError,
  the `Instance` constructor rejecting) or the fuel of a search loop is exhausted
  (theorem `search1_some`: never, for a template-derived space).
* `numpy.random.default_rng(int.from_bytes(x.tobytes())).shuffle` is external: a parameter
  `σ : List Item → List Item` (assumed to return a permutation of its argument).
-/
namespace InstGen
open Pack

/-! ## exact binary64 `int(k * x)` -/

/-- a finite binary64 value `m · 2^e` (`-0.0` and `0.0` are both `m = 0`: the code cannot
distinguish them — `-0.0 < 0.0` is false, `-0.0 >= 0.0` is true, `int(k * -0.0) = 0`) -/
structure Dbl where
  m : Int
  e : Int
  deriving Repr, DecidableEq, Inhabited

/-- round a natural number to at most 53 significant bits, nearest, ties to even;
result `(q, s)` stands for `q · 2^s` -/
def round53 (a : Nat) : Nat × Nat :=
  let bits := if a = 0 then 0 else a.log2 + 1
  if bits ≤ 53 then (a, 0) else
    let s := bits - 53
    let q := a >>> s
    let r := a % (2 ^ s)
    let half := 2 ^ (s - 1)
    (if r > half ∨ (r = half ∧ q % 2 = 1) then q + 1 else q, s)

/-- `int(k * x)` for a Python int `|k| < 2^53` and a binary64 `x = m·2^e`: the exact product
`(k·m)·2^e` is rounded once to binary64 (a product of a non-zero integer and a double never
underflows, so 53-bit rounding is the IEEE result), then truncated toward zero. -/
def truncMul (k : Int) (d : Dbl) : Int :=
  let p := k * d.m
  let qs := round53 p.natAbs
  let ex : Int := d.e + qs.2
  let mag : Nat := if ex ≥ 0 then qs.1 * 2 ^ ex.toNat else qs.1 >>> (-ex).toNat
  if p < 0 then -(mag : Int) else mag

/-- what `decode` needs from a vector entry -/
structure Num (X : Type) where
  /-- `int(k * x)` -/
  mulTrunc : Int → X → Int
  /-- `x < 0.0` -/
  isNeg : X → Bool
  /-- `x >= 0.0` -/
  isNonneg : X → Bool

def dblNum : Num Dbl where
  mulTrunc := truncMul
  isNeg d := decide (d.m < 0)
  isNonneg d := decide (d.m ≥ 0)

/-! ## `InstanceSpace` -/

structure Space where
  name : String
  nDifferent : Int
  nItems : Int
  W : Int
  H : Int
  minBins : Int
  wMin : Int
  wMax : Int
  hMin : Int
  hMax : Int
  totalArea : Int
  deriving Repr, DecidableEq, Inhabited

/-- `check_int_range(v, _, lo, hi)` -/
def chk (v lo hi : Int) : Option Int := if lo ≤ v ∧ v ≤ hi then some v else none

/-- `min(column)` / `max(column)` of a non-empty numpy column -/
def colMin : List Int → Option Int
  | [] => none
  | a :: t => some (t.foldl min a)
def colMax : List Int → Option Int
  | [] => none
  | a :: t => some (t.foldl max a)

/-- `InstanceSpace(source)`; `lb` is `source.lower_bound_bins` (computed by the `Instance`
constructor, modelled in C03) -/
def mkSpace (name : String) (T : Inst) (lb : Int) : Option Space := do
  let nDifferent ← chk T.nTypes 1 100000
  let nItems ← chk T.nItems nDifferent 1000000000
  let W ← chk T.W 1 1000000000
  let H ← chk T.H 1 1000000000
  let minBins ← chk (min lb nItems) 1 1000000000
  let wMin ← (colMin (T.items.map (·.w))) >>= (chk · 1 W)
  let wMax ← (colMax (T.items.map (·.w))) >>= (chk · wMin W)
  let hMin ← (colMin (T.items.map (·.h))) >>= (chk · 1 H)
  let hMax ← (colMax (T.items.map (·.h))) >>= (chk · hMin H)
  let totalArea ← chk T.totalArea 1 1000000000
  pure ⟨name ++ "n", nDifferent, nItems, W, H, minBins, wMin, wMax, hMin, hMax, totalArea⟩

/-- `InstanceDecoder.get_x_dim(slack)` for an integer `slack ≥ 0`
(`int(slack * base + 0.5) = slack * base` exactly then) -/
def xDim (sp : Space) (slack : Int) : Option Int := do
  if slack < 0 then none
  let base ← chk (sp.nItems - sp.minBins) 1 1000000
  let added := slack * base
  if added < 0 ∨ added > 1000000 then none
  pure (2 * (base + added))

/-! ## `InstanceDecoder.decode` -/

/-- an item `[w, h]` of the decoder's list plus its (ghost) place `bin, x, y` -/
structure PItem where
  w : Int
  h : Int
  bin : Int
  x : Int
  y : Int
  deriving Repr, DecidableEq, Inhabited

namespace PItem
/-- `cur_item[cut_dimension]` (`d = true` is dimension 1, the height) -/
def size (p : PItem) (d : Bool) : Int := if d then p.h else p.w
/-- `cur_item[cut_dimension] = v` (the item keeps its lower-left corner) -/
def setSize (p : PItem) (d : Bool) (v : Int) : PItem := if d then { p with h := v } else { p with w := v }
/-- the copy appended by a phase-1 cut at `pos`: size `v` in dimension `d`, placed behind the cut -/
def second (p : PItem) (d : Bool) (pos v : Int) : PItem :=
  if d then { p with h := v, y := p.y + pos } else { p with w := v, x := p.x + pos }
def wh (p : PItem) : Int × Int := (p.w, p.h)
def area (p : PItem) : Int := p.w * p.h
end PItem

/-- `((t % n) + n) % n` as written in the code (Python `%` with a positive modulus is the
Euclidean remainder, like Lean's) -/
def pmod (t n : Int) : Int := ((t % n) + n) % n

/-- `[[bin_width, bin_height] for _ in range(n_bins)]`, item `j` lying in bin `j + 1` -/
def initItems (W H : Int) (k : Nat) : List PItem :=
  (List.range k).map (fun (j : Nat) => ⟨W, H, (j : Int) + 1, 0, 0⟩)

/-- the `while True:` search of phase 1 for one cut.  `n = cur_n_items`, `dir = sel_dir`,
`orig = orig_sel_i`; state `sel = sel_i`, `d = (cut_dimension == 1)`. -/
def search1 {X} (num : Num X) (cutter : X) (n dir orig : Int) :
    Nat → List PItem → Int → Bool → Option (List PItem)
  | 0, _, _, _ => none
  | fuel + 1, items, sel, d =>
    if sel < 0 then none else                      -- (never: 0 ≤ sel_i < cur_n_items)
    match items[sel.toNat]? with
    | none => none                                 -- IndexError
    | some cur =>
      let size := cur.size d
      let m := size - 1
      let pos := pmod (num.mulTrunc m cutter) m + 1
      if m > 0 ∧ (0 < pos ∧ pos < size) then
        some (items.set sel.toNat (cur.setSize d pos) ++ [cur.second d pos (size - pos)])
      else
        let sel' := pmod (sel + dir) n
        search1 num cutter n dir orig fuel items sel' (if sel' = orig then !d else d)

/-- phase 1: `for cur_n_items in range(n_bins, n_items)`; `steps` iterations are left -/
def phase1 {X} (num : Num X) : Nat → Int → List X → List PItem → Option (List PItem × List X)
  | 0, _, xs, items => some (items, xs)
  | steps + 1, cur, selector :: cutter :: xs, items =>
    let sel := pmod (num.mulTrunc cur selector) cur
    let dir : Int := if num.isNeg selector then -1 else 1
    match search1 num cutter cur dir sel (2 * cur.toNat) items sel (num.isNonneg cutter) with
    | none => none
    | some items' => phase1 num steps (cur + 1) xs items'
  | _ + 1, _, _, _ => none                         -- IndexError: vector too short

/-- the `while step < 2:` search of phase 2 for one slack cut; returns the items and the new
`current_area` -/
def search2 {X} (num : Num X) (cutter : X) (n dir orig minArea : Int) :
    Nat → List PItem → Int → Int → Bool → Nat → Option (List PItem × Int)
  | 0, _, _, _, _, _ => none
  | fuel + 1, items, area, sel, d, step =>
    if step < 2 then
      if sel < 0 then none else
      match items[sel.toNat]? with
      | none => none
      | some cur =>
        let size := cur.size d
        let other := cur.size (!d)
        if other = 0 then none else                -- ZeroDivisionError
        let m := min ((area - minArea) / other) size - 1
        let pos := pmod (num.mulTrunc m cutter) m + 1
        if m > 0 ∧ (0 < pos ∧ pos < size) then
          some (items.set sel.toNat (cur.setSize d (size - pos)), area - pos * other)
        else
          let sel' := pmod (sel + dir) n
          if sel' = orig then search2 num cutter n dir orig minArea fuel items area sel' (!d) (step + 1)
          else search2 num cutter n dir orig minArea fuel items area sel' d step
    else some (items, area)

/-- phase 2: `while (x_idx < max_x_idx) and (current_area > min_area)` -/
def phase2 {X} (num : Num X) (n minArea : Int) : List X → List PItem → Int → Option (List PItem)
  | [], items, _ => some items
  | selector :: rest, items, area =>
    if area > minArea then
      match rest with
      | [] => none                                 -- IndexError: odd number of entries
      | cutter :: xs =>
        let sel := pmod (num.mulTrunc n selector) n
        let dir : Int := if num.isNeg selector then -1 else 1
        match search2 num cutter n dir sel minArea (2 * n.toNat + 1) items area sel (num.isNonneg cutter) 0 with
        | none => none
        | some (items', area') => phase2 num n minArea xs items' area'
    else some items

/-- lexicographic `[w, h] <= [w', h']` of Python lists -/
def lexLe (a b : Int × Int) : Bool := decide (a.1 < b.1 ∨ (a.1 = b.1 ∧ a.2 ≤ b.2))

def insertSorted (a : Int × Int) : List (Int × Int) → List (Int × Int)
  | [] => [a]
  | b :: t => if lexLe a b then a :: b :: t else b :: insertSorted a t

/-- `items.sort()` (the sorted list of a list of integer pairs is unique, so the algorithm is
immaterial) -/
def sortItems : List (Int × Int) → List (Int × Int)
  | [] => []
  | a :: t => insertSorted a (sortItems t)

/-- the run-length merge loop: for the item at `lo` count the equal items directly behind it
(`hi` scan), append the multiplicity, delete them, go on behind. -/
def mergeLoop : Nat → List (Int × Int) → List Item
  | 0, _ => []
  | _ + 1, [] => []
  | fuel + 1, a :: t =>
    ⟨a.1, a.2, ((t.takeWhile (· == a)).length : Int) + 1⟩ :: mergeLoop fuel (t.dropWhile (· == a))

def mergeItems (l : List (Int × Int)) : List Item := mergeLoop l.length l

/-- `Instance(name, W, H, items)`: `none` when the constructor raises (`Inst.Valid`; the name
and the range checks of the two lower bounds are outside the model) -/
def mkInstance (W H : Int) (items : List Item) : Option Inst :=
  if Inst.Valid ⟨W, H, items⟩ then some ⟨W, H, items⟩ else none

/-- both phases: the decoder's item list just before `items.sort()` -/
def decodeItems {X} (num : Num X) (sp : Space) (x : List X) : Option (List PItem) :=
  match phase1 num (sp.nItems - sp.minBins).toNat sp.minBins x (initItems sp.W sp.H sp.minBins.toNat) with
  | none => none
  | some (items, rest) =>
    let binArea := sp.W * sp.H
    let currentArea := sp.minBins * binArea
    let minArea := currentArea - binArea + 1
    phase2 num (items.length : Int) minArea rest items currentArea

/-- everything up to the shuffle: sorted and merged -/
def decodeMerged {X} (num : Num X) (sp : Space) (x : List X) : Option (List Item) :=
  (decodeItems num sp x).map (fun items => mergeItems (sortItems (items.map PItem.wh)))

/-- `InstanceDecoder.decode(x, y)`'s new instance -/
def decode {X} (num : Num X) (σ : List Item → List Item) (sp : Space) (x : List X) : Option Inst :=
  (decodeMerged num sp x) >>= (fun m => mkInstance sp.W sp.H (σ m))

/-- the receiver list after `decode(x, y)`: `y[0] = res` or `y.append(res)` -/
def storeResult (y : List Inst) (res : Inst) : List Inst :=
  match y with
  | [] => [res]
  | _ :: t => res :: t

/-! ## the packing of the generated instance (ghost layout → `Pack.Row`s) -/

/-- index of the item type with the given dimensions -/
def typeIdx (I : Inst) (wh : Int × Int) : Nat := I.items.findIdx (fun it => it.w = wh.1 ∧ it.h = wh.2)

/-- one row per decoder item: the id of its type in `I`, its bin and rectangle -/
def layoutRows (I : Inst) (items : List PItem) : List Row :=
  items.map (fun p => ⟨(typeIdx I p.wh : Int) + 1, p.bin, p.x, p.y, p.x + p.w, p.y + p.h⟩)

/-! ## specification vocabulary -/

/-- what every template-derived space satisfies (theorem `mkSpace_ok`): the range checks of
`InstanceSpace.__init__` and `n_items ≤ min_bins · W · H` (every item covers at least one cell
and the lower bound is at least the geometric bound) -/
structure SpaceOk (sp : Space) : Prop where
  W1 : 1 ≤ sp.W
  Wle : sp.W ≤ 1000000000
  H1 : 1 ≤ sp.H
  Hle : sp.H ≤ 1000000000
  k1 : 1 ≤ sp.minBins
  kn : sp.minBins ≤ sp.nItems
  nA : sp.nItems ≤ sp.minBins * (sp.W * sp.H)

/-- the item lies inside a `W × H` bin numbered `1..k` and has positive width and height -/
def PItem.Inside (W H k : Int) (p : PItem) : Prop :=
  1 ≤ p.w ∧ 1 ≤ p.h ∧ 0 ≤ p.x ∧ 0 ≤ p.y ∧ p.x + p.w ≤ W ∧ p.y + p.h ≤ H ∧ 1 ≤ p.bin ∧ p.bin ≤ k

/-- two placed items of the same bin do not overlap -/
def PItem.Apart (a c : PItem) : Prop :=
  a.bin = c.bin → (a.x + a.w ≤ c.x ∨ c.x + c.w ≤ a.x ∨ a.y + a.h ≤ c.y ∨ c.y + c.h ≤ a.y)

/-- the placed items form a packing into the bins `1..k` (all of them used) -/
structure Layout (W H k : Int) (items : List PItem) : Prop where
  inside : ∀ p ∈ items, p.Inside W H k
  apart : items.Pairwise PItem.Apart
  bins : ∀ j : Nat, (j : Int) < k → ∃ p ∈ items, p.bin = (j : Int) + 1

/-- total area of the decoder's item list -/
def areaSum (items : List PItem) : Int := (items.map PItem.area).sum

/-- the multiset an item-type list stands for -/
def expand (L : List Item) : List (Int × Int) :=
  L.flatMap (fun it => List.replicate it.rep.toNat (it.w, it.h))

/-! ## specification (property text) -/

/-- the items' total area still requires `k` bins: more than `k - 1` bins' worth, at most `k` -/
def NeedsBins (I : Inst) (k : Int) : Prop :=
  (k - 1) * (I.W * I.H) < I.totalArea ∧ I.totalArea ≤ k * (I.W * I.H)
instance (I : Inst) (k : Int) : Decidable (NeedsBins I k) := by unfold NeedsBins; infer_instance

/-- the geometric lower bound `ceil(total_item_area / bin_area)` as the `Instance`
constructor computes it -/
def geoBound (I : Inst) : Int :=
  let b := I.W * I.H
  let g := I.totalArea / b
  if g * b < I.totalArea then g + 1 else g

/-- "can be packed into exactly `k` bins" -/
def Packable (I : Inst) (k : Int) : Prop := ∃ rows, Feasible I rows k

/-- what the property promises for a generated instance `I` of a space `sp` -/
def GoodFor (sp : Space) (I : Inst) : Prop :=
  I.Valid ∧ I.W = sp.W ∧ I.H = sp.H ∧ I.nItems = sp.nItems ∧
  Packable I sp.minBins ∧ NeedsBins I sp.minBins ∧ geoBound I = sp.minBins

/-- the decidable part of `GoodFor` plus a packing witness, for the spec oracle -/
def goodWith (sp : Space) (I : Inst) (rows : List Row) : Bool :=
  decide I.Valid && decide (I.W = sp.W) && decide (I.H = sp.H) && decide (I.nItems = sp.nItems) &&
  feasibleB I rows sp.minBins && decide (NeedsBins I sp.minBins) && decide (geoBound I = sp.minBins)

/-! ## `Errors` -/

/-- `Errors.__init__`: `max_errors`; `none` = "Invalid item area in space?" -/
def maxErrors (sp : Space) : Option Int :=
  let m0 := max (sp.nDifferent - 1) (sp.nItems - sp.nDifferent - 1)
  let m1 := m0 + sp.nItems * max (sp.wMin - 1) (sp.W - sp.wMax)
  let m2 := m1 + sp.nItems * max (sp.hMin - 1) (sp.H - sp.hMax)
  let m3 := m2 + max sp.wMin (sp.W - sp.wMin)
  let m4 := m3 + max sp.wMax (sp.W - sp.wMax)
  let m5 := m4 + max sp.hMin (sp.H - sp.hMin)
  let m6 := m5 + max sp.hMax (sp.H - sp.hMax)
  let alt := sp.minBins * sp.W * sp.H - sp.totalArea
  if alt < 0 then none else some (m6 + max sp.totalArea alt)

/-- loop state of `Errors.evaluate`: errors, actual min/max width, min/max height, area -/
structure ErrAcc where
  errors : Int
  wMin : Int
  wMax : Int
  hMin : Int
  hMax : Int
  area : Int

def errRow (sp : Space) (a : ErrAcc) (it : Item) : ErrAcc :=
  let e1 := if it.w < sp.wMin then it.rep * (sp.wMin - it.w)
            else if it.w > sp.wMax then it.rep * (it.w - sp.wMax) else 0
  let e2 := if it.h < sp.hMin then it.rep * (sp.hMin - it.h)
            else if it.h > sp.hMax then it.rep * (it.h - sp.hMax) else 0
  ⟨a.errors + e1 + e2, min a.wMin it.w, max a.wMax it.w, min a.hMin it.h, max a.hMax it.h,
   a.area + it.rep * it.w * it.h⟩

def iabs (v : Int) : Int := if v < 0 then -v else v

/-- the integer error count of `Errors.evaluate`; `none` = raises -/
def errorsCount (sp : Space) (I : Inst) : Option Int :=
  let e0 := iabs (I.W - sp.W) + iabs (I.H - sp.H) + iabs (I.nItems - sp.nItems)
  if e0 > 0 then none else
  let a0 : ErrAcc := ⟨e0 + iabs ((I.nTypes : Int) - sp.nDifferent), sp.W, 0, sp.H, 0, 0⟩
  let a := I.items.foldl (errRow sp) a0
  if a.area ≠ I.totalArea then none else
  some (a.errors + iabs (a.wMin - sp.wMin) + iabs (a.wMax - sp.wMax) + iabs (a.hMin - sp.hMin)
    + iabs (a.hMax - sp.hMax) + iabs (a.area - sp.totalArea))

/-- `max(0.0, min(1.0, v))` read over the rationals -/
def clamp01 (v : Rat) : Rat :=
  let u := if v < 1 then v else 1
  if u > 0 then u else 0

/-- `Errors.evaluate` as an exact rational (the code returns the correctly rounded binary64
quotient of the same two integers, clamped) -/
def errorsValue (sp : Space) (I : Inst) : Option Rat := do
  let m ← maxErrors sp
  let e ← errorsCount sp I
  pure (clamp01 ((e : Rat) / (m : Rat)))

/-! ## `Hardness` / `ErrorsAndHardness`: the arithmetic around the (external) optimisation runs -/

/-- one run's contribution; `none` = one of the range checks raises.
`q` = best objective value, `[lb, ub]` its bounds, `fe` = last improvement FE. -/
def hardnessRun (lb ub q : Rat) (maxFes fe : Int) : Option Rat :=
  if ¬ (lb < ub) then none else
  if ¬ (lb ≤ q ∧ q ≤ ub) then none else
  let quality := (ub - q) / (ub - lb)
  if ¬ (0 ≤ quality ∧ quality ≤ 1) then none else
  if ¬ (0 < fe ∧ fe ≤ maxFes) then none else
  let runtime := ((maxFes - fe : Int) : Rat) / ((maxFes - 1 : Int) : Rat)
  if ¬ (0 ≤ runtime ∧ runtime ≤ 1) then none else
  some (clamp01 ((quality * 1000 + runtime) / 1001))

/-- `max(0.0, min(1.0, result / runs))` -/
def hardnessValue (contribs : List Rat) : Rat := clamp01 (contribs.sum / (contribs.length : Rat))

/-- `ErrorsAndHardness.evaluate` -/
def errorsAndHardness (hard err : Rat) : Rat := clamp01 ((hard * 1000 + err) / 1001)

end InstGen
