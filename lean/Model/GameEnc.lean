/-!
C15 — model of `moptipyapps/ttp/game_encoding.py`:

* `search_space_for_n_and_rounds(n, rounds)`: the triple loop that builds the blueprint of games
  (with its `order` toggle state and the `normal` flag), the integer encoding of a game, the
  final `games.sort()` and the acceptance conditions of `check_int_range` and of the moptipy
  `Permutations` constructor (an *external* class: only "non-empty and at least two different
  values" is modelled);
* the numba kernel `map_games(x, y)` at the array level: `y.fill(0)`, Python floor division and
  modulo (with their `ZeroDivisionError`), checked array accesses (`Err.oob`), the prior content
  of the destination plan is an explicit input.  `GameEncoding.decode` *is* `map_games`.

and the specification in the vocabulary of the property / the module docstring: a game code
denotes `(home, away)`; a *schedule* is the list of placed games `(day, home, away)`; every game
of the permutation is, in order, put on the least day on which both teams are still free, or
dropped; the plan is the rendering of that schedule.

Core Lean only (the driver links this file).
-/
namespace GameEnc

/-! ## 1. `search_space_for_n_and_rounds` -/

/-- the mutable state of the triple loop: the `order` flag and the list `games` -/
structure SState where
  order : Bool
  games : Array Int

/-- body of the innermost loop for the pair `(i, j)`, `j < i`, in round `r` -/
def gameStep (n r : Nat) (normal : Bool) (i j : Nat) (s : SState) : SState :=
  let order : Bool := if normal then r % 2 == 0 else !s.order
  let m1 : Nat := if order then i else j      -- home city
  let m2 : Nat := if order then j else i      -- away city
  let m2 : Nat := if m2 > m1 then m2 - 1 else m2
  { order := order, games := s.games.push ((m1 : Int) * ((n : Int) - 1) + (m2 : Int)) }

/-- `for j in range(i)` -/
def rowLoop (n r : Nat) (normal : Bool) (i : Nat) (s : SState) : SState :=
  (List.range i).foldl (fun s j => gameStep n r normal i j s) s

/-- the body of `for r in range(rounds)`: computes `normal`, then `for i in range(n)` -/
def roundLoop (n rounds r : Nat) (s : SState) : SState :=
  let normal : Bool := decide ((r : Int) < (rounds : Int) - 1) || rounds % 2 == 0
  (List.range n).foldl (fun s i => rowLoop n r normal i s) s

/-- the list `games` before sorting -/
def rawGames (n rounds : Nat) : List Int :=
  ((List.range rounds).foldl (fun s r => roundLoop n rounds r s)
    { order := false, games := #[] }).games.toList

/-- `games.sort()` -/
def sortInts (l : List Int) : List Int := l.mergeSort (fun a b => decide (a ≤ b))

/-- `search_space_for_n_and_rounds(n, rounds).blueprint`; `none` = `ValueError`:
`check_int_range(n, "n", 2, 100000)` (the second call checks `n` again, *not* `rounds`), and
`Permutations.__init__` rejects an empty base string and one with fewer than two different
values. -/
def searchSpace? (n rounds : Nat) : Option (List Int) :=
  if n < 2 ∨ 100000 < n then none else
  match sortInts (rawGames n rounds) with
  | [] => none
  | a :: rest => if rest.all (· == a) then none else some (a :: rest)

/-! ### what a game code denotes (module docstring) -/

/-- `home_idx = (game // (n - 1)) % n` -/
def homeOf (n : Nat) (g : Int) : Nat := ((g / ((n : Int) - 1)) % (n : Int)).toNat

/-- `away_idx = game % (n - 1)`, and one more if that is `≥ home_idx` (the diagonal is skipped) -/
def awayOf (n : Nat) (g : Int) : Nat :=
  let a := (g % ((n : Int) - 1)).toNat
  if a ≥ homeOf n g then a + 1 else a

/-- `g` is the game "`h` at home against `a`" -/
def IsGame (n : Nat) (h a : Nat) (g : Int) : Bool := homeOf n g == h && awayOf n g == a

/-- `g` is a game between `a` and `b`, whoever is at home -/
def IsPairing (n : Nat) (a b : Nat) (g : Int) : Bool := IsGame n a b g || IsGame n b a g

/-! ### specification of the blueprint -/

/-- every entry is a game code in `0 .. n(n-1)-1` -/
def CodesValid (n : Nat) (bp : List Int) : Prop := ∀ g ∈ bp, 0 ≤ g ∧ g < (n : Int) * ((n : Int) - 1)

/-- every unordered pairing occurs exactly `rounds` times -/
def PairsSpec (n rounds : Nat) (bp : List Int) : Prop :=
  ∀ a < n, ∀ b < a, bp.countP (IsPairing n a b) = rounds

/-- home/away counts of every pairing differ by at most one -/
def PairBalance (n : Nat) (bp : List Int) : Prop :=
  ∀ a < n, ∀ b < a, bp.countP (IsGame n a b) ≤ bp.countP (IsGame n b a) + 1 ∧
    bp.countP (IsGame n b a) ≤ bp.countP (IsGame n a b) + 1

/-- number of home games of team `t` -/
def homeCount (n : Nat) (bp : List Int) (t : Nat) : Nat := bp.countP (fun g => homeOf n g == t)
/-- number of away games of team `t` -/
def awayCount (n : Nat) (bp : List Int) (t : Nat) : Nat := bp.countP (fun g => awayOf n g == t)

/-- home/away counts of every team differ by at most one -/
def TeamBalance (n : Nat) (bp : List Int) : Prop :=
  ∀ t < n, homeCount n bp t ≤ awayCount n bp t + 1 ∧ awayCount n bp t ≤ homeCount n bp t + 1

/-- the docstring's fairness rule: if `k` is the highest number of home games of any team, no team
has fewer than `k - 1` -/
def HomeSpread (n : Nat) (bp : List Int) : Prop :=
  ∀ t < n, ∀ u < n, homeCount n bp t ≤ homeCount n bp u + 1

instance (n : Nat) (bp : List Int) : Decidable (CodesValid n bp) := by unfold CodesValid; infer_instance
instance (n r : Nat) (bp : List Int) : Decidable (PairsSpec n r bp) := by unfold PairsSpec; infer_instance
instance (n : Nat) (bp : List Int) : Decidable (PairBalance n bp) := by unfold PairBalance; infer_instance
instance (n : Nat) (bp : List Int) : Decidable (TeamBalance n bp) := by unfold TeamBalance; infer_instance
instance (n : Nat) (bp : List Int) : Decidable (HomeSpread n bp) := by unfold HomeSpread; infer_instance

/-! ## 2. `map_games` -/

inductive Err where
  | oob    -- an array access outside `[0, len)`
  | zdiv   -- `ZeroDivisionError` of `//` or `%`
  deriving DecidableEq, Repr

/-- a `days × n` matrix, row-major -/
abbrev Plan := List (List Int)

/-- Python `a // b` -/
def floorDiv (a b : Int) : Except Err Int := if b = 0 then .error .zdiv else .ok (a.fdiv b)
/-- Python `a % b` -/
def pyMod (a b : Int) : Except Err Int := if b = 0 then .error .zdiv else .ok (a.fmod b)

/-- checked read `y[d, t]` (a negative column index is reported as out of bounds: the code never
relies on wrap-around) -/
def get (y : Plan) (d : Nat) (t : Int) : Except Err Int :=
  if t < 0 then .error .oob else
  match y[d]? with
  | none => .error .oob
  | some row =>
    match row[t.toNat]? with
    | none => .error .oob
    | some v => .ok v

/-- checked write `y[d, t] = v` -/
def set (y : Plan) (d : Nat) (t : Int) (v : Int) : Except Err Plan :=
  if t < 0 then .error .oob else
  match y[d]? with
  | none => .error .oob
  | some row => if t.toNat < row.length then .ok (y.set d (row.set t.toNat v)) else .error .oob

/-- `for day in range(days)`, currently at `day` with `k` days left -/
def placeGame (h a : Int) : (k : Nat) → (day : Nat) → Plan → Except Err Plan
  | 0, _, y => .ok y                                    -- no free day: the game is ignored
  | k + 1, day, y => do
    let vh ← get y day h
    if vh ≠ 0 then placeGame h a k (day + 1) y else     -- `or` short-circuits
    let va ← get y day a
    if va ≠ 0 then placeGame h a k (day + 1) y else
    let y ← set y day h (a + 1)
    set y day a (-(h + 1))                              -- `break`

/-- `for game in x` -/
def gameLoop (days : Nat) (n : Int) : List Int → Plan → Except Err Plan
  | [], y => .ok y
  | game :: xs, y => do
    let div := n - 1
    let q ← floorDiv game div
    let h ← pyMod q n
    let a ← pyMod game div
    let a := if a ≥ h then a + 1 else a
    let y ← placeGame h a days 0 y
    gameLoop days n xs y

/-- `y.fill(0)` -/
def fill0 (y : Plan) : Plan := y.map (fun row => row.map (fun _ => 0))

/-- `map_games(x, y)` where `y` has shape `(days, n)` and prior content `y0` -/
def mapGames (x : List Int) (days n : Nat) (y0 : Plan) : Except Err Plan :=
  gameLoop days (n : Int) x (fill0 y0)

/-- `y0` is a `days × n` array -/
def Shape (y : Plan) (days n : Nat) : Prop := y.length = days ∧ ∀ row ∈ y, row.length = n

instance (y : Plan) (days n : Nat) : Decidable (Shape y days n) := by unfold Shape; infer_instance

/-! ### specification: earliest-slot schedules -/

/-- a placed game -/
structure Slot where
  day : Nat
  home : Nat
  away : Nat
  deriving DecidableEq, Repr

/-- team `t` takes part in the game -/
def Slot.has (s : Slot) (t : Nat) : Bool := s.home == t || s.away == t

/-- the days on which team `t` already plays -/
def daysOf (S : List Slot) (t : Nat) : List Nat := (S.filter (·.has t)).map (·.day)

/-- team `t` is still free on day `d` -/
def free (S : List Slot) (d t : Nat) : Bool := !(daysOf S t).contains d

/-- the least `d < days` with `p d`, if there is one -/
def leastDay (p : Nat → Bool) : Nat → Option Nat
  | 0 => none
  | k + 1 =>
    match leastDay p k with
    | some d => some d
    | none => if p k then some k else none

/-- process one game: put it on the least day on which both teams are free, or drop it -/
def scheduleStep (n days : Nat) (S : List Slot) (g : Int) : List Slot :=
  let h := homeOf n g
  let a := awayOf n g
  let bh := daysOf S h
  let ba := daysOf S a
  match leastDay (fun d => !bh.contains d && !ba.contains d) days with
  | some d => S ++ [{ day := d, home := h, away := a }]
  | none => S

/-- the earliest-slot schedule of the permutation `x` (executable form) -/
def schedule (n days : Nat) (x : List Int) : List Slot := x.foldl (scheduleStep n days) []

/-- **the documented decoding rule** as a relation: the games of `x` are processed from beginning
to end; each one is placed on the earliest day on which both teams have no game yet; if there is
no such day it is not placed at all. -/
inductive EarliestSlot (n days : Nat) : List Int → List Slot → Prop where
  | nil : EarliestSlot n days [] []
  | placed {x : List Int} {S : List Slot} (g : Int) (d : Nat) :
      EarliestSlot n days x S → d < days →
      free S d (homeOf n g) = true → free S d (awayOf n g) = true →
      (∀ d' < d, free S d' (homeOf n g) = false ∨ free S d' (awayOf n g) = false) →
      EarliestSlot n days (x ++ [g]) (S ++ [{ day := d, home := homeOf n g, away := awayOf n g }])
  | dropped {x : List Int} {S : List Slot} (g : Int) :
      EarliestSlot n days x S →
      (∀ d < days, free S d (homeOf n g) = false ∨ free S d (awayOf n g) = false) →
      EarliestSlot n days (x ++ [g]) S

/-- what the game plan says for team `t` on day `d` (game_plan.py): `opponent + 1` at home,
`-(opponent + 1)` away, `0` for no game -/
def cellOf (S : List Slot) (d t : Nat) : Int :=
  match S.find? (fun s => s.day == d && s.has t) with
  | some s => if s.home = t then (s.away : Int) + 1 else -((s.home : Int) + 1)
  | none => 0

/-- the game plan of a schedule -/
def render (S : List Slot) (days n : Nat) : Plan :=
  (List.range days).map fun d => (List.range n).map fun t => cellOf S d t

/-- total read used in specifications (0 outside the plan; all uses are guarded by bounds) -/
def entry (y : Plan) (d t : Nat) : Int := (y.getD d []).getD t 0

/-- `y` is the plan of schedule `S` -/
def Renders (y : Plan) (S : List Slot) (days n : Nat) : Prop :=
  Shape y days n ∧ ∀ d < days, ∀ t < n, entry y d t = cellOf S d t

/-- mutual consistency (game_plan.py): `y[d][h] = a+1` exactly when `y[d][a] = -(h+1)` -/
def Consistent (y : Plan) (days n : Nat) : Prop :=
  ∀ d < days, ∀ h < n, ∀ a < n, entry y d h = (a : Int) + 1 ↔ entry y d a = -((h : Int) + 1)

/-- no team plays itself -/
def NoSelfPlay (y : Plan) (days n : Nat) : Prop :=
  ∀ d < days, ∀ t < n, entry y d t ≠ (t : Int) + 1 ∧ entry y d t ≠ -((t : Int) + 1)

/-- all entries are `0` or `±` a team number -/
def InRange (y : Plan) (days n : Nat) : Prop :=
  ∀ d < days, ∀ t < n, -(n : Int) ≤ entry y d t ∧ entry y d t ≤ (n : Int)

/-- `v` names team `t` as the opponent -/
def refs (v : Int) (t : Nat) : Bool := v == (t : Int) + 1 || v == -((t : Int) + 1)

/-- no team plays twice on one day: on every day at most one team lists `t` as its opponent -/
def OncePerDay (y : Plan) (days n : Nat) : Prop :=
  ∀ d < days, ∀ t < n, ∀ u < n, ∀ v < n,
    (refs (entry y d u) t && refs (entry y d v) t) = true → u = v

/-- number of days on which `h` plays at home against `a` -/
def timesScheduled (y : Plan) (days : Nat) (h a : Nat) : Nat :=
  (List.range days).countP (fun d => entry y d h == (a : Int) + 1)

/-- a game is never scheduled more often than the permutation contains it -/
def NotMoreOften (n days : Nat) (x : List Int) (y : Plan) : Prop :=
  ∀ h < n, ∀ a < n, timesScheduled y days h a ≤ x.countP (IsGame n h a)

instance (y : Plan) (days n : Nat) : Decidable (Consistent y days n) := by unfold Consistent; infer_instance
instance (y : Plan) (days n : Nat) : Decidable (NoSelfPlay y days n) := by unfold NoSelfPlay; infer_instance
instance (y : Plan) (days n : Nat) : Decidable (InRange y days n) := by unfold InRange; infer_instance
instance (y : Plan) (days n : Nat) : Decidable (OncePerDay y days n) := by unfold OncePerDay; infer_instance
instance (n days : Nat) (x : List Int) (y : Plan) : Decidable (NotMoreOften n days x y) := by
  unfold NotMoreOften; infer_instance

end GameEnc
