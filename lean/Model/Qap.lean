import Model.Base
/-!
C09 — model of `moptipyapps/qap/objective.py:_evaluate`, of
`moptipyapps/qap/instance.py:trivial_bounds`, of the constructor `Instance.__init__`
(bounds, optional given bounds, storage type, `astype`) and of the QAPLIB loader
`Instance.from_qaplib_stream` (tokenisation, `int(...)`, the line state machine).

Conventions: values are unbounded `Int`; machine arithmetic is *visible*: the `uint64`
scratch arrays of `trivial_bounds`, the `int64` accumulator of `_evaluate` and the `astype`
conversion of the constructor go through `Base.DType.wrap`.  Every array access goes through
a checked accessor (`none` = access outside the array = `OOB`).

Core Lean only (no Mathlib).
-/
namespace Qap
open Base

abbrev Matrix := List (List Int)

/-! ### array accessors -/

/-- checked `m[i, j]` for non-negative indices (the loop counters of `enumerate`) -/
def entry? (m : Matrix) (i j : Nat) : Option Int := (m[i]?).bind (·[j]?)

/-- total version used in specifications (`0` outside the matrix) -/
def entry (m : Matrix) (i j : Nat) : Int := (m.getD i []).getD j 0

/-- an index *value* read from the permutation array: numpy/numba wrap a negative index once
(`v + len`); anything still outside `[0, len)` is an access outside the array -/
def idx? (len : Nat) (v : Int) : Option Nat :=
  if v < 0 then (if 0 ≤ v + len then some (v + len).toNat else none)
  else if v < len then some v.toNat else none

/-- checked `m[r, c]` where `r`, `c` are values of the permutation array -/
def at2? (m : Matrix) (r c : Int) : Option Int :=
  (idx? m.length r).bind fun i => (m[i]?).bind fun row => (idx? row.length c).bind fun j => row[j]?

def Square (m : Matrix) (n : Nat) : Prop := m.length = n ∧ ∀ r ∈ m, r.length = n
def NonNeg (m : Matrix) : Prop := ∀ r ∈ m, ∀ v ∈ r, 0 ≤ v
/-- non-negative values that a numpy `int64`/`uint64` input array can hold -/
def RepU64 (m : Matrix) : Prop := ∀ r ∈ m, ∀ v ∈ r, 0 ≤ v ∧ v < 2 ^ 64
def IsPerm (p : List Nat) (n : Nat) : Prop := p.Perm (List.range n)

instance (p : List Nat) (n : Nat) : Decidable (IsPerm p n) := by unfold IsPerm; infer_instance
instance (m : Matrix) (n : Nat) : Decidable (Square m n) := by unfold Square; infer_instance
instance (m : Matrix) : Decidable (NonNeg m) := by unfold NonNeg; infer_instance

/-! ### `_evaluate`

```
result: int = 0
for i, xi in enumerate(x):
    for j, xj in enumerate(x):
        result += flows[i, j] * distances[xi, xj]
return int(result)
```
numba (0.60) types `result` as `int64` for every storage type (signed *and* unsigned: an
`int64 += uint64` stays `int64`); products of two `intN`/`uintN` values are computed in
`int64`/`uint64`.  Both wrap modulo `2^64`, so `result` after each step is
`int64.wrap (result + a*b)` whichever of the two the product used. -/

def i64 (v : Int) : Int := DType.int64.wrap v

/-- inner loop: `xs` = the not yet visited part of `x`, `j` = its position, `acc` = `result` -/
def innerLoop? (f d : Matrix) (i : Nat) (xi : Int) : List Int → Nat → Int → Option Int
  | [], _, acc => some acc
  | xj :: rest, j, acc =>
    match entry? f i j with
    | none => none
    | some a =>
      match at2? d xi xj with
      | none => none
      | some b => innerLoop? f d i xi rest (j + 1) (i64 (acc + a * b))

/-- outer loop over `enumerate(x)`; the inner loop always runs over the whole of `x` -/
def outerLoop? (f d : Matrix) (x : List Int) : List Int → Nat → Int → Option Int
  | [], _, acc => some acc
  | xi :: rest, i, acc =>
    match innerLoop? f d i xi x 0 acc with
    | none => none
    | some acc' => outerLoop? f d x rest (i + 1) acc'

/-- `_evaluate(x, distances, flows)`; `none` = an access outside an array -/
def qapEval? (f d : Matrix) (x : List Int) : Option Int := outerLoop? f d x x 0 0

/-- a permutation (natural numbers) as the integer array handed to the kernel -/
def asInts (p : List Nat) : List Int := p.map Int.ofNat

/-- the same two loops over unbounded integers and total accessors (for the theorems) -/
def innerLoop (f d : Matrix) (i xi : Nat) : List Nat → Nat → Int → Int
  | [], _, acc => acc
  | xj :: rest, j, acc => innerLoop f d i xi rest (j + 1) (acc + entry f i j * entry d xi xj)

def outerLoop (f d : Matrix) (p : List Nat) : List Nat → Nat → Int → Int
  | [], _, acc => acc
  | xi :: rest, i, acc => outerLoop f d p rest (i + 1) (innerLoop f d i xi p 0 acc)

def qapEval (f d : Matrix) (p : List Nat) : Int := outerLoop f d p p 0 0

/-- the products in the order in which the kernel adds them -/
def qapTerms (f d : Matrix) (p : List Nat) : List Int :=
  (List.range p.length).flatMap fun i => (List.range p.length).map fun j =>
    entry f i j * entry d (p.getD i 0) (p.getD j 0)

/-! ### Specification: the documented double sum
`sum( F[i,j] * D[p[i], p[j]] for i, j in 0..n-1 )` -/

def sumTo (n : Nat) (g : Nat → Int) : Int := ((List.range n).map g).sum

def qapSpec (f d : Matrix) (p : List Nat) : Int :=
  sumTo p.length fun i => sumTo p.length fun j => entry f i j * entry d (p.getD i 0) (p.getD j 0)

/-! ### `trivial_bounds`

```
n = len(distances); n *= n
df_ub = np.empty(n, uint64); df_ub[:] = distances.flatten(); df_ub.sort()
df_lb = np.empty(n, uint64); df_lb[:] = df_ub[::-1]
ff = np.empty(n, uint64);    ff[:] = flows.flatten();        ff.sort()
return int(np.multiply(df_lb, ff, df_lb).sum()), int(np.multiply(df_ub, ff, df_ub).sum())
```
Everything lives in `uint64`: the copies, the products and the sum wrap modulo `2^64`
(the summation order of `ndarray.sum` is irrelevant modulo `2^64`; the model wraps the
products and the total). -/

def u64 (v : Int) : Int := DType.uint64.wrap v

/-- ascending sort (the result of sorting integers does not depend on the algorithm) -/
def sortAsc (l : List Int) : List Int := l.mergeSort (fun a b => decide (a ≤ b))

def dotW (a b : List Int) : Int := u64 ((List.zipWith (fun x y => u64 (x * y)) a b).sum)

def trivialBounds (d f : Matrix) : Int × Int :=
  let dfUb := sortAsc (d.flatten.map u64)
  let dfLb := dfUb.reverse
  let ff := sortAsc (f.flatten.map u64)
  (dotW dfLb ff, dotW dfUb ff)

/-- the bounds the documentation describes, over unbounded integers: largest flow times
smallest distance, … (lower) and largest flow times largest distance, … (upper) -/
def dot (a b : List Int) : Int := (List.zipWith (· * ·) a b).sum

def lowerZ (d f : Matrix) : Int := dot (sortAsc d.flatten).reverse (sortAsc f.flatten)
def upperZ (d f : Matrix) : Int := dot (sortAsc d.flatten) (sortAsc f.flatten)

/-! ### `Instance.__init__` -/

structure Inst where
  n : Nat
  lb : Int
  ub : Int
  dtype : DType
  dists : Matrix
  flows : Matrix
  deriving Repr, DecidableEq

def LIMIT : Int := 1000000000000000

/-- `int(m.max(initial=0))` -/
def maxEntry (m : Matrix) : Int := m.flatten.foldl max 0

/-- `check_int_range(v, …, 0, 10^15)` of an optional bound; outer `none` = raises -/
def checkBound : Option Int → Option (Option Int)
  | none => some none
  | some g => if g < 0 ∨ g > LIMIT then none else some (some g)

/-- `lb = max(lb, given)` / `ub = min(ub, given)` when a bound is given -/
def pickLb (t : Int) : Option Int → Int
  | none => t
  | some g => max t g
def pickUb (t : Int) : Option Int → Int
  | none => t
  | some g => min t g

/-- `Instance(distances, flows, lower_bound, upper_bound)`; `none` = the constructor raises.
The matrices are 2-d integer numpy arrays in the code; here a list of rows, the shape checks
(`distances` square, `flows` of the same shape) are part of the model. -/
def mkQap (d f : Matrix) (lbG ubG : Option Int) : Option Inst :=
  let n := d.length
  if !(d.all (·.length == n)) then none else
  if !(f.length == n && f.all (·.length == n)) then none else
  let tb := trivialBounds d f
  match checkBound lbG with
  | none => none
  | some lg =>
    let lb := pickLb tb.1 lg
    match checkBound ubG with
    | none => none
    | some ug =>
      let ub := pickUb tb.2 ug
      if lb > ub then none else
      match dtypeFor 0 (max ub (max (maxEntry d) (maxEntry f))) with
      | none => none
      | some t =>
        some { n := n, lb := lb, ub := ub, dtype := t,
               dists := d.map (·.map t.wrap), flows := f.map (·.map t.wrap) }

/-! ### `from_qaplib_stream`: tokens -/

abbrev Line := List Char

/-- ASCII characters for which Python's `str.isspace()` holds (what `strip()`/`split()` cut at) -/
def isWs (c : Char) : Bool :=
  c == ' ' || c == '\t' || c == '\n' || c == '\r' || c == '\x0b' || c == '\x0c' ||
  c == '\x1c' || c == '\x1d' || c == '\x1e' || c == '\x1f'

/-- `cur` = the characters of the token being read, reversed -/
def tokAux : List Char → List Char → List (List Char)
  | [], cur => if cur.isEmpty then [] else [cur.reverse]
  | c :: cs, cur =>
    if isWs c then (if cur.isEmpty then tokAux cs [] else cur.reverse :: tokAux cs [])
    else tokAux cs (c :: cur)

/-- `line.strip().split()` (= `line.split()`) -/
def tokens (l : Line) : List (List Char) := tokAux l []

/-- decimal digits with single underscores *between* digits (`int("1_000") == 1000`);
`prev` = the previous character was a digit -/
def parseDigits : List Char → Nat → Bool → Option Nat
  | [], acc, prev => if prev then some acc else none
  | c :: cs, acc, prev =>
    if c == '_' then (if prev then parseDigits cs acc false else none)
    else if '0' ≤ c ∧ c ≤ '9' then parseDigits cs (10 * acc + (c.toNat - 48)) true
    else none

/-- Python `int(tok)` for a blank-free ASCII string; `none` = `ValueError` -/
def parseInt : List Char → Option Int
  | '-' :: r => (parseDigits r 0 false).map fun v => -(v : Int)
  | '+' :: r => (parseDigits r 0 false).map fun v => (v : Int)
  | r => (parseDigits r 0 false).map fun v => (v : Int)

/-- `check_to_int_range(tok, …, lo, hi)` -/
def toIntRange (lo hi : Int) (t : List Char) : Option Int :=
  match parseInt t with
  | none => none
  | some v => if lo ≤ v ∧ v ≤ hi then some v else none

/-- `_flow_or_dist_to_int` -/
def flowOrDist (t : List Char) : Option Int := toIntRange 0 LIMIT t

/-- `list(map(_flow_or_dist_to_int, line.split()))`; `none` = one of the conversions raised -/
def rowOf (l : Line) : Option (List Int) := (tokens l).mapM flowOrDist

/-! ### `from_qaplib_stream`: the line state machine

```
for oline in stream:
    line = oline.strip()
    if len(line) <= 0: continue
    if state == 0: n = check_to_int_range(line, "n", 1, 1_000_000); n2 = n * n; state = 1
    else:
        row = map(_flow_or_dist_to_int, line.split())      # a ONE-SHOT iterator
        if state == 1:
            flows.extend(row)                              # consumes the whole line
            if len(flows) >= n2: state = 2; continue
        dists.extend(row)                                  # state 1: `row` is exhausted, adds nothing
        if len(dists) >= n2: state = 3; break
```
The state only moves forward, so the loop is three structurally recursive functions.  A loop
result is `(state, flows, dists)`. -/

abbrev LoopRes := Nat × List Int × List Int

/-- the loop while `state == 2` -/
def run2 (n2 : Nat) (flows : List Int) : List Int → List Line → Option LoopRes
  | dists, [] => some (2, flows, dists)
  | dists, l :: ls =>
    if (tokens l).isEmpty then run2 n2 flows dists ls else
    match rowOf l with
    | none => none
    | some row =>
      let dists' := dists ++ row
      if dists'.length ≥ n2 then some (3, flows, dists') else run2 n2 flows dists' ls

/-- the loop while `state == 1` -/
def run1 (n2 : Nat) (dists : List Int) : List Int → List Line → Option LoopRes
  | flows, [] => some (1, flows, dists)
  | flows, l :: ls =>
    if (tokens l).isEmpty then run1 n2 dists flows ls else
    match rowOf l with
    | none => none
    | some row =>
      let flows' := flows ++ row
      if flows'.length ≥ n2 then run2 n2 flows' dists ls
      else if dists.length ≥ n2 then some (3, flows', dists)   -- fall-through; `row` is exhausted
      else run1 n2 dists flows' ls

/-- the loop while `state == 0`; result `(n, loop result)` with `n = none` if never set -/
def run0 : List Line → Option (Option Nat × LoopRes)
  | [] => some (none, (0, [], []))
  | l :: ls =>
    match tokens l with
    | [] => run0 ls
    | [t] =>                      -- the stripped line is one blank-free string
      match toIntRange 1 1000000 t with
      | none => none
      | some v => (run1 (v.toNat * v.toNat) [] [] ls).map fun r => (some v.toNat, r)
    | _ => none                   -- `int("4 1")` raises

/-- the parsing part of `from_qaplib_stream`: `(n, flows, dists)` as handed to `np.array(...)`;
`none` = `ValueError` -/
def parseQaplib (lines : List Line) : Option (Nat × List Int × List Int) :=
  match run0 lines with
  | none => none
  | some (none, _) => none
  | some (some n, (state, flows, dists)) =>
    if n = 0 then none else
    if flows.length ≠ n * n then none else
    if dists.length ≠ n * n then none else
    if state ≠ 3 then none else some (n, flows, dists)

/-- `np.array(l).reshape((n, n))` for a list of `n * n` values -/
def reshape (n : Nat) (l : List Int) : Matrix := (List.range n).map fun i => (l.drop (i * n)).take n

/-- `from_qaplib_stream(lines, lower_bound, upper_bound)` -/
def fromQaplib (lines : List Line) (lbG ubG : Option Int) : Option Inst :=
  match parseQaplib lines with
  | none => none
  | some (n, flows, dists) => mkQap (reshape n dists) (reshape n flows) lbG ubG

/-! ### Specification vocabulary for the loader: "the text lists n, the flows, the distances" -/

/-- all the values on a sequence of lines, in reading order (`none` if a token is no value) -/
def valsOf : List Line → Option (List Int)
  | [] => some []
  | l :: ls =>
    match rowOf l, valsOf ls with
    | some r, some rs => some (r ++ rs)
    | _, _ => none

def Blank (l : Line) : Prop := tokens l = []

/-- the non-blank lines are: one line holding `n`; lines holding together exactly the `n²`
flows; lines holding together exactly the `n²` distances; anything after that -/
def GoodWrapping (n : Nat) (F D : List Int) (lines : List Line) : Prop :=
  ∃ (pre : List Line) (nl : Line) (t : List Char) (fl dl post : List Line),
    lines = pre ++ nl :: (fl ++ dl ++ post) ∧ (∀ l ∈ pre, Blank l) ∧
    tokens nl = [t] ∧ toIntRange 1 1000000 t = some (n : Int) ∧
    valsOf fl = some F ∧ F.length = n * n ∧ valsOf dl = some D ∧ D.length = n * n

/-- a line laid out as leading blanks followed by tokens, each followed by its separator -/
def layout (lead : List Char) (ts : List (List Char × List Char)) : Line :=
  lead ++ ts.flatMap fun ts => ts.1 ++ ts.2

/-- a token is a non-empty string without blanks -/
def TokOK (t : List Char) : Prop := t ≠ [] ∧ ∀ c ∈ t, isWs c = false
def AllWs (s : List Char) : Prop := ∀ c ∈ s, isWs c = true

/-- every separator is a non-empty run of blanks, except that nothing need follow the last token -/
def GoodToks : List (List Char × List Char) → Prop
  | [] => True
  | [ts] => TokOK ts.1 ∧ AllWs ts.2
  | ts :: rest => TokOK ts.1 ∧ AllWs ts.2 ∧ ts.2 ≠ [] ∧ GoodToks rest

end Qap
