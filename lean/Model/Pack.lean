import Model.Base
/-!
Shared substrate of the 2D bin-packing properties (C01–C04, C12, C14, C17, C19):
instances as the constructor `moptipyapps/binpacking2d/instance.py:Instance.__new__` accepts
them, packings as lists of six-column rows, and the single feasibility specification
`Feasible` (with its decision procedure `feasibleB := decide …`) that every one of those
properties is stated against.

`Feasible` is written from the *property text* (C01/C04), not from the validator code.
-/
namespace Pack
open Base

structure Item where
  w : Int
  h : Int
  rep : Int
  deriving DecidableEq, Repr, Inhabited

structure Inst where
  W : Int
  H : Int
  items : List Item
  deriving DecidableEq, Repr, Inhabited

namespace Inst
def nTypes (I : Inst) : Nat := I.items.length
def nItems (I : Inst) : Int := (I.items.map (·.rep)).sum
def totalArea (I : Inst) : Int := (I.items.map (fun it => it.w * it.h * it.rep)).sum
def maxDim (I : Inst) : Int := max I.W I.H
def minDim (I : Inst) : Int := min I.W I.H
/-- `max_size` of the constructor: `max(-1, all widths, all heights)` -/
def maxSize (I : Inst) : Int := I.items.foldl (fun m it => max (max m it.w) it.h) (-1)

/-- 1-based item lookup (`inst[id - 1, :]`) -/
def item? (I : Inst) (id : Int) : Option Item :=
  if id ≤ 0 then none else I.items[(id - 1).toNat]?

/-- exactly what `Instance.__new__` checks before it computes the lower bounds
(the name check and the final range checks of the bounds are outside) -/
def Valid (I : Inst) : Prop :=
  1 ≤ I.W ∧ I.W ≤ 1000000000000 ∧ 1 ≤ I.H ∧ I.H ≤ 1000000000000 ∧
  1 ≤ I.items.length ∧ I.items.length ≤ 100000000 ∧
  (∀ it ∈ I.items, 1 ≤ it.w ∧ it.w ≤ I.maxDim ∧ 1 ≤ it.h ∧ it.h ≤ I.maxDim ∧
     1 ≤ it.rep ∧ it.rep ≤ 100000000 ∧ ¬ (it.w > I.minDim ∧ it.h > I.minDim)) ∧
  I.nItems ≤ 1000000000000

instance (I : Inst) : Decidable I.Valid := by unfold Valid; infer_instance

/-- the storage type of instance *and* packings:
`int_range_to_dtype(0, max(max_dim + max_size + 1, n_items + 1), force_signed=True)` -/
def dtype? (I : Inst) : Option DType :=
  dtypeFor 0 (max (I.maxDim + I.maxSize + 1) (I.nItems + 1)) true
end Inst

/-- one row of a packing: `(id, bin, left, bottom, right, top)` -/
structure Row where
  id : Int
  bin : Int
  l : Int
  b : Int
  r : Int
  t : Int
  deriving DecidableEq, Repr, Inhabited

/-- two rectangles do not overlap (touching edges are fine) -/
def Row.Disjoint (a c : Row) : Prop := a.r ≤ c.l ∨ c.r ≤ a.l ∨ a.t ≤ c.b ∨ c.t ≤ a.b

instance (a c : Row) : Decidable (a.Disjoint c) := by unfold Row.Disjoint; infer_instance

/-- the rectangle has the dimensions of item `it`, possibly rotated by 90 degrees -/
def Row.HasDims (a : Row) (it : Item) : Prop :=
  (a.r - a.l = it.w ∧ a.t - a.b = it.h) ∨ (a.r - a.l = it.h ∧ a.t - a.b = it.w)

instance (a : Row) (it : Item) : Decidable (a.HasDims it) := by unfold Row.HasDims; infer_instance

/-- **Feasibility** of a packing `rows` using `k` bins for instance `I` (the C01/C04 property text):
one row per item; every id valid and carrying that item's width/height (possibly rotated);
every rectangle inside the bin; each id exactly as often as prescribed; rectangles of one bin
pairwise non-overlapping; bins numbered `1..k` without gaps. -/
def Feasible (I : Inst) (rows : List Row) (k : Int) : Prop :=
  (rows.length : Int) = I.nItems ∧
  (∀ a ∈ rows, ∃ it, I.item? a.id = some it ∧ a.HasDims it) ∧
  (∀ a ∈ rows, 0 ≤ a.l ∧ 0 ≤ a.b ∧ a.r ≤ I.W ∧ a.t ≤ I.H) ∧
  (∀ i ∈ List.range I.nTypes, ((rows.filter (fun a => a.id = (i : Int) + 1)).length : Int)
      = (I.items.getD i default).rep) ∧
  rows.Pairwise (fun a c => a.bin = c.bin → a.Disjoint c) ∧
  (∀ a ∈ rows, 1 ≤ a.bin ∧ a.bin ≤ k) ∧
  (∀ j ∈ List.range k.toNat, ∃ a ∈ rows, a.bin = (j : Int) + 1)

instance (I : Inst) (a : Row) : Decidable (∃ it, I.item? a.id = some it ∧ a.HasDims it) :=
  match h : I.item? a.id with
  | none => isFalse (by simp)
  | some it => if hd : a.HasDims it then isTrue ⟨it, rfl, hd⟩
               else isFalse (by intro ⟨it', h1, h2⟩; cases h1; exact hd h2)

instance (I : Inst) (rows : List Row) (k : Int) : Decidable (Feasible I rows k) := by
  unfold Feasible; infer_instance

def feasibleB (I : Inst) (rows : List Row) (k : Int) : Bool := decide (Feasible I rows k)

/-- a signed permutation with repetitions of the item ids: no zero, and `|x|` contains
id `i+1` exactly `rep i` times -/
def SignedPermOf (I : Inst) (x : List Int) : Prop :=
  (x.length : Int) = I.nItems ∧ (∀ v ∈ x, v ≠ 0 ∧ v.natAbs ≤ I.nTypes) ∧
  ∀ i ∈ List.range I.nTypes, ((x.filter (fun v => v.natAbs = i + 1)).length : Int)
      = (I.items.getD i default).rep

instance (I : Inst) (x : List Int) : Decidable (SignedPermOf I x) := by
  unfold SignedPermOf; infer_instance

/-! ### protocol helpers -/
def rowOfList : List Int → Option Row
  | [id, bin, l, b, r, t] => some ⟨id, bin, l, b, r, t⟩
  | _ => none
def Row.toList (a : Row) : List Int := [a.id, a.bin, a.l, a.b, a.r, a.t]
def itemOfList : List Int → Option Item
  | [w, h, rep] => some ⟨w, h, rep⟩
  | _ => none

end Pack
