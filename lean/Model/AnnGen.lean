/-!
# C16 (part B) — the ANN code generator `make_ann` as a compiler

Model of `moptipyapps/dynamic_control/controllers/ann.py:make_ann` together with the part of
`controllers/codegen.py:CodeGenerator` it uses.  `make_ann` writes Python *source text*, which is
`exec`-ed and numba-compiled.  Here

* `Program` is a small AST of exactly the statements `make_ann` can emit
  (`x = state[i]`, `x = np.arctan(params[b] + params[w] * u + …)`,
  `out[i] = params[m] * np.arctan(params[b] + params[w] * u + …)`),
* `annGen sd cd layers` mirrors the generator statement by statement (its five pieces of state
  `params`, `var_count`, `vars_in`, `vars_out`, `vars_cached` are the fields of `GenSt`),
* `render` prints a `Program` as the source text (compared byte-for-byte with the text the real
  `make_ann` hands to `CodeGenerator.build`, on every run of the check),
* `run` is the semantics of such a text: a straight-line interpreter with an environment of
  local variables, checked reads of `state[i]`/`params[i]`, checked stores to `out[i]`, over an
  arbitrary carrier `K` with *arbitrary* operations `add mul act` (no algebraic law is used, so
  the theorems hold verbatim for IEEE doubles without re-association, for `ℝ`, `ℚ`, `Int`, …),
* `layered?` is the specification: the network evaluated layer by layer, the parameter vector
  being consumed front to back (hidden neuron: bias, then one weight per input; output neuron:
  multiplier, bias, then one weight per input).

No Mathlib.
-/
namespace AnnGen

/-! ## Syntax of generated programs -/

/-- local variables of the generated function: `s{i}` caches `state[i]`, `v{k}` are fresh -/
inductive Var where
  | s (i : Nat)
  | v (k : Nat)
  deriving DecidableEq, Repr

/-- the Python identifier -/
def Var.name : Var → String
  | .s i => "s" ++ Nat.repr i
  | .v k => "v" ++ Nat.repr k

/-- `params[w] * u` -/
structure Term where
  w : Nat
  u : Var
  deriving DecidableEq, Repr

inductive Stmt where
  /-- `x = state[i]` -/
  | load (x : Var) (i : Nat)
  /-- `x = np.arctan(params[b] + params[w₁] * u₁ + …)` -/
  | neuron (x : Var) (b : Nat) (ts : List Term)
  /-- `out[i] = params[m] * np.arctan(params[b] + params[w₁] * u₁ + …)` -/
  | out (i : Nat) (m b : Nat) (ts : List Term)
  deriving DecidableEq, Repr

/-- what `make_ann` hands to `Controller(name, state_dims, control_dims, params, code.build())` -/
structure Program where
  name : String
  stateDims : Nat
  controlDims : Nat
  paramDims : Nat
  stmts : List Stmt

/-! ## The generator (mirror of `make_ann`) -/

/-- the mutable locals of `make_ann` -/
structure GenSt where
  params : Nat := 0
  varCount : Nat := 0
  varsIn : List Var := []
  varsOut : List Var := []
  varsCached : List Var := []

/-- `for vv in vars_in: write(f" + params[{params}] * {vv}"); params += 1` -/
def mkTerms (p : Nat) : List Var → List Term
  | [] => []
  | u :: us => ⟨p, u⟩ :: mkTerms (p + 1) us

/-- `if len(vars_cached) > 0: var = vars_cached.pop(-1) else: var_count += 1; var = f"v{var_count}"` -/
def alloc (st : GenSt) : Var × GenSt :=
  match st.varsCached.getLast? with
  | some x => (x, { st with varsCached := st.varsCached.dropLast })
  | none => (.v (st.varCount + 1), { st with varCount := st.varCount + 1 })

/-- body of `for _ in range(layer)` -/
def genNeuron (st : GenSt) : Stmt × GenSt :=
  let (x, st1) := alloc st
  (.neuron x st1.params (mkTerms (st1.params + 1) st1.varsIn),
   { st1 with varsOut := st1.varsOut ++ [x], params := st1.params + 1 + st1.varsIn.length })

def genNeurons : Nat → GenSt → List Stmt × GenSt
  | 0, st => ([], st)
  | n + 1, st =>
    let (c, st1) := genNeuron st
    let (cs, st2) := genNeurons n st1
    (c :: cs, st2)

/-- `vars_cached.extend(vars_in); vars_in.clear(); vars_in, vars_out = vars_out, vars_in` -/
def endLayer (st : GenSt) : GenSt :=
  { st with varsCached := st.varsCached ++ st.varsIn, varsIn := st.varsOut, varsOut := [] }

/-- `for layer in layers:` -/
def genHidden : List Nat → GenSt → List Stmt × GenSt
  | [], st => ([], st)
  | w :: ws, st =>
    let (c, st1) := genNeurons w st
    let (cs, st2) := genHidden ws (endLayer st1)
    (c ++ cs, st2)

/-- `for i in range(control_dims):` — `n` outputs still to write, the next one is `out[i]` -/
def genOuts (varsIn : List Var) : (n i p : Nat) → List Stmt × Nat
  | 0, _, p => ([], p)
  | n + 1, i, p =>
    let (cs, p') := genOuts varsIn n (i + 1) (p + 2 + varsIn.length)
    (.out i p (p + 1) (mkTerms (p + 2) varsIn) :: cs, p')

/-- `for i in range(state_dims): vv = f"s{i}"; vars_in.append(vv); writeln(f"{vv} = state[{i}]")` -/
def genLoads : (n i : Nat) → List Var → List Stmt × List Var
  | 0, _, vars => ([], vars)
  | n + 1, i, vars =>
    let (cs, vs) := genLoads n (i + 1) (vars ++ [.s i])
    (.load (.s i) i :: cs, vs)

/-- `f"ann_{'_'.join(map(str, layers))}" if len(layers) > 0 else "ann"` -/
def annName (layers : List Nat) : String :=
  if layers.isEmpty then "ann" else "ann_" ++ "_".intercalate (layers.map Nat.repr)

/-- the whole of `make_ann` after argument validation -/
def annGen (sd cd : Nat) (layers : List Nat) : Program :=
  let (c0, vars) := genLoads sd 0 []
  let (c1, st) := genHidden layers { varsIn := vars }
  let (c2, p) := genOuts st.varsIn cd 0 st.params
  { name := annName layers, stateDims := sd, controlDims := cd, paramDims := p,
    stmts := c0 ++ c1 ++ c2 }

/-- Argument validation: `check_int_range(state_dims, 1, 100)`, `check_int_range(control_dims, 1,
100)`, `check_int_range(layer, 1, 64)` in `make_ann`, then the `Controller` constructor's
`state_dims ∈ 2..100`, `control_dims ∈ 1..100`, `param_dims ∈ 1..1000` (all `ValueError`). -/
def makeAnn? (sd cd : Nat) (layers : List Nat) : Option Program :=
  if 1 ≤ sd ∧ sd ≤ 100 ∧ 1 ≤ cd ∧ cd ≤ 100 ∧ layers.all (fun w => 1 ≤ w ∧ w ≤ 64) then
    let p := annGen sd cd layers
    if 2 ≤ p.stateDims ∧ p.stateDims ≤ 100 ∧ 1 ≤ p.controlDims ∧ p.controlDims ≤ 100
        ∧ 1 ≤ p.paramDims ∧ p.paramDims ≤ 1000 then some p else none
  else none

/-! ## Pretty-printer: the text `CodeGenerator` accumulates -/

def renderTerms (ts : List Term) : String :=
  String.join (ts.map fun t => " + params[" ++ Nat.repr t.w ++ "] * " ++ t.u.name)

def Stmt.render : Stmt → String
  | .load x i => "    " ++ x.name ++ " = state[" ++ Nat.repr i ++ "]\n"
  | .neuron x b ts =>
      "    " ++ x.name ++ " = np.arctan(params[" ++ Nat.repr b ++ "]" ++ renderTerms ts ++ ")\n"
  | .out i m b ts =>
      "    out[" ++ Nat.repr i ++ "] = params[" ++ Nat.repr m ++ "] * np.arctan(params["
        ++ Nat.repr b ++ "]" ++ renderTerms ts ++ ")\n"

/-- `CodeGenerator.__init__` with `args = "state: np.ndarray, _: float, params: np.ndarray,
out: np.ndarray"`, `retval = "None"`, `fastmath = True` -/
def header : String :=
  "@numba.njit(cache=False, inline='always', fastmath=True, boundscheck=False)\n" ++
  "def ____func(state: np.ndarray, _: float, params: np.ndarray, out: np.ndarray) -> None:\n"

def render (p : Program) : String :=
  header ++ String.join (p.stmts.map Stmt.render)

/-! ## Semantics of generated programs -/

/-- the arithmetic the program is run with; nothing is assumed about it -/
structure Ops (K : Type) where
  add : K → K → K
  mul : K → K → K
  act : K → K

/-- local variables; `none` = not assigned yet (Python `NameError`) -/
abbrev Env (K : Type) := Var → Option K

def Env.set {K} (e : Env K) (x : Var) (a : K) : Env K :=
  fun y => if y = x then some a else e y

/-- `acc + params[w₁] * u₁ + params[w₂] * u₂ + …` (Python `+` is left-associative, `*` binds
tighter) -/
def evalTerms {K} (o : Ops K) (θ : List K) (e : Env K) : K → List Term → Option K
  | acc, [] => some acc
  | acc, t :: ts => do
    let w ← θ[t.w]?
    let u ← e t.u
    evalTerms o θ e (o.add acc (o.mul w u)) ts

structure St (K : Type) where
  env : Env K
  out : List K

/-- one statement; `none` = an index outside its array or an unassigned local -/
def step {K} (o : Ops K) (θ s : List K) (st : St K) : Stmt → Option (St K)
  | .load x i => do
    let a ← s[i]?
    some { st with env := st.env.set x a }
  | .neuron x b ts => do
    let bv ← θ[b]?
    let z ← evalTerms o θ st.env bv ts
    some { st with env := st.env.set x (o.act z) }
  | .out i m b ts => do
    let mv ← θ[m]?
    let bv ← θ[b]?
    let z ← evalTerms o θ st.env bv ts
    if i < st.out.length then some { st with out := st.out.set i (o.mul mv (o.act z)) } else none

def exec {K} (o : Ops K) (θ s : List K) : St K → List Stmt → Option (St K)
  | st, [] => some st
  | st, c :: cs => (step o θ s st c).bind fun st' => exec o θ s st' cs

/-- `controller(state, t, params, out)`: `out0` is the (stale) content of `out` before the call;
the result is the content of `out` afterwards.  `state` and `params` are never written (there is
no statement that could). -/
def run {K} (o : Ops K) (p : Program) (θ s out0 : List K) : Option (List K) :=
  (exec o θ s ⟨fun _ => none, out0⟩ p.stmts).map (·.out)

/-! ## Specification: the network evaluated layer by layer

Written without variables, indices or counters: every unit *consumes* its parameters from the
front of the parameter vector and hands the rest on. -/

/-- `acc + w₁·x₁ + w₂·x₂ + …` taking one weight per input from `θ` -/
def dot? {K} (o : Ops K) : K → List K → List K → Option (K × List K)
  | acc, [], θ => some (acc, θ)
  | acc, x :: xs, w :: θ => dot? o (o.add acc (o.mul w x)) xs θ
  | _, _ :: _, [] => none

/-- hidden unit: `act(bias + Σ wₖ·xₖ)` -/
def hidden? {K} (o : Ops K) (xs : List K) : List K → Option (K × List K)
  | b :: θ => (dot? o b xs θ).map fun (z, θ') => (o.act z, θ')
  | [] => none

/-- output unit: `m · act(bias + Σ wₖ·xₖ)` -/
def outUnit? {K} (o : Ops K) (xs : List K) : List K → Option (K × List K)
  | m :: b :: θ => (dot? o b xs θ).map fun (z, θ') => (o.mul m (o.act z), θ')
  | _ => none

/-- `n` units of the same kind next to each other -/
def layer? {K} (unit : List K → Option (K × List K)) : Nat → List K → Option (List K × List K)
  | 0, θ => some ([], θ)
  | n + 1, θ =>
    (unit θ).bind fun (y, θ1) =>
      (layer? unit n θ1).map fun (ys, θ2) => (y :: ys, θ2)

/-- the hidden layers, one after the other -/
def hiddenAll? {K} (o : Ops K) : List K → List Nat → List K → Option (List K × List K)
  | xs, [], θ => some (xs, θ)
  | xs, w :: ws, θ =>
    (layer? (hidden? o xs) w θ).bind fun (ys, θ1) => hiddenAll? o ys ws θ1

/-- the network `(sd, layers, cd)` applied to state `s` with parameter vector `θ`;
returns the outputs and the unused rest of `θ` (`none` iff `θ` is too short) -/
def layeredRest? {K} (o : Ops K) (layers : List Nat) (cd : Nat) (θ s : List K) :
    Option (List K × List K) :=
  (hiddenAll? o s layers θ).bind fun (h, θ1) => layer? (outUnit? o h) cd θ1

def layered? {K} (o : Ops K) (layers : List Nat) (cd : Nat) (θ s : List K) : Option (List K) :=
  (layeredRest? o layers cd θ s).map (·.1)

/-- number of parameters of the network: a hidden unit has `fan_in + 1`, an output unit
`fan_in + 2` -/
def paramCount (sd cd : Nat) : List Nat → Nat
  | [] => cd * (sd + 2)
  | w :: ws => w * (sd + 1) + paramCount w cd ws

/-! ## Static index sets (C13 clause for generated programs) -/

def Stmt.paramIdx : Stmt → List Nat
  | .load _ _ => []
  | .neuron _ b ts => b :: ts.map (·.w)
  | .out _ m b ts => m :: b :: ts.map (·.w)

/-- all `params[...]` subscripts in program order -/
def paramIndices (p : Program) : List Nat := p.stmts.flatMap Stmt.paramIdx

/-- every literal subscript is inside its array -/
def Stmt.InRange (sd cd pd : Nat) : Stmt → Prop
  | .load _ i => i < sd
  | .neuron _ b ts => b < pd ∧ ∀ t ∈ ts, t.w < pd
  | .out i m b ts => i < cd ∧ m < pd ∧ b < pd ∧ ∀ t ∈ ts, t.w < pd

def Stmt.inRangeB (sd cd pd : Nat) : Stmt → Bool
  | .load _ i => i < sd
  | .neuron _ b ts => b < pd && ts.all (·.w < pd)
  | .out i m b ts => i < cd && m < pd && b < pd && ts.all (·.w < pd)

end AnnGen
