import Driver.Loop
import Driver.C01
def main : IO Unit := Driver.runLoop [Drv.C01.handle]
