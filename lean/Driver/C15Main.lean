import Driver.Loop
import Driver.C15
def main : IO Unit := Driver.runLoop [Drv.C15.handle]
