import Driver.Loop
import Driver.C18
def main : IO Unit := Driver.runLoop [Drv.C18.handle]
