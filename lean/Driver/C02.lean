import Model.Proto
import Model.BinObj
/-! driver op for C02:

`obj W H k lb sky ; w h rep | w h rep … ; id bin l b r t | … ; temp…`

answers, for the seven objectives in the order of `Obj.all`:
`feas=` (`Pack.Feasible I rows k`), `in=` (`InSpace temp.length rows`), `v=` kernel values
(`OOB` / `ERR` for the two error kinds), `s=` documented values (`Model.BinObj.spec`; `-` if the
packing is not feasible; skyline entries `x` unless `sky=1`), `lo=`/`up=` the bounds,
`tb=` `to_bin_count` of the kernel value, `geo=` the geometric bin bound. -/
namespace Drv.C02
open Proto Pack BinObj

def showRes : Except Err Int → String
  | .ok v => toString v
  | .error .oob => "OOB"
  | .error .empty => "ERR"

def isSky : Obj → Bool
  | .lastSkyline | .lowestSkyline => true
  | _ => false

def handle (op rest : String) : Option String :=
  match op, fields rest with
  | "obj", [hd, its, rws, tmp] => do
      match ← ints? hd with
      | [W, H, k, lb, skyF] =>
        let items ← (← matrix? its).mapM itemOfList
        let rows ← (← matrix? rws).mapM rowOfList
        let temp ← ints? tmp
        let I : Inst := ⟨W, H, items⟩
        let feas := feasibleB I rows k
        let vals := Obj.all.map (fun o => eval o I rows temp)
        let specs := if feas then
            ",".intercalate (Obj.all.map (fun o =>
              if isSky o && skyF == 0 then "x" else toString (spec o I rows k)))
          else "-"
        let tbs := (Obj.all.zip vals).map (fun (o, v) => match v with
          | .ok z => toString (toBinCount o I z)
          | _ => "-")
        pure (s!"feas={feas} in={decide (InSpace temp.length rows)} valid={decide I.Valid} " ++
              s!"v={",".intercalate (vals.map showRes)} s={specs} " ++
              s!"lo={cInts (Obj.all.map (fun o => lower o I lb))} " ++
              s!"up={cInts (Obj.all.map (fun o => upper o I))} " ++
              s!"tb={",".intercalate tbs} geo={lbGeo I}")
      | _ => none
  | _, _ => none
end Drv.C02
