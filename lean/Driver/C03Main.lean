import Driver.Loop
import Driver.C03
def main : IO Unit := Driver.runLoop [Drv.C03.handle]
