import Driver.Loop
import Driver.C17
def main : IO Unit := Driver.runLoop [Drv.C17.handle]
