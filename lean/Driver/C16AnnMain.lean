import Driver.Loop
import Driver.C16Ann
def main : IO Unit := Driver.runLoop [Drv.C16Ann.handle]
