import Model.Proto
import Model.Tsp
/-! driver ops for C05: `tspL matrix ; tour`  and  `tspI lbGiven mult ; matrix` -/
namespace Drv.C05
open Proto Tsp

def showInst (i : Inst) : String :=
  s!"n={i.n} lb={i.lb} ub={i.ub} sym={i.sym} dtype={i.dtype.name} stored={cMatrix i.stored}"

def handle (op rest : String) : Option String :=
  match op, fields rest with
  | "tspL", [m, x] => do
      let d ← matrix? m
      let t ← nats? x
      pure (match tourLen? d t with
        | some v => s!"val={v} spec={cyclicSum d t} perm={isPermB t d.length}"
        | none => "OOB")
  | "tspI", [hd, m] => do
      let d ← matrix? m
      match ← ints? hd with
      | [lb, mult] => pure (match mkInstance lb d mult with
          | some i => showInst i
          | none => "ERR")
      | _ => none
  | _, _ => none
end Drv.C05
