/-!
Line-protocol loop shared by the per-property model drivers: one operation per input line,
one output line per operation.  A handler gets `(op, rest)` and returns `none` for "not my
op / unparsable"; unknown or malformed lines print `bad-op` — the model never defaults.
-/
namespace Driver

abbrev Handler := String → String → Option String

def dispatch (handlers : List Handler) (line : String) : String :=
  let line := line.trimAscii.toString
  let (op, rest) := match line.splitOn " " with
    | [] => ("", "")
    | o :: r => (o, " ".intercalate r)
  match handlers.findSome? (fun h => h op rest) with
  | some out => out
  | none => "bad-op"

partial def loop (handlers : List Handler) (h out : IO.FS.Stream) : IO Unit := do
  let line ← h.getLine
  if line.isEmpty then return ()
  out.putStrLn (dispatch handlers line)
  loop handlers h out

def runLoop (handlers : List Handler) : IO Unit := do
  let out ← IO.getStdout
  loop handlers (← IO.getStdin) out
  out.flush

end Driver
