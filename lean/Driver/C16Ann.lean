import Model.Proto
import Model.AnnGen
import Model.MinAnn
/-!
driver ops for C16 part B (generated ANN controllers, minimising-network controllers)

```
anntext sd cd ; layers                         -> ERR | ok name=… sd=… cd=… pd=… text=<render, "\n" escaped>
annrun  sd cd ; layers ; θ ; s ; out0          -> val=<run annGen over Int, act (x³+x+1) % 10007 − 5003> spec=<layered?>
annrunf sd cd ; layers ; θ bits ; s bits       -> val=<run over Float, act atan, as bit patterns> spec=…
prog    sd cd pd ; stmts ; θ ; s ; out0        -> same=<stmts = annGen's> once=… inrange=… val=<run of the given program> spec=<layered?>
minann  n act ; state ; params ; eps tol phi ; fuel   (rationals a/b)  -> x=… n=<#evals> in=<spec> | OOB | FUEL
minannf n ; state bits ; params bits ; fuel    -> x=<bits> n=<#evals> | OOB | FUEL
```
-/
namespace Drv.C16Ann
open Proto

/-! ### generated ANN programs -/

/-- bounded, non-linear, non-symmetric test activation (Python `%` and Lean `%` agree for a positive
modulus); bounded so that deep networks stay small -/
def intOps : AnnGen.Ops Int := ⟨(· + ·), (· * ·), fun x => (x * x * x + x + 1) % 10007 - 5003⟩
def floatOps : AnnGen.Ops Float := ⟨(· + ·), (· * ·), Float.atan⟩

def escape (s : String) : String := s.replace "\n" "\\n"

def showRes (r : Option (List Int)) : String :=
  match r with
  | some l => if l.isEmpty then "-" else cInts l
  | none => "OOB"

def bitsToFloat (n : Nat) : Float := Float.ofBits (UInt64.ofNat n)
def showResF (r : Option (List Float)) : String :=
  match r with
  | some l => if l.isEmpty then "-" else ",".intercalate (l.map fun x => toString x.toBits.toNat)
  | none => "OOB"

def var? (s : String) : Option AnnGen.Var :=
  match s.toList with
  | 's' :: r => (String.ofList r).toNat?.map AnnGen.Var.s
  | 'v' :: r => (String.ofList r).toNat?.map AnnGen.Var.v
  | _ => none

def term? (s : String) : Option AnnGen.Term :=
  match s.splitOn ":" with
  | [w, u] => do some ⟨← w.toNat?, ← var? u⟩
  | _ => none

/-- `L x i` | `N x b w:u …` | `O i m b w:u …` -/
def stmt? (s : String) : Option AnnGen.Stmt :=
  match (s.splitOn " ").filter (· ≠ "") with
  | ["L", x, i] => do some (.load (← var? x) (← i.toNat?))
  | "N" :: x :: b :: ts => do some (.neuron (← var? x) (← b.toNat?) (← ts.mapM term?))
  | "O" :: i :: m :: b :: ts => do some (.out (← i.toNat?) (← m.toNat?) (← b.toNat?) (← ts.mapM term?))
  | _ => none

def stmts? (s : String) : Option (List AnnGen.Stmt) :=
  ((s.splitOn "|").map (·.trimAscii.toString)).filter (· ≠ "") |>.mapM stmt?

/-! ### minimising networks -/

def rat? (s : String) : Option Rat :=
  match s.splitOn "/" with
  | [a] => a.toInt?.map fun i => (i : Rat)
  | [a, b] => do
    let n ← a.toInt?
    let d ← b.toNat?
    if d = 0 then none else some ((n : Rat) / (d : Rat))
  | _ => none

def rats? (s : String) : Option (List Rat) := (words s).mapM rat?
def showRat (r : Rat) : String := s!"{r.num}/{r.den}"

def rabs (x : Rat) : Rat := if x < 0 then -x else x
/-- rational test activations (monotone bounded / oscillating); the harness uses the same -/
def ratAct : String → Option (Rat → Rat)
  | "sig" => some fun x => x / (1 + rabs x)
  | "tri" => some fun x => rabs (x - 4 * (((x + 2) / 4).floor : Rat)) - 1
  | "cub" => some fun x => x * x * x - 300 * x
  | _ => none

def fUp (x : Float) : Float :=
  if x == 0.0 then Float.ofBits 1
  else if x > 0.0 then Float.ofBits (x.toBits + 1) else Float.ofBits (x.toBits - 1)
def fDn (x : Float) : Float :=
  if x == 0.0 then Float.ofBits 0x8000000000000001
  else if x > 0.0 then Float.ofBits (x.toBits - 1) else Float.ofBits (x.toBits + 1)

def floatNum : MinAnn.Num Float :=
  ⟨(· + ·), (· - ·), (· * ·), (· / ·), fun a b => decide (a < b), fUp, fDn⟩
def floatConsts : MinAnn.Consts Float :=
  { x0 := 0.0, lo := -1000.0, lo2 := -990.0, hi := 1000.0, step := 10.0, tol := 1e-12,
    phi := 0.5 * (Float.sqrt 5.0 + 1.0) }

def handle (op rest : String) : Option String :=
  match op, fields rest with
  | "anntext", [hd, ls] => do
      let layers ← nats? ls
      match ← nats? hd with
      | [sd, cd] => pure (match AnnGen.makeAnn? sd cd layers with
          | some p => s!"ok name={p.name} sd={p.stateDims} cd={p.controlDims} pd={p.paramDims} text={escape (AnnGen.render p)}"
          | none => "ERR")
      | _ => none
  | "annrun", [hd, ls, th, st, o0] => do
      let layers ← nats? ls
      let θ ← ints? th
      let s ← ints? st
      let out0 ← ints? o0
      match ← nats? hd with
      | [sd, cd] =>
          let p := AnnGen.annGen sd cd layers
          pure s!"val={showRes (AnnGen.run intOps p θ s out0)} spec={showRes (AnnGen.layered? intOps layers cd θ s)} pd={p.paramDims}"
      | _ => none
  | "annrunf", [hd, ls, th, st] => do
      let layers ← nats? ls
      let θ := (← nats? th).map bitsToFloat
      let s := (← nats? st).map bitsToFloat
      match ← nats? hd with
      | [sd, cd] =>
          let p := AnnGen.annGen sd cd layers
          pure s!"val={showResF (AnnGen.run floatOps p θ s (List.replicate cd 0.0))} spec={showResF (AnnGen.layered? floatOps layers cd θ s)}"
      | _ => none
  | "prog", [hd, ls, ps, th, st, o0] => do
      let layers ← nats? ls
      let stmts ← stmts? ps
      let θ ← ints? th
      let s ← ints? st
      let out0 ← ints? o0
      match ← nats? hd with
      | [sd, cd, pd] =>
          let g := AnnGen.annGen sd cd layers
          let p : AnnGen.Program := { g with stmts := stmts, paramDims := pd }
          let once := decide (AnnGen.paramIndices p = List.range pd)
          let inr := stmts.all (AnnGen.Stmt.inRangeB sd cd pd)
          pure s!"same={decide (stmts = g.stmts)} once={once} inrange={inr} count={decide (pd = AnnGen.paramCount sd cd layers)} val={showRes (AnnGen.run intOps p θ s out0)} spec={showRes (AnnGen.layered? intOps layers cd θ s)}"
      | _ => none
  | "minann", [hd, st, ps, cs, fu] => do
      let state ← rats? st
      let params ← rats? ps
      let fuel ← (← nats? fu).head?
      match words hd, ← rats? cs with
      | [ns, an], [eps, tol, phi] =>
          let n ← ns.toNat?
          let act ← ratAct an
          let N := MinAnn.ratNum eps
          let C := MinAnn.ratConsts tol phi
          pure (match MinAnn.objective N act n state params with
            | none => "OOB"
            | some f =>
              match MinAnn.minAnn N C f fuel with
              | none => "FUEL"
              | some r =>
                let inI := decide (C.lo ≤ r.xBest ∧ r.xBest ≤ C.hi) && r.evals.contains r.xBest
                  && r.evals.all (fun p => decide (C.lo ≤ p ∧ p ≤ C.hi))
                  && r.evals.all (fun p => !(decide (f p < f r.xBest)))
                s!"x={showRat r.xBest} n={r.evals.length} in={inI}")
      | _, _ => none
  | "minannf", [hd, st, ps, fu] => do
      let state := (← nats? st).map bitsToFloat
      let params := (← nats? ps).map bitsToFloat
      let fuel ← (← nats? fu).head?
      match ← nats? hd with
      | [n] =>
          pure (match MinAnn.objective floatNum Float.atan n state params with
            | none => "OOB"
            | some f =>
              match MinAnn.minAnn floatNum floatConsts f fuel with
              | none => "FUEL"
              | some r => s!"x={r.xBest.toBits.toNat} n={r.evals.length} fx={(f r.xBest).toBits.toNat}")
      | _ => none
  | _, _ => none

end Drv.C16Ann
