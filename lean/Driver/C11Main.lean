import Driver.Loop
import Driver.C11
def main : IO Unit := Driver.runLoop [Drv.C11.handle]
