import Model.Proto
import Model.PackVal
/-! driver ops for C04:
`val W H ; w h rep | … ; own dtypeIdx nBins ; rows`   validator verdict + the specification
`rt  W H ; w h rep | … ; own dtypeIdx nBins ; rows`   `toStr` and `fromStr ∘ toStr`
`fs  W H ; w h rep | … ; text with ':' for ';'`       `fromStr` on arbitrary text -/
namespace Drv.C04
open Proto Pack PackVal Base

def inst? (hd items : String) : Option Inst := do
  match ← ints? hd with
  | [w, h] =>
    let its ← (← matrix? items).mapM itemOfList
    pure ⟨w, h, its⟩
  | _ => none

def packing? (hd rows : String) : Option Packing := do
  match ← ints? hd with
  | [own, dt, nb] =>
    let t ← DType.all[dt.toNat]?
    pure ⟨own != 0, t, ← matrix? rows, nb⟩
  | _ => none

def showRes (r : Except Err Unit) : String :=
  match r with
  | .ok _ => "ok"
  | .error e => e.show

def showP (P : Packing) : String :=
  s!"nb={P.nBins} dt={P.dtype.name} own={P.ownInst} rows={cMatrix P.rows}"

def showFrom (r : Except Err Packing) : String :=
  match r with
  | .ok P => s!"r=ok {showP P}"
  | .error e => s!"r={e.show}"

def handle (op rest : String) : Option String :=
  match op, fields rest with
  | "val", [hd, items, ph, rows] => do
      let I ← inst? hd items
      let P ← packing? ph rows
      let idt := match I.dtype? with | some t => t.name | none => "none"
      pure s!"v={showRes (validate I P)} acc={acceptsB I P} feas={feasibleFast I P.rowsR P.nBins} idt={idt} valid={decide I.Valid}"
  | "rt", [hd, items, ph, rows] => do
      let I ← inst? hd items
      let P ← packing? ph rows
      let s := toStr P
      let r := fromStr I s
      let same := match r with | .ok Q => decide (Q = P) | .error _ => false
      pure s!"s={s} same={same} {showFrom r}"
  | "fs", [hd, items, text] => do
      let I ← inst? hd items
      pure (showFrom (fromStr I (text.replace ":" ";")))
  | _, _ => none
end Drv.C04
