import Model.Proto
import Model.Ode
/-!
driver ops for C10 (all numbers exact: `n` or `n/d`; float-like values also `nan`, `inf`, `-inf`;
an empty list is `_`)

* `odeS start cdim steps max ; ctrlTab ; shr1Tab ; shr2Tab ; cycle ; cycle ; …`
  runs `Ode.runOde` on a *recorded* environment:
  `ctrlTab` = `state:t:out|…`, `shrXTab` = `a:b:res|…`,
  `cycle` = `T # evals # steps # grid # denseTab` with `evals` = `t~tprev~ctrl~out+…`,
  `steps` = `status:tmin:tmax:evals|…` (`status` ∈ r,f,x), `denseTab` = `j:t:state|…`.
  A lookup that the record does not contain answers `nan`s of length 0 → shows up as a mismatch.
  → `res= cycles= final= trace=c:tag:calls:maxOk:minErr:branch:newMax|… rows=…`
* `odeC start cdim steps limit ; rows ; expectedControls`
  evaluates the *specification* (`GoodRows`, `IsFailureRow`) on rows returned by the implementation
  → `good= clause= isfail=`
* `odeJ sd use gamma ; matrix`  → `j= doc= idx= size= filled=`
* `odeF evals`  → `ok= maxOk= minErr=`   (bookkeeping of `__IntegrationState.f`)
* `odeV gamma,testTime,trainingTime` → `ok=`   (parameter validation of `System.__init__`)
-/
namespace Drv.C10
open Ode

def sp (s : String) (sep : String) : List String :=
  let t := s.trimAscii.toString
  if t = "_" || t = "" then [] else (t.splitOn sep).map (fun x => x.trimAscii.toString)

def toks (s : String) : List String := ((s.splitOn " ").map (fun x => x.trimAscii.toString)).filter (· ≠ "")

def rat? (s : String) : Option Rat :=
  match s.splitOn "/" with
  | [n] => n.toInt?.map (fun i => (i : Rat))
  | [n, d] => do
    let n ← n.toInt?
    let d ← d.toNat?
    if d = 0 then none else pure ((n : Rat) / (d : Rat))
  | _ => none

def v? (s : String) : Option V :=
  if s = "nan" then some .nan else if s = "inf" then some .posInf
  else if s = "-inf" then some .negInf else (rat? s).map .fin

def vlist? (s : String) : Option (List V) := (sp s ",").mapM v?
def rlist? (s : String) : Option (List Rat) := (sp s ",").mapM rat?

def showRat (q : Rat) : String := if q.den = 1 then toString q.num else s!"{q.num}/{q.den}"
def showV : V → String
  | .fin q => showRat q | .nan => "nan" | .posInf => "inf" | .negInf => "-inf"
def showVs (l : List V) : String := if l.isEmpty then "_" else ",".intercalate (l.map showV)
def showTag : Tag → String
  | .gate => "gate" | .first => "first" | .seg i => s!"seg@{i}" | .row i => s!"row@{i}"
  | .ok => "ok" | .stuck => "stuck" | .oob => "oob" | .badBound => "bad"

def eval? (s : String) : Option Eval :=
  match s.splitOn "~" with
  | [t, p, c, o] => do pure ⟨← rat? t, ← rat? p, ← vlist? c, ← vlist? o⟩
  | _ => none
def evals? (s : String) : Option (List Eval) := (sp s "+").mapM eval?

def step? (s : String) : Option StepRec :=
  match s.splitOn ":" with
  | [st, a, b, ev] => do
    let st ← (if st = "r" then some Status.running else if st = "f" then some .finished
              else if st = "x" then some .failed else none)
    pure ⟨← evals? ev, st, (← rat? a, ← rat? b)⟩
  | _ => none

structure CycleRec where
  T : Rat
  run : IntegRun
  grid : List Rat
  dense : List (Nat × Rat × List V)

def cycle? (s : String) : Option CycleRec :=
  match s.splitOn "#" with
  | [t, pre, steps, grid, dense] => do
    let d ← (sp dense "|").mapM (fun x => match x.splitOn ":" with
      | [j, t, st] => do pure (← j.toNat?, ← rat? t, ← vlist? st)
      | _ => none)
    pure ⟨← rat? t.trimAscii.toString, ⟨← evals? pre, ← (sp steps "|").mapM step?⟩, ← rlist? grid, d⟩
  | _ => none

def tab3? (s : String) : Option (List (V × V × V)) :=
  (sp s "|").mapM (fun x => match x.splitOn ":" with
    | [a, b, r] => do pure (← v? a, ← v? b, ← v? r)
    | _ => none)

def ctrlTab? (s : String) : Option (List (List V × Rat × List V)) :=
  (sp s "|").mapM (fun x => match x.splitOn ":" with
    | [st, t, o] => do pure (← vlist? st, ← rat? t, ← vlist? o)
    | _ => none)

def mkEnv (start : List V) (cdim steps : Nat) (ctab : List (List V × Rat × List V))
    (s1 s2 : List (V × V × V)) (cycles : List CycleRec) : Env where
  start := start
  cdim := cdim
  steps := steps
  integ := fun c m => match cycles[c - 1]? with
    | some r => if r.T = m then r.run else ⟨[], []⟩
    | none => ⟨[], []⟩
  grid := fun m => match cycles.find? (fun r => r.T = m) with
    | some r => r.grid
    | none => []
  dense := fun c j t => match cycles[c - 1]? with
    | some r => match r.dense.find? (fun x => x.1 = j ∧ x.2.1 = t) with
      | some x => x.2.2
      | none => []
    | none => []
  ctrl := fun s t => match ctab.find? (fun x => x.1 = s ∧ x.2.1 = t) with
    | some x => x.2.2
    | none => []
  shrink1 := fun a b => match s1.find? (fun x => x.1 = a ∧ x.2.1 = b) with
    | some x => x.2.2
    | none => .nan
  shrink2 := fun a b => match s2.find? (fun x => x.1 = a ∧ x.2.1 = b) with
    | some x => x.2.2
    | none => .nan
  nextUp := fun m => m

def showInfo (i : CycleInfo) : String :=
  s!"{i.cycle}:{showRat i.maxTime}:{showTag i.tag}:{i.calls}:{showV i.maxOk}:{showV i.minErr}:{i.branch}:{showV i.newMax}"

def showRows (rs : List (List V)) : String := "|".intercalate (rs.map showVs)

def showResult (r : Result) : String :=
  let (kind, rows) := match r.out with
    | .rows rs => ("rows", showRows rs)
    | .failure row => ("fail", showRows [row])
    | .stuck => ("stuck", "_")
    | .oob => ("oob", "_")
    | .badBound => ("bad", "_")
  s!"res={kind} cycles={r.cycles} final={showRat r.finalMax} trace={"|".intercalate (r.trace.map showInfo)} rows={rows}"

def matrix? (s : String) : Option (List (List Rat)) := (sp s "|").mapM rlist?

def handle (op rest : String) : Option String :=
  match op, Proto.fields rest with
  | "odeS", hd :: ct :: s1 :: s2 :: cyc => do
      match toks hd with
      | [st, cd, steps, mx] =>
        let e := mkEnv (← (sp st ",").mapM v?) (← cd.toNat?) (← steps.toNat?) (← ctrlTab? ct)
          (← tab3? s1) (← tab3? s2) (← cyc.mapM cycle?)
        pure (showResult (runOde e (← rat? mx)))
      | _ => none
  | "odeC", [hd, rows, exp] => do
      match toks hd with
      | [st, cd, steps, lim] =>
        let start ← (sp st ",").mapM v?
        let cd ← cd.toNat?
        let steps ← steps.toNat?
        let lim ← rat? lim
        let rs ← (sp rows "|").mapM vlist?
        let ex ← (sp exp "|").mapM vlist?
        let tab := (rs.zip ex).map (fun p => (stateOf start.length p.1, timeOf p.1, p.2))
        let ctrl : List V → V → List V := fun s t =>
          match tab.find? (fun x => x.1 = s ∧ x.2.1 = t) with
          | some x => x.2.2
          | none => [.nan]
        let isf := match rs with
          | [r] => decide (IsFailureRow start cd r)
          | _ => false
        pure s!"good={decide (GoodRows start cd steps ctrl lim rs)} clause={goodRowsClause start cd steps ctrl lim rs} isfail={isf}"
      | _ => none
  | "odeJ", [hd, m] => do
      match toks hd with
      | [sd, use, g] =>
        let sd ← sd.toNat?
        let use ← use.toInt?
        let g ← rat? g
        let ode ← matrix? m
        let j := match jFromOde ode sd use g with
          | .val q => showRat q | .oob => "oob" | .err => "err" | .div0 => "div0"
        let useN : Nat := if use ≤ 0 then sd else use.toNat
        let ncols := (ode.headD []).length
        let size : Int := ((ode.length : Int) - 1) * ((ncols : Int) - 1 - sd + useN) - useN
        let fill := match jCompute ode sd useN g (List.replicate size.toNat none) with
          | some s => s!"idx={s.index} filled={s.dest.all Option.isSome}"
          | none => "idx=oob filled=false"
        pure s!"j={j} doc={showRat (docJ ode sd useN g)} t={match tFromOde ode with | some t => showRat t | none => "oob"} size={size} {fill}"
      | _ => none
  | "odeV", [vs] => do
      match ← vlist? vs with
      | [g, t1, t2] => pure s!"ok={sysOk g t1 t2}"
      | _ => none
  | "odeF", [evs] => do
      let s := FSt.init.evals (← evals? evs)
      pure s!"ok={s.isOk} maxOk={showV s.maxOk} minErr={showV s.minErr}"
  | _, _ => none
end Drv.C10
