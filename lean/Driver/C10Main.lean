import Driver.Loop
import Driver.C10
def main : IO Unit := Driver.runLoop [Drv.C10.handle]
