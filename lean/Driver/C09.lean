import Model.Proto
import Model.Qap
/-!
driver ops for C09

* `qapE flows ; dists ; x ; x ; …`   → `val=v,… spec=s,… perm=b,…`  (`v` = `OOB` for an access outside)
* `qapB dists ; flows`               → `lb= ub= lbZ= ubZ=`          (`trivial_bounds`, and the unbounded bounds)
* `qapI lb ub ; dists ; flows`       → instance line or `ERR`       (`lb`/`ub` = `-` for `None`)
* `qapP lb ub k ; [text]`            → instance line or `ERR`       (`k` lines, separated by `/`, `%XX` escapes)
* `qapV k ; [text]`                  → `vals=…` all values of the text in reading order (spec vocabulary) or `vals=none`
* `qapT [text]`                      → `toks=…`                     (tokens of one line, `|`-separated, `%XX` escapes)
-/
namespace Drv.C09
open Proto Qap

def optInt? (s : String) : Option (Option Int) :=
  if s = "-" then some none else s.toInt?.map some

def showInst (i : Inst) : String :=
  s!"n={i.n} lb={i.lb} ub={i.ub} dtype={i.dtype.name} dists={cMatrix i.dists} flows={cMatrix i.flows}"

def hexVal? (c : Char) : Option Nat :=
  if '0' ≤ c ∧ c ≤ '9' then some (c.toNat - 48)
  else if 'a' ≤ c ∧ c ≤ 'f' then some (c.toNat - 87)
  else if 'A' ≤ c ∧ c ≤ 'F' then some (c.toNat - 55) else none

/-- undo the `%XX` escapes of the harness -/
def unescape : List Char → Option (List Char)
  | [] => some []
  | '%' :: a :: b :: rest => do
      let h ← hexVal? a
      let l ← hexVal? b
      let r ← unescape rest
      pure (Char.ofNat (16 * h + l) :: r)
  | '%' :: _ => none
  | c :: rest => (unescape rest).map (c :: ·)

def splitLines (cs : List Char) : List (List Char) :=
  let r := cs.foldr (fun c (acc : List Char × List (List Char)) =>
      if c = '/' then ([], acc.1 :: acc.2) else (c :: acc.1, acc.2)) ([], [])
  r.1 :: r.2

/-- the text between the first `[` and the last `]` -/
def bracketed? (s : String) : Option (List Char) :=
  match s.toList.dropWhile (· ≠ '[') with
  | [] => none
  | _ :: r =>
    match r.reverse.dropWhile (· ≠ ']') with
    | [] => none
    | _ :: body => some body.reverse

def lines? (k : Nat) (s : String) : Option (List Line) := do
  let body ← bracketed? s
  if k = 0 then (if body.isEmpty then some [] else none) else
  let ls ← (splitLines body).mapM unescape
  if ls.length = k then some ls else none

def escTok (t : List Char) : String :=
  String.join (t.map fun c =>
    if c.isAlphanum || c = '+' || c = '-' || c = '_' || c = '.' then c.toString
    else
      let n := c.toNat
      let hex := fun (v : Nat) => (if v < 10 then Char.ofNat (48 + v) else Char.ofNat (87 + v)).toString
      "%" ++ hex (n / 16 % 16) ++ hex (n % 16))

def allNonneg (x : List Int) : Bool := x.all (0 ≤ ·)

def handle (op rest : String) : Option String :=
  match op with
  | "qapE" =>
    match fields rest with
    | fm :: dm :: xs => do
      let f ← matrix? fm
      let d ← matrix? dm
      let xs ← xs.mapM ints?
      let vals := xs.map fun x => match qapEval? f d x with | some v => toString v | none => "OOB"
      let specs := xs.map fun x =>
        if allNonneg x then toString (qapSpec f d (x.map Int.toNat)) else "-"
      let perms := xs.map fun x =>
        toString (allNonneg x && decide (IsPerm (x.map Int.toNat) f.length))
      pure s!"val={",".intercalate vals} spec={",".intercalate specs} perm={",".intercalate perms}"
    | _ => none
  | "qapB" =>
    match fields rest with
    | [dm, fm] => do
      let d ← matrix? dm
      let f ← matrix? fm
      let tb := trivialBounds d f
      pure s!"lb={tb.1} ub={tb.2} lbZ={lowerZ d f} ubZ={upperZ d f}"
    | _ => none
  | "qapI" =>
    match fields rest with
    | [hd, dm, fm] => do
      let d ← matrix? dm
      let f ← matrix? fm
      match words hd with
      | [l, u] => do
        let lb ← optInt? l
        let ub ← optInt? u
        pure (match mkQap d f lb ub with
          | some i => showInst i
          | none => "ERR")
      | _ => none
    | _ => none
  | "qapP" =>
    match rest.splitOn ";" with
    | hd :: body => do
      match words hd with
      | [l, u, k] => do
        let lb ← optInt? l
        let ub ← optInt? u
        let k ← k.toNat?
        let ls ← lines? k (";".intercalate body)
        pure (match fromQaplib ls lb ub with
          | some i => showInst i
          | none => "ERR")
      | _ => none
    | _ => none
  | "qapV" =>
    match rest.splitOn ";" with
    | hd :: body => do
      let k ← hd.trimAscii.toString.toNat?
      let ls ← lines? k (";".intercalate body)
      pure (match valsOf ls with
        | some vs => s!"vals={cInts vs}"
        | none => "vals=none")
    | _ => none
  | "qapT" => do
      let body ← bracketed? rest
      let l ← unescape body
      pure s!"toks={"|".intercalate ((tokens l).map escTok)}"
  | _ => none
end Drv.C09
