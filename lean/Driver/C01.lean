import Model.Proto
import Model.Ibl
/-!
driver ops for C01/C14:
  `dec1 W H ; items(w h rep | …) ; x ; y0 rows(|-separated, 6 ints each)`
  `dec2 W H ; items ; x ; y0 ; s0 ; e0`
  `feas W H ; items ; k ; rows`         (the feasibility specification alone)
output: `rows=… nbins=… feas=… valid=… sperm=…` or `OOB`
-/
namespace Drv.C01
open Proto Pack Ibl

def inst? (wh items : String) : Option Inst := do
  match ← ints? wh with
  | [W, H] =>
    let its ← (← matrix? items).mapM itemOfList
    pure ⟨W, H, its⟩
  | _ => none

def rows? (s : String) : Option (List Row) := do (← matrix? s).mapM rowOfList

def cRows (rows : List Row) : String := cMatrix (rows.map Row.toList)

def report (I : Inst) (x : List Int) (rows : List Row) (k : Int) : String :=
  s!"rows={cRows rows} nbins={k} feas={if k > rows.length then false else feasibleB I (rows.take x.length) k} valid={decide I.Valid} sperm={decide (SignedPermOf I x)}"

def handle (op rest : String) : Option String :=
  match op, fields rest with
  | "dec1", [wh, items, x, y0] => do
      let I ← inst? wh items
      let x ← ints? x
      let y0 ← rows? y0
      pure (match decode1? I x y0 with
        | some (rows, k) => report I x rows k
        | none => "OOB")
  | "dec2", [wh, items, x, y0, s0, e0] => do
      let I ← inst? wh items
      let x ← ints? x
      let y0 ← rows? y0
      let s0 ← ints? s0
      let e0 ← ints? e0
      pure (match decode2? I x y0 s0 e0 with
        | some (rows, k, _, _) => report I x rows k
        | none => "OOB")
  | "inst", [wh, items] => do
      let I ← inst? wh items
      pure s!"valid={decide I.Valid} dtype={(I.dtype?.map (·.name)).getD "none"} nitems={I.nItems} area={I.totalArea}"
  | "feas", [wh, items, k, rows] => do
      let I ← inst? wh items
      let rows ← rows? rows
      match ← ints? k with
      | [k] =>
        -- `Feasible` implies `k ≤ rows.length` (`Ibl.bins_le_rows`): guard the decision procedure, which
        -- materialises `List.range k`, against absurd bin counts of a broken implementation
        let f := if k > rows.length then false else feasibleB I rows k
        pure s!"feas={f} valid={decide I.Valid}"
      | _ => none
  | _, _ => none
end Drv.C01
