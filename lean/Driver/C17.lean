import Model.Proto
import Model.InstGen
/-! driver ops for C17:
`mt k m e`                                              `int(k * (m·2^e))` in binary64
`ispace lb ; W H ; w h rep | …`                          `InstanceSpace`, `max_errors`, `get_x_dim(0..2)`
`igen W H minBins nItems ; m e m e … ; perm ; w h rep | …`
      decode the vector, apply the index permutation `perm` as the shuffle; the last field is
      the *implementation's* instance, on which the specification `goodWith` is evaluated with the
      model's layout as packing witness
`ierr nd n W H k wmin wmax hmin hmax area ; W H ; w h rep | …`   `Errors.evaluate` -/
namespace Drv.C17
open Proto Pack InstGen

def dbls? : List Int → Option (List Dbl)
  | [] => some []
  | m :: e :: t => (dbls? t).map (fun r => ⟨m, e⟩ :: r)
  | _ => none

def items? (s : String) : Option (List Item) := do (← matrix? s).mapM itemOfList

def cItems (l : List Item) : String := cMatrix (l.map (fun it => [it.w, it.h, it.rep]))

/-- the shuffle as an explicit index permutation: `new[i] = old[perm[i]]` -/
def applyPerm (perm : List Nat) (l : List Item) : List Item :=
  if perm.length = l.length ∧ perm.all (· < l.length) then perm.map (fun i => l.getD i default) else l

def showSpace (sp : Space) : String :=
  let xd := fun (s : Int) => match xDim sp s with | some v => toString v | none => "ERR"
  let me := match maxErrors sp with | some v => toString v | none => "ERR"
  s!"name={sp.name} nd={sp.nDifferent} n={sp.nItems} W={sp.W} H={sp.H} k={sp.minBins} wmin={sp.wMin} wmax={sp.wMax} hmin={sp.hMin} hmax={sp.hMax} area={sp.totalArea} maxerr={me} xd0={xd 0} xd1={xd 1} xd2={xd 2}"

def handle (op rest : String) : Option String :=
  match op, fields rest with
  | "mt", [a] => do
      match ← ints? a with
      | [k, m, e] => pure (toString (truncMul k ⟨m, e⟩))
      | _ => none
  | "ispace", [a, b, c] => do
      match ← ints? a, ← ints? b with
      | [lb], [w, h] =>
        let its ← items? c
        pure (match mkSpace "t" ⟨w, h, its⟩ lb with
          | some sp => showSpace sp
          | none => "ERR")
      | _, _ => none
  | "igen", [a, b, c, d] => do
      match ← ints? a with
      | [w, h, k, n] =>
        let x ← dbls? (← ints? b)
        let perm ← nats? c
        let impl ← items? d
        let sp : Space := ⟨"t", 0, n, w, h, k, 0, 0, 0, 0, 0⟩
        pure (match decodeItems dblNum sp x with
          | none => "OOB"
          | some flat =>
            let merged := mergeItems (sortItems (flat.map PItem.wh))
            let fin := match mkInstance w h (applyPerm perm merged) with
              | some I => cItems I.items
              | none => "ERR"
            let J : Inst := ⟨w, h, impl⟩
            let own : Inst := ⟨w, h, merged⟩
            s!"merged={cItems merged} final={fin} n={own.nItems} area={own.totalArea} own={goodWith sp own (layoutRows own flat)} valid={decide J.Valid} needs={decide (NeedsBins J k)} geo={geoBound J} spec={goodWith sp J (layoutRows J flat)}")
      | _ => none
  | "ierr", [a, b, c] => do
      match ← ints? a, ← ints? b with
      | [nd, n, w, h, k, wmin, wmax, hmin, hmax, area], [iw, ih] =>
        let its ← items? c
        let sp : Space := ⟨"t", nd, n, w, h, k, wmin, wmax, hmin, hmax, area⟩
        let I : Inst := ⟨iw, ih, its⟩
        pure (match maxErrors sp, errorsCount sp I, errorsValue sp I with
          | some m, some e, some v => s!"e={e} m={m} num={v.num} den={v.den}"
          | _, _, _ => "ERR")
      | _, _ => none
  | _, _ => none
end Drv.C17
