import Model.Proto
import Model.LowerBound
/-! driver ops for C03

* `lb W H ; w h rep | w h rep …` → `valid= geo= damv= lb= nsq= ssum= ssq=` (`damv=ERR` where
  Python raises); with op `lbv` additionally `sq=` (the sorted square list) and `lq=` (the value
  of `__lb_q` for every `q` of the range);
* `lbq W H q ; l l l …` → `__lb_q` on an arbitrary (also unsorted) list: `v= s1= s2= s3= s4= rem=`;
* `cut w h rep` → `__cutsq` of one item, unsorted: `s=`;
* `feas W H k ; items ; id bin l b r t | …` → `valid= feas=` (the Lean specification
  `Pack.Feasible`, rotation allowed). -/
namespace Drv.C03
open Proto Pack Pack.LB

def parseInst (hd its : String) : Option (Inst × List Int) := do
  match ← ints? hd with
  | W :: H :: more =>
    let items ← (← matrix? its).mapM itemOfList
    pure (⟨W, H, items⟩, more)
  | _ => none

def lbLine (I : Inst) (verbose : Bool) : String :=
  let sq := cutsq I.items
  let raises := damvRaises I.W I.H
  let damv := lowerBoundDamv I.W I.H I.items
  let geoErr := I.H * I.W == 0
  let base := s!"valid={decide I.Valid} geo={if geoErr then "ERR" else toString I.lowerBoundGeo} " ++
    s!"damv={if raises then "ERR" else toString damv} " ++
    s!"lb={if raises || geoErr then "ERR" else toString I.lowerBoundBins} " ++
    s!"nsq={sq.length} ssum={sq.sum} ssq={(sq.map (fun l => l * l)).sum}"
  if verbose then
    let f := frame I.W I.H
    let lq := if raises then "ERR" else cInts ((qRange f.2).map (fun q => lbQ f.1 f.2 q sq))
    base ++ s!" sq={cInts sq} lq={lq}"
  else base

def handle (op rest : String) : Option String :=
  match op, fields rest with
  | "lb", [hd, its] => do
      let (I, _) ← parseInst hd its
      pure (lbLine I false)
  | "lbv", [hd, its] => do
      let (I, _) ← parseInst hd its
      pure (lbLine I true)
  | "lbq", [hd, ls] => do
      match ← ints? hd with
      | [W, H, q] =>
        let sq ← ints? ls
        if W == 0 || W / (H / 2 + 1) == 0 then pure "ERR" else
        let S := classify W H q sq
        pure (s!"v={lbQ W H q sq} s1={cInts S.s1} s2={cInts S.s2} s3={cInts S.s3} s4={cInts S.s4} " ++
              s!"rem={cInts (greedy W S.s2.reverse S.s3)}")
      | _ => none
  | "cut", [hd] => do
      match ← ints? hd with
      | [w, h, rep] => pure s!"s={cInts (cutItem ⟨w, h, rep⟩)}"
      | _ => none
  | "feas", [hd, its, rws] => do
      let (I, more) ← parseInst hd its
      match more with
      | [k] =>
        let rows ← (← matrix? rws).mapM rowOfList
        pure s!"valid={decide I.Valid} feas={feasibleB I rows k}"
      | _ => none
  | _, _ => none
end Drv.C03
