import Driver.Loop
import Driver.C09
def main : IO Unit := Driver.runLoop [Drv.C09.handle]
