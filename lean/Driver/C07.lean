import Model.Proto
import Model.TtpErrors
/-! driver ops for C07:
* `ttpE n rounds ; cfg | cfg … ; row | row … ; temp_1 garbage ; temp_2 garbage rows`
  → `inspace=… cons=… ub=… r=<per cfg: val,8 components,accepted,feasible,documented>/…`
* `ttp4 cfg | cfg … ; i0 i1 i2 i3 i4` → the 12 four-team double round-robin plans whose first
  five days are the consistent day assignments `i0…i4` (indices into `dayRows4`) and whose last
  day runs over all 12: `r=<val:feas,val:feas,…(per cfg)>/…(per last day)`
* `ttpRows` → the table `dayRows4` -/
namespace Drv.C07
open Proto TtpErrors

def b2s (b : Bool) : String := if b then "1" else "0"

def mkCfg : List Int → Option Cfg
  | [a, b, c, d, e, f] => some ⟨a, b, c, d, e, f⟩
  | _ => none

def showErrs (e : Errs) : String :=
  cInts [e.total, e.bye, e.incons, e.streakMax, e.streakMin, e.sepMin, e.sepMax, e.pairCount, e.balance]

/-- all 12 mutually consistent day assignments without byes for four teams:
3 pairings × 2 × 2 home/away choices -/
def dayRows4 : List (List Int) :=
  [(0, 1, 2, 3), (0, 2, 1, 3), (0, 3, 1, 2)].flatMap fun (a, b, c, d) =>
    [(true, true), (true, false), (false, true), (false, false)].map fun (h1, h2) =>
      let put (row : List Int) (x y : Nat) (h : Bool) : List Int :=
        if h then (row.set x ((y : Int) + 1)).set y (-((x : Int) + 1))
        else (row.set x (-((y : Int) + 1))).set y ((x : Int) + 1)
      put (put [0, 0, 0, 0] a b h1) c d h2

def clean1 (n : Nat) : List Int := List.replicate (n * (n - 1) / 2) 7
def clean2 (n : Nat) : List (List Int) := List.replicate n (List.replicate n (-3))

def handle (op rest : String) : Option String :=
  match op, fields rest with
  | "ttpE", [hd, cf, pl, g1, g2] => do
      let cfgs ← (← matrix? cf).mapM mkCfg
      let p ← matrix? pl
      let t1 ← ints? g1
      let t2 ← matrix? g2
      match ← nats? hd with
      | [n, rounds] =>
        let per := cfgs.map fun c =>
          match countErrs? n p c t1 t2 with
          | none => "OOB"
          | some e => s!"{showErrs e},{b2s (decide (c.Accepted n rounds))},{b2s (decide (FeasiblePlan n rounds c p))},{documentedCount n rounds c p}"
        pure s!"inspace={b2s (decide (InSpace n rounds p))} cons={b2s (decide (Consistent n p))} ub={upperBound n rounds} r={"/".intercalate per}"
      | _ => none
  | "ttp4", [cf, ix] => do
      let cfgs ← (← matrix? cf).mapM mkCfg
      let idx ← nats? ix
      let pre ← idx.mapM (dayRows4[·]?)
      let outs := dayRows4.map fun last =>
        let p := pre ++ [last]
        ",".intercalate (cfgs.map fun c =>
          match countErrors? 4 p c (clean1 4) (clean2 4) with
          | none => "OOB"
          | some v => s!"{v}:{b2s (decide (FeasiblePlan 4 2 c p))}")
      pure s!"r={"/".intercalate outs}"
  | "ttpRows", _ => some (cMatrix dayRows4)
  | _, _ => none
end Drv.C07
