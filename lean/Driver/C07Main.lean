import Driver.Loop
import Driver.C07
def main : IO Unit := Driver.runLoop [Drv.C07.handle]
