import Model.Proto
import Model.TspEa
/-! driver ops for C06 (see `harness/c06.py` for the line formats) -/
namespace Drv.C06
open Proto Tsp TspEa

def pairs : List Nat → Option (List (Nat × Nat))
  | [] => some []
  | a :: b :: r => (pairs r).map ((a, b) :: ·)
  | _ => none

def cTours (l : List (List Nat)) : String := "|".intercalate (l.map cNats)

/-- non-zero cells of the table as `k:v` -/
def cSparse (h : Array Int) : String :=
  ",".intercalate (((List.range h.size).filter (fun k => h.getD k 0 != 0)).map
    (fun k => s!"{k}:{h.getD k 0}"))

def tours? (s : String) : Option (List (List Nat)) :=
  ((s.splitOn "|").filter (fun r => r.trimAscii.toString ≠ "")).mapM nats?

def handle (op rest : String) : Option String :=
  match op, fields rest with
  | "rnw", [hd, m, xs] => do
      let d ← matrix? m
      let x ← nats? xs
      match ← ints? hd with
      | [i, j, n, y] =>
        if i < 0 ∨ j < 0 ∨ n < 0 then none else
        pure (match revIfNotWorse? i.toNat j.toNat n.toNat d x y with
          | some (x', y') => s!"x={cNats x'} y={y'}"
          | none => "OOB")
      | _ => none
  | "rhnw", [hd, m, xs, hs] => do
      let d ← matrix? m
      let x ← nats? xs
      let h ← ints? hs
      match ← ints? hd with
      | [i, j, n, y] =>
        if i < 0 ∨ j < 0 ∨ n < 0 then none else
        pure (match revIfHNotWorse? i.toNat j.toNat n.toNat d h.toArray x y with
          | some o => s!"x={cNats o.x} y={o.y} h={cInts o.h.toList} idx={o.idx1},{o.idx2}"
          | none => "OOB")
      | _ => none
  | "ea", [hd, m, xs, ms] => do
      let d ← matrix? m
      let x ← nats? xs
      let mv ← pairs (← nats? ms)
      match ← nats? hd with
      | [n] => pure (match eaSolve? n d x mv with
          | some tr => s!"k={tr.length} ys={cInts (tr.map (·.2))} xs={cTours (tr.map (·.1))}"
          | none => "OOB")
      | _ => none
  | "fea", [hd, m, xs, ms] => do
      let d ← matrix? m
      let x ← nats? xs
      let mv ← pairs (← nats? ms)
      match ← ints? hd with
      | [n, ub] =>
        if n < 0 then none else
        pure (match feaSolve? n.toNat d ub x mv with
          | some o => s!"k={o.trace.length} ys={cInts (o.trace.map (·.y))} xs={cTours (o.trace.map (·.x))} idx={cInts (o.trace.flatMap (fun r => [r.idx1, r.idx2]))} last={o.lastIdx} hlen={o.h.size} h={cSparse o.h}"
          | none => "OOB")
      | _ => none
  -- the specification evaluated on tours the implementation produced
  | "spec", [m, ts] => do
      let d ← matrix? m
      let t ← tours? ts
      pure s!"len={cInts (t.map (cyclicSum d))} perm={cNats (t.map (fun x => if isPermB x d.length then 1 else 0))} ub={sumFar d d.length} lb={sumNear d d.length} sym={isSymmetricB d d.length}"
  -- what the frequency table has to count: the length of the current tour and of the candidate
  -- (segment reversal, by the specification) for every non-skipped move
  | "fspec", [m, st, ts, ms] => do
      let d ← matrix? m
      let s ← nats? st
      let t ← tours? ts
      let mv ← pairs (← nats? ms)
      if t.length != mv.length then none else
      pure s!"start={cyclicSum d s} cur={cInts (t.map (cyclicSum d))} cand={cInts ((t.zip mv).map (fun (x, ij) => cyclicSum d (revSpec x ij.1 ij.2)))}"
  | "revspec", [hd, xs] => do
      let x ← nats? xs
      match ← nats? hd with
      | [i, j] => pure s!"x={cNats (revSpec x i j)}"
      | _ => none
  | _, _ => none
end Drv.C06
