import Model.Proto
import Model.IblSpec
import Driver.C01
/-!
driver ops for C14 (the SPECIFICATION side; the model ops `dec1`/`dec2`/`inst`/`feas` are those of
`Driver/C01.lean` and are served by the same executable):
  `nf W H ; items(w h rep | …) ; x`     documented result of encoding 1 (`IblSpec.nextFit`)
  `ff W H ; items ; x`                  documented result of encoding 2 (`IblSpec.firstFit`)
output: `rows=… nbins=… valid=… sperm=…` or `NOITEM` (an element of x is no item id)
-/
namespace Drv.C14
open Proto Pack IblSpec

def report (I : Inst) (x : List Int) : Option (List Row × Int) → String
  | some (rows, k) =>
    s!"rows={Drv.C01.cRows rows} nbins={k} valid={decide I.Valid} sperm={decide (SignedPermOf I x)}"
  | none => "NOITEM"

def handle (op rest : String) : Option String :=
  match op, fields rest with
  | "nf", [wh, items, x] => do
      let I ← Drv.C01.inst? wh items
      let x ← ints? x
      pure (report I x (nextFit I x))
  | "ff", [wh, items, x] => do
      let I ← Drv.C01.inst? wh items
      let x ← ints? x
      pure (report I x (firstFit I x))
  | _, _ => none
end Drv.C14
