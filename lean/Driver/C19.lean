import Model.Proto
import Model.Text
import Model.TextCsv
/-!
driver ops for C19 (part 1).  Strings travel as comma-separated Unicode code points (`cps`).

* `txtI  name-cps ; W H ; w h r w h r …`   → `ERR` (constructor rejects) or
      `s=<cps of to_compact_str> back=<1|0> nd= nitems= area= dtype= geo=`
      (`back` = does the model's reader return the very same object)
* `txtIp cps`                              → `ERR` or `name=<cps> W= H= items=w,h,r|… nd= nitems= area= dtype= geo=`
* `txtG  n rounds ; team-cps | team-cps … ; flat plan values`  → `OOB` or `s=<cps> ok=<PlanOk> back=<1|0>`
* `txtGp n rounds ; cps`                   → `ERR` or `vals=…`
* `txtO  n ; perm ; tail-cps`              → `s=<cps> ok=<OrdOk> back=<1|0>`
* `txtOp n ; cps`                          → `ERR` or `vals=…`
* `txtP  dtype ; values`                   → `s=<cps of ";".join>  back=<1|0>` (`np.fromstring` reads the values back)
* `csvR  T|T|… ; REC ; REC …`              → `hdr=T|T|… rows=ROW/ROW… read=RECS` (`read=ERR` if the model's reader rejects)
      `T` = `c<cps>` (a title of the embedded end-result writer), `REC` = `c<cps>|c<cps>… / c<objective> / bestF / n d w h / MAP / MAP / MAP`
      (cells of the embedded writer; objectives, objective bounds, bin bounds), `MAP` = `c<cps>=int|…`,
      `ROW` = `c<cps>|…`, `RECS` = records separated by `~`, each `k=v|…/n,d,w,h/MAP/MAP/MAP` (maps sorted by key)
* `csvRp T|T|… ; ROW ; ROW …`              → `read=RECS` or `read=ERR`   (the model's reader on an arbitrary table)
* `csvS  T|T|… ; SREC ; SREC …`            → `WERR` or `hdr=… rows=… gen2=<hdr>!<rows>` (`gen2` = the table the model writes from
      what its reader returned; `gen2=ERR` if the reader rejects, `gen2=WERR` if the second write fails)
      `SREC` = `cells / c<objective> / n d w h / SS|SS… / MAP / MAP`, `SS` = `c<name>:c<n cell>:c<use-key>=c<cell>&…`
      (use-key `c` = the scope itself)
* `csvSp T|T|… ; ROW ; ROW …`              → `gen2=…`
-/
namespace Drv.C19
open Proto Text Base Pack

def cps? (s : String) : Option Str := (nats? s).map (·.map Char.ofNat)
def showCps (s : Str) : String := ",".intercalate (s.map (fun c => toString c.toNat))

def items? : List Int → Option (List Item)
  | [] => some []
  | w :: h :: r :: rest => (items? rest).map (⟨w, h, r⟩ :: ·)
  | _ => none

def dtName (d : Option DType) : String := match d with | some t => t.name | none => "none"

def showDerived (I : NInst) : String :=
  s!"nd={I.inst.nTypes} nitems={I.inst.nItems} area={I.inst.totalArea} dtype={dtName I.inst.dtype?} geo={geoBound I.inst}"

def showItems (l : List Item) : String :=
  "|".intercalate (l.map fun it => s!"{it.w},{it.h},{it.rep}")

def dtypeOfName? (s : String) : Option DType := DType.all.find? (·.name = s)

/-! ### CSV: the embedded end-result codec of the driver is the identity on (title, cell) lists -/
open Csv

structure DrvER where
  cells : List (Str × Str)
  objective : Str
  bestF : Int
  deriving DecidableEq

/-- the titles of moptipy's `EndResult` CSV reader (mandatory and optional), in the writer's order -/
def erKeys : List Str := ["algorithm", "instance", "objective", "encoding", "randSeed", "bestF",
  "lastImprovementFE", "lastImprovementTimeMillis", "totalFEs", "totalTimeMillis", "goalF", "maxFEs",
  "maxTimeMillis"].map String.toList

def drvCodec : Codec DrvER where
  titles data := match data with
    | [] => []
    | r :: _ => r.cells.map (·.1)
  row _ r := r.cells.map (·.2)
  keys := erKeys
  read f :=
    match f "objective".toList, (f "bestF".toList).bind parseInt? with
    | some o, some b => some ⟨erKeys.filterMap (fun k => (f k).map (fun c => (k, c))), o, b⟩
    | _, _ => none

def drvView : ErView DrvER := ⟨(·.objective), (·.bestF)⟩

/-- `c<cps>` -/
def cell? (s : String) : Option Str :=
  match s.trimAscii.toString.toList with
  | 'c' :: r => cps? (String.ofList r)
  | _ => none
def showCell (s : Str) : String := "c" ++ showCps s

def cells? (s : String) : Option (List Str) :=
  if s.trimAscii.toString = "" then some [] else (s.splitOn "|").mapM cell?

def map? (s : String) : Option (List (Str × Int)) :=
  if s.trimAscii.toString = "" then some [] else
  (s.splitOn "|").mapM (fun kv => match kv.splitOn "=" with
    | [k, v] => do pure ((← cell? k), (← v.trimAscii.toString.toInt?))
    | _ => none)

def rec? (titles : List Str) (s : String) : Option (PRec DrvER) :=
  match s.splitOn "/" with
  | [cs, o, bf, nums, m1, m2, m3] => do
      let cells ← cells? cs
      if cells.length ≠ titles.length then none else
      match ← ints? nums with
      | [n, d, w, h] =>
        pure ⟨⟨titles.zip cells, ← cell? o, ← bf.trimAscii.toString.toInt?⟩, n, d, w, h, ← map? m1, ← map? m2, ← map? m3⟩
      | _ => none
  | _ => none

def showMap (m : List (Str × Int)) : String := "|".intercalate (m.map (fun p => s!"{showCell p.1}={p.2}"))
def showRec (r : PRec DrvER) : String :=
  "|".intercalate (r.er.cells.map (fun p => s!"{showCell p.1}={showCell p.2}")) ++
  s!"/{r.nItems},{r.nDiff},{r.binW},{r.binH}/{showMap r.objectives}/{showMap r.objBounds}/{showMap r.binBounds}"
def showRead (o : Option (List (PRec DrvER))) : String :=
  match o with
  | none => "read=ERR"
  | some rs => "read=" ++ "~".intercalate (rs.map showRec)
def showRow (r : List Str) : String := "|".intercalate (r.map showCell)

/-! ### statistics: identity codecs on (title, cell) / (use-key, cell) lists -/

structure DrvSS where
  cells : List (Str × Str)
  n : Str
  deriving DecidableEq

structure DrvES where
  cells : List (Str × Str)
  objective : Str
  deriving DecidableEq

def ssUseKeys : List Str := ["", "min", "mean", "med", "geom", "max", "sd"].map String.toList

def DrvSS.get (s : DrvSS) (k : String) : Option Int := (s.cells.lookup k.toList).bind parseInt?
def DrvSS.mn (s : DrvSS) : Int := ((s.get "").orElse (fun _ => s.get "min")).getD 0
def DrvSS.mx (s : DrvSS) : Int := ((s.get "").orElse (fun _ => s.get "max")).getD 0

def drvSsCodec : SsCodec DrvSS where
  titles scope data := match data with
    | [] => []
    | s :: _ => s.cells.map (fun p => if p.1 = [] then scope else scopeKey scope p.1)
  row _ _ s := s.cells.map (·.2)
  read scope f :=
    match f kN with
    | none => none
    | some n => some ⟨ssUseKeys.filterMap (fun k => (f (if k = [] then scope else k)).map (fun c => (k, c))), n⟩
  nCell s := s.n

/-- titles of moptipy's `EndStatistics` reader (a superset is harmless for the model: every title it may ask for) -/
def esKeys : List Str :=
  (["algorithm", "instance", "objective", "encoding", "n", "goalF", "maxFEs", "maxTimeMillis", "successN",
    "ertFEs", "ertTimeMillis"] ++
   (["bestF", "lastImprovementFE", "lastImprovementTimeMillis", "totalFEs", "totalTimeMillis", "bestFscaled",
     "successFEs", "successTimeMillis"].flatMap
      (fun b => [b, b ++ ".min", b ++ ".mean", b ++ ".med", b ++ ".geom", b ++ ".max", b ++ ".sd"]))).map String.toList

def drvEsCodec : Codec DrvES where
  titles data := match data with
    | [] => []
    | r :: _ => r.cells.map (·.1)
  row _ r := r.cells.map (·.2)
  keys := esKeys
  read f :=
    match f "objective".toList with
    | some o => some ⟨esKeys.filterMap (fun k => (f k).map (fun c => (k, c))), o⟩
    | none => none

def DrvES.cell (e : DrvES) (k : String) : Option Int := (e.cells.lookup k.toList).bind parseInt?
def DrvES.bestMin (e : DrvES) : Option Int := (e.cell "bestF").orElse (fun _ => e.cell "bestF.min")
def DrvES.bestMax (e : DrvES) : Option Int := (e.cell "bestF").orElse (fun _ => e.cell "bestF.max")

def drvEsView : EsView DrvES DrvSS where
  objective e := e.objective
  bestIs e s := decide (e.bestMin = some s.mn) && decide (e.bestMax = some s.mx) &&
    decide (e.cells.lookup kN = some s.n)
  ssMin := DrvSS.mn
  ssMax := DrvSS.mx

def ss? (s : String) : Option (Str × DrvSS) :=
  match s.splitOn ":" with
  | [nm, n, kvs] => do
      let cells ← if kvs.trimAscii.toString = "" then some [] else
        (kvs.splitOn "&").mapM (fun kv => match kv.splitOn "=" with
          | [k, v] => do pure ((← cell? k), (← cell? v))
          | _ => none)
      pure ((← cell? nm), ⟨cells, ← cell? n⟩)
  | _ => none

def srec? (titles : List Str) (s : String) : Option (PSRec DrvES DrvSS) :=
  match s.splitOn "/" with
  | [cs, o, nums, sss, m2, m3] => do
      let cells ← cells? cs
      if cells.length ≠ titles.length then none else
      let objs ← if sss.trimAscii.toString = "" then some [] else (sss.splitOn "|").mapM ss?
      match ← ints? nums with
      | [n, d, w, h] => pure ⟨⟨titles.zip cells, ← cell? o⟩, n, d, w, h, objs, ← map? m2, ← map? m3⟩
      | _ => none
  | _ => none

def showTable (t : Table) : String := s!"{showRow t.header}!{"/".intercalate (t.rows.map showRow)}"

def gen2 (t : Table) : String :=
  match psRead drvEsCodec drvSsCodec drvEsView t with
  | none => "gen2=ERR"
  | some rs => match psWrite drvEsCodec drvSsCodec rs with
    | none => "gen2=WERR"
    | some t2 => "gen2=" ++ showTable t2

def handle (op rest : String) : Option String :=
  match op, fields rest with
  | "txtI", [nm, wh, its] => do
      let name ← cps? nm
      let items ← items? (← ints? its)
      match ← ints? wh with
      | [W, H] => pure (match mkInst nameOkB name W H items with
          | none => "ERR"
          | some I =>
            let s := toCompactStr I
            let back := decide (fromCompactStr nameOkB s = some I)
            s!"s={showCps s} back={if back then 1 else 0} {showDerived I}")
      | _ => none
  | "txtIp", [t] => do
      let s ← cps? t
      pure (match fromCompactStr nameOkB s with
        | none => "ERR"
        | some I => s!"name={showCps I.name} W={I.inst.W} H={I.inst.H} items={showItems I.inst.items} {showDerived I}")
  | "txtG", [hd, tm, pl] => do
      let teams ← ((tm.splitOn "|").filter (fun r => r.trimAscii.toString ≠ "")).mapM cps?
      let vals ← ints? pl
      match ← nats? hd with
      | [n, rounds] =>
        let P := chunk n (if n = 0 then 0 else vals.length / n) vals
        pure (match planToStr teams P with
          | none => "OOB"
          | some s =>
            let ok := decide (PlanOk n rounds P)
            let back := match dtypeFor (-(n : Int)) n with
              | some dt => decide (planFromStr n rounds dt s = some P)
              | none => false
            s!"s={showCps s} ok={if ok then 1 else 0} back={if back then 1 else 0}")
      | _ => none
  | "txtGp", [hd, t] => do
      let s ← cps? t
      match ← nats? hd with
      | [n, rounds] => pure (match dtypeFor (-(n : Int)) n with
          | none => "ERR"
          | some dt => match planFromStr n rounds dt s with
            | none => "ERR"
            | some P => s!"vals={cInts P.flatten}")
      | _ => none
  | "txtO", [hd, xs, tl] => do
      let x ← ints? xs
      let tail ← cps? tl
      match ← nats? hd with
      | [n] =>
        let s := ordToStr x tail
        let ok := decide (OrdOk n x)
        let back := match dtypeFor 0 ((n : Int) - 1) with
          | some dt => decide (ordFromStr n dt s = some x)
          | none => false
        pure s!"s={showCps s} ok={if ok then 1 else 0} back={if back then 1 else 0}"
      | _ => none
  | "txtOp", [hd, t] => do
      let s ← cps? t
      match ← nats? hd with
      | [n] => pure (match dtypeFor 0 ((n : Int) - 1) with
          | none => "ERR"
          | some dt => match ordFromStr n dt s with
            | none => "ERR"
            | some x => s!"vals={cInts x}")
      | _ => none
  | "txtP", [d, vs] => do
      let dt ← dtypeOfName? d
      let vals ← ints? vs
      let s := joinSep ';' (vals.map showInt)
      let back := decide (fromstring dt s = some vals)
      pure s!"s={showCps s} back={if back then 1 else 0}"
  | "csvR", ts :: recs => do
      let titles ← cells? ts
      let rs ← recs.mapM (rec? titles)
      pure (match prWrite drvCodec rs with
        | none => "WERR"
        | some t => s!"hdr={showRow t.header} rows={"/".intercalate (t.rows.map showRow)} {showRead (prRead drvCodec drvView t)}")
  | "csvRp", ts :: rows => do
      let header ← cells? ts
      let rws ← rows.mapM cells?
      pure (showRead (prRead drvCodec drvView ⟨header, rws⟩))
  | "csvS", ts :: recs => do
      let titles ← cells? ts
      let rs ← recs.mapM (srec? titles)
      pure (match psWrite drvEsCodec drvSsCodec rs with
        | none => "WERR"
        | some t => s!"hdr={showRow t.header} rows={"/".intercalate (t.rows.map showRow)} {gen2 t}")
  | "csvSp", ts :: rows => do
      let header ← cells? ts
      let rws ← rows.mapM cells?
      pure (gen2 ⟨header, rws⟩)
  | _, _ => none
end Drv.C19
