import Model.Proto
import Model.Text
/-!
driver ops for C19 (part 1).  Strings travel as comma-separated Unicode code points (`cps`).

* `txtI  name-cps ; W H ; w h r w h r …`   → `ERR` (constructor rejects) or
      `s=<cps of to_compact_str> back=<1|0> nd= nitems= area= dtype= geo=`
      (`back` = does the model's reader return the very same object)
* `txtIp cps`                              → `ERR` or `name=<cps> W= H= items=w,h,r|… nd= nitems= area= dtype= geo=`
* `txtG  n rounds ; team-cps | team-cps … ; flat plan values`  → `OOB` or `s=<cps> ok=<PlanOk> back=<1|0>`
* `txtGp n rounds ; cps`                   → `ERR` or `vals=…`
* `txtO  n ; perm ; tail-cps`              → `s=<cps> ok=<OrdOk> back=<1|0>`
* `txtOp n ; cps`                          → `ERR` or `vals=…`
* `txtP  dtype ; values`                   → `s=<cps of ";".join>  back=<1|0>` (`np.fromstring` reads the values back)
-/
namespace Drv.C19
open Proto Text Base Pack

def cps? (s : String) : Option Str := (nats? s).map (·.map Char.ofNat)
def showCps (s : Str) : String := ",".intercalate (s.map (fun c => toString c.toNat))

def items? : List Int → Option (List Item)
  | [] => some []
  | w :: h :: r :: rest => (items? rest).map (⟨w, h, r⟩ :: ·)
  | _ => none

def dtName (d : Option DType) : String := match d with | some t => t.name | none => "none"

def showDerived (I : NInst) : String :=
  s!"nd={I.inst.nTypes} nitems={I.inst.nItems} area={I.inst.totalArea} dtype={dtName I.inst.dtype?} geo={geoBound I.inst}"

def showItems (l : List Item) : String :=
  "|".intercalate (l.map fun it => s!"{it.w},{it.h},{it.rep}")

def dtypeOfName? (s : String) : Option DType := DType.all.find? (·.name = s)

def handle (op rest : String) : Option String :=
  match op, fields rest with
  | "txtI", [nm, wh, its] => do
      let name ← cps? nm
      let items ← items? (← ints? its)
      match ← ints? wh with
      | [W, H] => pure (match mkInst nameOkB name W H items with
          | none => "ERR"
          | some I =>
            let s := toCompactStr I
            let back := decide (fromCompactStr nameOkB s = some I)
            s!"s={showCps s} back={if back then 1 else 0} {showDerived I}")
      | _ => none
  | "txtIp", [t] => do
      let s ← cps? t
      pure (match fromCompactStr nameOkB s with
        | none => "ERR"
        | some I => s!"name={showCps I.name} W={I.inst.W} H={I.inst.H} items={showItems I.inst.items} {showDerived I}")
  | "txtG", [hd, tm, pl] => do
      let teams ← ((tm.splitOn "|").filter (fun r => r.trimAscii.toString ≠ "")).mapM cps?
      let vals ← ints? pl
      match ← nats? hd with
      | [n, rounds] =>
        let P := chunk n (if n = 0 then 0 else vals.length / n) vals
        pure (match planToStr teams P with
          | none => "OOB"
          | some s =>
            let ok := decide (PlanOk n rounds P)
            let back := match dtypeFor (-(n : Int)) n with
              | some dt => decide (planFromStr n rounds dt s = some P)
              | none => false
            s!"s={showCps s} ok={if ok then 1 else 0} back={if back then 1 else 0}")
      | _ => none
  | "txtGp", [hd, t] => do
      let s ← cps? t
      match ← nats? hd with
      | [n, rounds] => pure (match dtypeFor (-(n : Int)) n with
          | none => "ERR"
          | some dt => match planFromStr n rounds dt s with
            | none => "ERR"
            | some P => s!"vals={cInts P.flatten}")
      | _ => none
  | "txtO", [hd, xs, tl] => do
      let x ← ints? xs
      let tail ← cps? tl
      match ← nats? hd with
      | [n] =>
        let s := ordToStr x tail
        let ok := decide (OrdOk n x)
        let back := match dtypeFor 0 ((n : Int) - 1) with
          | some dt => decide (ordFromStr n dt s = some x)
          | none => false
        pure s!"s={showCps s} ok={if ok then 1 else 0} back={if back then 1 else 0}"
      | _ => none
  | "txtOp", [hd, t] => do
      let s ← cps? t
      match ← nats? hd with
      | [n] => pure (match dtypeFor 0 ((n : Int) - 1) with
          | none => "ERR"
          | some dt => match ordFromStr n dt s with
            | none => "ERR"
            | some x => s!"vals={cInts x}")
      | _ => none
  | "txtP", [d, vs] => do
      let dt ← dtypeOfName? d
      let vals ← ints? vs
      let s := joinSep ';' (vals.map showInt)
      let back := decide (fromstring dt s = some vals)
      pure s!"s={showCps s} back={if back then 1 else 0}"
  | _, _ => none
end Drv.C19
