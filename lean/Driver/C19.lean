import Model.Proto
import Model.Text
import Model.TextCsv
/-!
driver ops for C19 (part 1).  Strings travel as comma-separated Unicode code points (`cps`).

* `txtI  name-cps ; W H ; w h r w h r …`   → `ERR` (constructor rejects) or
      `s=<cps of to_compact_str> back=<1|0> nd= nitems= area= dtype= geo=`
      (`back` = does the model's reader return the very same object)
* `txtIp cps`                              → `ERR` or `name=<cps> W= H= items=w,h,r|… nd= nitems= area= dtype= geo=`
* `txtG  n rounds ; team-cps | team-cps … ; flat plan values`  → `OOB` or `s=<cps> ok=<PlanOk> back=<1|0>`
* `txtGp n rounds ; cps`                   → `ERR` or `vals=…`
* `txtO  n ; perm ; tail-cps`              → `s=<cps> ok=<OrdOk> back=<1|0>`
* `txtOp n ; cps`                          → `ERR` or `vals=…`
* `txtP  dtype ; values`                   → `s=<cps of ";".join>  back=<1|0>` (`np.fromstring` reads the values back)
* `csvR  T|T|… ; REC ; REC …`              → `hdr=T|T|… rows=ROW/ROW… read=RECS` (`read=ERR` if the model's reader rejects)
      `T` = `c<cps>` (a title of the embedded end-result writer), `REC` = `c<cps>|c<cps>… / c<objective> / bestF / n d w h / MAP / MAP / MAP`
      (cells of the embedded writer; objectives, objective bounds, bin bounds), `MAP` = `c<cps>=int|…`,
      `ROW` = `c<cps>|…`, `RECS` = records separated by `~`, each `k=v|…/n,d,w,h/MAP/MAP/MAP` (maps sorted by key)
* `csvRp T|T|… ; ROW ; ROW …`              → `read=RECS` or `read=ERR`   (the model's reader on an arbitrary table)
-/
namespace Drv.C19
open Proto Text Base Pack

def cps? (s : String) : Option Str := (nats? s).map (·.map Char.ofNat)
def showCps (s : Str) : String := ",".intercalate (s.map (fun c => toString c.toNat))

def items? : List Int → Option (List Item)
  | [] => some []
  | w :: h :: r :: rest => (items? rest).map (⟨w, h, r⟩ :: ·)
  | _ => none

def dtName (d : Option DType) : String := match d with | some t => t.name | none => "none"

def showDerived (I : NInst) : String :=
  s!"nd={I.inst.nTypes} nitems={I.inst.nItems} area={I.inst.totalArea} dtype={dtName I.inst.dtype?} geo={geoBound I.inst}"

def showItems (l : List Item) : String :=
  "|".intercalate (l.map fun it => s!"{it.w},{it.h},{it.rep}")

def dtypeOfName? (s : String) : Option DType := DType.all.find? (·.name = s)

/-! ### CSV: the embedded end-result codec of the driver is the identity on (title, cell) lists -/
open Csv

structure DrvER where
  cells : List (Str × Str)
  objective : Str
  bestF : Int
  deriving DecidableEq

/-- the titles of moptipy's `EndResult` CSV reader (mandatory and optional), in the writer's order -/
def erKeys : List Str := ["algorithm", "instance", "objective", "encoding", "randSeed", "bestF",
  "lastImprovementFE", "lastImprovementTimeMillis", "totalFEs", "totalTimeMillis", "goalF", "maxFEs",
  "maxTimeMillis"].map String.toList

def drvCodec : Codec DrvER where
  titles data := match data with
    | [] => []
    | r :: _ => r.cells.map (·.1)
  row _ r := r.cells.map (·.2)
  keys := erKeys
  read f :=
    match f "objective".toList, (f "bestF".toList).bind parseInt? with
    | some o, some b => some ⟨erKeys.filterMap (fun k => (f k).map (fun c => (k, c))), o, b⟩
    | _, _ => none

def drvView : ErView DrvER := ⟨(·.objective), (·.bestF)⟩

/-- `c<cps>` -/
def cell? (s : String) : Option Str :=
  match s.trimAscii.toString.toList with
  | 'c' :: r => cps? (String.ofList r)
  | _ => none
def showCell (s : Str) : String := "c" ++ showCps s

def cells? (s : String) : Option (List Str) :=
  if s.trimAscii.toString = "" then some [] else (s.splitOn "|").mapM cell?

def map? (s : String) : Option (List (Str × Int)) :=
  if s.trimAscii.toString = "" then some [] else
  (s.splitOn "|").mapM (fun kv => match kv.splitOn "=" with
    | [k, v] => do pure ((← cell? k), (← v.trimAscii.toString.toInt?))
    | _ => none)

def rec? (titles : List Str) (s : String) : Option (PRec DrvER) :=
  match s.splitOn "/" with
  | [cs, o, bf, nums, m1, m2, m3] => do
      let cells ← cells? cs
      if cells.length ≠ titles.length then none else
      match ← ints? nums with
      | [n, d, w, h] =>
        pure ⟨⟨titles.zip cells, ← cell? o, ← bf.trimAscii.toString.toInt?⟩, n, d, w, h, ← map? m1, ← map? m2, ← map? m3⟩
      | _ => none
  | _ => none

def showMap (m : List (Str × Int)) : String := "|".intercalate (m.map (fun p => s!"{showCell p.1}={p.2}"))
def showRec (r : PRec DrvER) : String :=
  "|".intercalate (r.er.cells.map (fun p => s!"{showCell p.1}={showCell p.2}")) ++
  s!"/{r.nItems},{r.nDiff},{r.binW},{r.binH}/{showMap r.objectives}/{showMap r.objBounds}/{showMap r.binBounds}"
def showRead (o : Option (List (PRec DrvER))) : String :=
  match o with
  | none => "read=ERR"
  | some rs => "read=" ++ "~".intercalate (rs.map showRec)
def showRow (r : List Str) : String := "|".intercalate (r.map showCell)

def handle (op rest : String) : Option String :=
  match op, fields rest with
  | "txtI", [nm, wh, its] => do
      let name ← cps? nm
      let items ← items? (← ints? its)
      match ← ints? wh with
      | [W, H] => pure (match mkInst nameOkB name W H items with
          | none => "ERR"
          | some I =>
            let s := toCompactStr I
            let back := decide (fromCompactStr nameOkB s = some I)
            s!"s={showCps s} back={if back then 1 else 0} {showDerived I}")
      | _ => none
  | "txtIp", [t] => do
      let s ← cps? t
      pure (match fromCompactStr nameOkB s with
        | none => "ERR"
        | some I => s!"name={showCps I.name} W={I.inst.W} H={I.inst.H} items={showItems I.inst.items} {showDerived I}")
  | "txtG", [hd, tm, pl] => do
      let teams ← ((tm.splitOn "|").filter (fun r => r.trimAscii.toString ≠ "")).mapM cps?
      let vals ← ints? pl
      match ← nats? hd with
      | [n, rounds] =>
        let P := chunk n (if n = 0 then 0 else vals.length / n) vals
        pure (match planToStr teams P with
          | none => "OOB"
          | some s =>
            let ok := decide (PlanOk n rounds P)
            let back := match dtypeFor (-(n : Int)) n with
              | some dt => decide (planFromStr n rounds dt s = some P)
              | none => false
            s!"s={showCps s} ok={if ok then 1 else 0} back={if back then 1 else 0}")
      | _ => none
  | "txtGp", [hd, t] => do
      let s ← cps? t
      match ← nats? hd with
      | [n, rounds] => pure (match dtypeFor (-(n : Int)) n with
          | none => "ERR"
          | some dt => match planFromStr n rounds dt s with
            | none => "ERR"
            | some P => s!"vals={cInts P.flatten}")
      | _ => none
  | "txtO", [hd, xs, tl] => do
      let x ← ints? xs
      let tail ← cps? tl
      match ← nats? hd with
      | [n] =>
        let s := ordToStr x tail
        let ok := decide (OrdOk n x)
        let back := match dtypeFor 0 ((n : Int) - 1) with
          | some dt => decide (ordFromStr n dt s = some x)
          | none => false
        pure s!"s={showCps s} ok={if ok then 1 else 0} back={if back then 1 else 0}"
      | _ => none
  | "txtOp", [hd, t] => do
      let s ← cps? t
      match ← nats? hd with
      | [n] => pure (match dtypeFor 0 ((n : Int) - 1) with
          | none => "ERR"
          | some dt => match ordFromStr n dt s with
            | none => "ERR"
            | some x => s!"vals={cInts x}")
      | _ => none
  | "txtP", [d, vs] => do
      let dt ← dtypeOfName? d
      let vals ← ints? vs
      let s := joinSep ';' (vals.map showInt)
      let back := decide (fromstring dt s = some vals)
      pure s!"s={showCps s} back={if back then 1 else 0}"
  | "csvR", ts :: recs => do
      let titles ← cells? ts
      let rs ← recs.mapM (rec? titles)
      pure (match prWrite drvCodec rs with
        | none => "WERR"
        | some t => s!"hdr={showRow t.header} rows={"/".intercalate (t.rows.map showRow)} {showRead (prRead drvCodec drvView t)}")
  | "csvRp", ts :: rows => do
      let header ← cells? ts
      let rws ← rows.mapM cells?
      pure (showRead (prRead drvCodec drvView ⟨header, rws⟩))
  | _, _ => none
end Drv.C19
