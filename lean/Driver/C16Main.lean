import Driver.Loop
import Driver.C16
def main : IO Unit := Driver.runLoop [Drv.C16.handle]
