import Driver.Loop
import Driver.C20
def main : IO Unit := Driver.runLoop [Drv.C20.handle]
