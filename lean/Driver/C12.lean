/-! C12 has no model driver of its own: its oracles are the drivers of C01, C02, C05, C07, C08, C09
(see `harness/c12.py`).  This stub only exists so that the exe target `drv_c12` builds. -/
namespace Drv.C12

def handle (_op _rest : String) : Option String := none

end Drv.C12
