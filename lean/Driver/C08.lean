import Model.Proto
import Model.TtpLength
/-!
driver ops for C08
* `ttpL n pen ; matrix ; plan`        kernel value (or `OOB`), documented walk length, space membership of rows
* `ttpB n pen ; matrix ; plan`        kernel value and the value of the plan with `(day, team)` replaced by a bye,
                                      for every position row-major (documented walk length of each as `specbyes`)
* `ttpI rounds hmin hmax amin amax smin smax ; matrix`   constructor + `GamePlanLength` penalty and bounds
-/
namespace Drv.C08
open Proto Tsp TtpLength

def rowsOk (y : Plan) (n : Nat) : Bool :=
  decide (∀ r ∈ y, r.length = n ∧ ∀ v ∈ r, -(n : Int) ≤ v ∧ v ≤ n)

def positions (y : Plan) (n : Nat) : List (Nat × Nat) :=
  (List.range y.length).flatMap fun day => (List.range n).map fun team => (day, team)

def handle (op rest : String) : Option String :=
  match op, fields rest with
  | "ttpL", [hd, m, p] => do
      let d ← matrix? m
      let y ← matrix? p
      match ← ints? hd with
      | [n, pen] =>
        let n := n.toNat
        pure s!"val={showOpt toString (planLength? y n d pen)} spec={walkLength y n d pen} rows={rowsOk y n}"
      | _ => none
  | "ttpB", [hd, m, p] => do
      let d ← matrix? m
      let y ← matrix? p
      match ← ints? hd with
      | [n, pen] =>
        let n := n.toNat
        let ps := positions y n
        let vals := ps.map fun (day, team) => showOpt toString (planLength? (setBye y day team) n d pen)
        let specs := ps.map fun (day, team) => walkLength (setBye y day team) n d pen
        pure s!"val={showOpt toString (planLength? y n d pen)} byes={",".intercalate vals} specbyes={cInts specs}"
      | _ => none
  | "ttpI", [hd, m] => do
      let d ← matrix? m
      match ← ints? hd with
      | [r, a, b, c, e, f, g] =>
        pure (match mkTtp d ⟨r, a, b, c, e, f, g⟩ with
          | some i =>
            let pen := byePenalty i.maxD
            s!"n={i.n} rounds={i.rounds} max={i.maxD} pen={pen} lower={lowerBound} upper={upperBound i.n i.rounds pen} pdtype={i.planDtype.name} dtype={i.tsp.dtype.name}"
          | none => "ERR")
      | _ => none
  | _, _ => none
end Drv.C08
