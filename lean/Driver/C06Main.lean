import Driver.Loop
import Driver.C06
def main : IO Unit := Driver.runLoop [Drv.C06.handle]
