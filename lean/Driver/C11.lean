import Model.Proto
import Model.Fom
/-!
driver ops for C11 (`harness/c11.py`):

`fom le sup n ; garbage codes ; case tables ; agg table ; ops`
  * case tables: `|`-separated rows `e x  J0 L0 r0  J1 L1 r1 …` (codes of `J`, of `log1p(J)`,
    rows of the batch, for every training case)
  * agg table: `|`-separated rows `out v0 v1 …` (`sum_up_results([v0, v1, …]) = out`)
  * ops: `E<x>` evaluate, `I` initialize, `R` set_raw, `M<m>` set_model, `G` get_differentials
Output: one token per op, `model/spec`: the output of the object model and of the documented
machine (`=` when textually identical).  `v<code>` value, `ok`, `ERR`, `OOB`,
`d<rows>:<e.x.i,…>` data; `v<code>F|D` = value + same as / different from a fresh object.

`fomC` prints the float codes the model uses.
-/
namespace Drv.C11
open Proto Fom

def triples : List Int → Option (List (Int × Int × Nat))
  | [] => some []
  | a :: b :: c :: r => if c < 0 then none else (triples r).map ((a, b, c.toNat) :: ·)
  | _ => none

def caseRow? (r : List Int) : Option ((Nat × Nat) × List (Int × Int × Nat)) :=
  match r with
  | e :: x :: rest => if e < 0 ∨ x < 0 then none else (triples rest).map (((e.toNat, x.toNat), ·))
  | _ => none

def aggRow? (r : List Int) : Option (List Int × Int) :=
  match r with
  | o :: vs => some (vs, o)
  | _ => none

def op? (w : String) : Option (Op Nat Nat) :=
  match w.toList with
  | ['I'] => some .initialise
  | ['R'] => some .setRaw
  | ['G'] => some .getDifferentials
  | 'E' :: r => (String.ofList r).toNat?.map .evaluate
  | 'M' :: r => (String.ofList r).toNat?.map .setModel
  | _ => none

def showSeg (g : Seg) : String := s!"{g.1}.{g.2.1}.{g.2.2}"

def showOut (t : CaseTab) : Out Int Seg → String
  | .value v => s!"v{v}"
  | .unit => "ok"
  | .error => "ERR"
  | .oob => "OOB"
  | .data sc df =>
    let rows := (sc.map (tabRows t)).sum
    let d := s!"d{rows}:{",".intercalate (sc.map showSeg)}"
    if sc == df then d else d ++ "!df"

/-- run the object model and the documented machine side by side; for every `evaluate` also say whether
the object model returned what a freshly constructed object (other stale buffer content, same mode)
returns: `F`resh / `D`ifferent -/
def runBoth (env : Env Int Seg Nat Nat) (sup : Bool) (g : List Int) (t : CaseTab) :
    St Int Seg Nat → Abs Seg Nat → List (Op Nat Nat) → List String
  | _, _, [] => []
  | s, a, op :: ops =>
    let (s', o) := step env s op
    let (a', ao) := astep env sup a op
    let (m, sp) := match op with
      | .evaluate x =>
        let f0 := init env sup g.reverse
        let f1 := match a.model with
          | some md => (setModel f0 md).1
          | none => f0
        let fo := (evaluate env f1 x).2
        (showOut t o ++ (if o == fo then "F" else "D"), showOut t ao ++ "F")
      | _ => (showOut t o, showOut t ao)
    (if m == sp then m ++ "/=" else m ++ "/" ++ sp) :: runBoth env sup g t s' a' ops

def handle (op rest : String) : Option String :=
  match op, fields rest with
  | "fomC", _ => some s!"c1e100={code1e100} c1e200={code1e200} cnegzero={codeNegZero}"
  | "fom", [hd, gs, ct, at_, os] => do
      let g ← ints? gs
      let t ← (← matrix? ct).mapM caseRow?
      let a ← (← matrix? at_).mapM aggRow?
      let ops ← (words os).mapM op?
      match ← nats? hd with
      | [le, sup, n] =>
        let env := tabEnv (le != 0) n t a
        pure (" ".intercalate (runBoth env (sup != 0) g t (init env (sup != 0) g) ainit ops))
      | _ => none
  | _, _ => none
end Drv.C11
