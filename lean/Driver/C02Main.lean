import Driver.Loop
import Driver.C02
def main : IO Unit := Driver.runLoop [Drv.C02.handle]
