import Driver.Loop
import Driver.C08
def main : IO Unit := Driver.runLoop [Drv.C08.handle]
