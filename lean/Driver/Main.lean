import Driver.C05
/-!
Line-protocol model driver: one operation per input line, one output line per operation.
Each `Driver/Cxx.lean` contributes `handle : (op rest : String) → Option String`
(`none` = not my op / unparsable).  Unknown or malformed lines print `bad-op`; the model
never defaults.
-/
def handlers : List (String → String → Option String) :=
  [Drv.C05.handle]

def dispatch (line : String) : String :=
  let line := line.trimAscii.toString
  let (op, rest) := match line.splitOn " " with
    | [] => ("", "")
    | o :: r => (o, " ".intercalate r)
  match handlers.findSome? (fun h => h op rest) with
  | some out => out
  | none => "bad-op"

partial def loop (h : IO.FS.Stream) (out : IO.FS.Stream) : IO Unit := do
  let line ← h.getLine
  if line.isEmpty then return ()
  out.putStrLn (dispatch line)
  loop h out

def main : IO Unit := do
  let out ← IO.getStdout
  loop (← IO.getStdin) out
  out.flush
