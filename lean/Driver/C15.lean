import Model.Proto
import Model.GameEnc
/-!
driver ops for C15

* `ttpS n rounds`                      → `ERR` | `bp=<codes>`            (model of the blueprint)
* `ttpSspec n rounds ; bp`             → the Lean specification evaluated on a blueprint (declarative,
                                          `decide` of the `Prop`s of `Model/GameEnc.lean`)
* `ttpSfast n rounds ; bp`             → the same clauses evaluated through a tally table (for large
                                          `n`; an *enumeration aid*, not the proved spec)
* `ttpG days n ; x ; y0 [; yimpl]`     → `plan=<flat>` | `OOB` | `ZDIV`, and if `yimpl` (the plan the
                                          implementation produced, flat) is given, the specification
                                          evaluated on it.
Plans are passed flat (row-major) so that `0 × n` and `days × 0` arrays can be expressed.
-/
namespace Drv.C15
open Proto GameEnc

def reshape (l : List Int) (days n : Nat) : Option Plan :=
  if l.length = days * n then
    some ((List.range days).map fun d => (l.drop (d * n)).take n)
  else none

def flat (y : Plan) : String := cInts y.flatten

def b (x : Bool) : String := if x then "true" else "false"

/-- tally table: `t[c]` = number of occurrences of code `c` (codes outside `0..size-1` are counted in `bad`) -/
def tally (size : Nat) (bp : List Int) : Array Nat × Nat :=
  bp.foldl (fun (acc : Array Nat × Nat) g =>
    if 0 ≤ g ∧ g.toNat < size then (acc.1.modify g.toNat (· + 1), acc.2) else (acc.1, acc.2 + 1))
    (Array.replicate size 0, 0)

def code (n h a : Nat) : Nat := h * (n - 1) + (if a > h then a - 1 else a)

def fastSpec (n rounds : Nat) (bp : List Int) : String :=
  let (t, bad) := tally (n * (n - 1)) bp
  let cnt (h a : Nat) : Nat := t.getD (code n h a) 0
  let pairsAll (p : Nat → Nat → Bool) : Bool :=
    (List.range n).all fun a => (List.range a).all fun c => p a c
  let home (u : Nat) : Nat := ((List.range n).filter (· != u)).foldl (fun s v => s + cnt u v) 0
  let away (u : Nat) : Nat := ((List.range n).filter (· != u)).foldl (fun s v => s + cnt v u) 0
  let homes := (List.range n).map home
  let aways := (List.range n).map away
  let tbal := (List.zip homes aways).all fun (h, a) => h ≤ a + 1 && a ≤ h + 1
  let spread := homes.all fun h => homes.all fun h' => h ≤ h' + 1
  s!"codes={b (bad == 0)} pairs={b (pairsAll fun a c => cnt a c + cnt c a == rounds)} " ++
  s!"pbal={b (pairsAll fun a c => cnt a c ≤ cnt c a + 1 && cnt c a ≤ cnt a c + 1)} " ++
  s!"tbal={b tbal} spread={b spread} len={b (bp.length * 2 == rounds * n * (n - 1))}"

def declSpec (n rounds : Nat) (bp : List Int) : String :=
  s!"codes={b (decide (CodesValid n bp))} pairs={b (decide (PairsSpec n rounds bp))} " ++
  s!"pbal={b (decide (PairBalance n bp))} tbal={b (decide (TeamBalance n bp))} " ++
  s!"spread={b (decide (HomeSpread n bp))} len={b (bp.length * 2 == rounds * n * (n - 1))}"

def planSpec (n days : Nat) (x : List Int) (y : Plan) : String :=
  s!"shape={b (decide (Shape y days n))} earliest={b (y == render (schedule n days x) days n)} " ++
  s!"cons={b (decide (Consistent y days n))} noself={b (decide (NoSelfPlay y days n))} " ++
  s!"range={b (decide (InRange y days n))} once={b (decide (OncePerDay y days n))} " ++
  s!"count={b (decide (NotMoreOften n days x y))}"

def handle (op rest : String) : Option String :=
  match op, fields rest with
  | "ttpS", [hd] => do
      match ← nats? hd with
      | [n, rounds] => pure (match searchSpace? n rounds with
          | some bp => s!"bp={cInts bp}"
          | none => "ERR")
      | _ => none
  | "ttpSspec", [hd, bp] => do
      let bp ← ints? bp
      match ← nats? hd with
      | [n, rounds] => pure (declSpec n rounds bp)
      | _ => none
  | "ttpSfast", [hd, bp] => do
      let bp ← ints? bp
      match ← nats? hd with
      | [n, rounds] => pure (fastSpec n rounds bp)
      | _ => none
  | "ttpG", hd :: x :: y0 :: more => do
      let x ← ints? x
      let y0 ← ints? y0
      match ← nats? hd with
      | [days, n] =>
        let y0 ← reshape y0 days n
        let out := match mapGames x days n y0 with
          | .ok y => s!"plan={flat y}"
          | .error .oob => "OOB"
          | .error .zdiv => "ZDIV"
        match more with
        | [] => pure out
        | [yi] => do
            let yi ← ints? yi
            let yi ← reshape yi days n
            pure (out ++ " " ++ planSpec n days x yi)
        | _ => none
      | _ => none
  | _, _ => none
end Drv.C15
