import Model.Proto
import Model.Tsplib
/-!
driver ops for C18 (see `harness/c18.py`).  File contents are passed as one token-free string in
which every character outside printable ASCII (and `%`) is written `%<hex>;` (newline = `%a;`);
two contents in one op are separated by `%%`.
-/
namespace Drv.C18
open Proto Tsp Tsplib Base

def hexVal (c : Char) : Option Nat :=
  if c.isDigit then some (c.toNat - 48)
  else if 97 ≤ c.toNat ∧ c.toNat ≤ 102 then some (c.toNat - 87) else none

partial def unesc : List Char → List Char → Option (List Char)
  | [], acc => some acc.reverse
  | '%' :: cs, acc =>
    let hex := cs.takeWhile (· ≠ ';')
    let rest := (cs.dropWhile (· ≠ ';')).drop 1
    match hex.mapM hexVal with
    | some ds => if ds.isEmpty then none else
        unesc rest (Char.ofNat (ds.foldl (fun a d => 16 * a + d) 0) :: acc)
    | none => none
  | c :: cs, acc => unesc cs (c :: acc)

def hexDigits (n : Nat) : List Char := Nat.toDigits 16 n

def esc (l : List Char) : String :=
  String.ofList (l.flatMap fun c =>
    if c.toNat < 32 ∨ c.toNat > 126 ∨ c = '%' then ['%'] ++ hexDigits c.toNat ++ [';'] else [c])

/-- decoded content → lines (a trailing newline does not start another line) -/
def toLinesOf (content : List Char) : List Line :=
  let parts := Tsplib.splitOn (· = '\n') content
  match parts.reverse with
  | [] :: r => r.reverse
  | _ => parts

def content? (s : String) : Option (List Line) := (unesc s.toList []).map toLinesOf

/-- ASCII model of `sanitize_name(name) == name`: word characters only, no `__`, no `_` at either end -/
def asciiNameOk (l : Line) : Bool :=
  !l.isEmpty && l.all (fun c => c.isAlphanum || c = '_') &&
  l.head? != some '_' && l.getLast? != some '_' &&
  !(l.zip (l.drop 1)).any (fun (a, b) => a = '_' && b = '_')

def cfgOf (lb : Int) : Cfg := { lbOf := fun _ => lb, nameOk := asciiNameOk, geo := fun _ _ => -1 }

def showInst (name : Line) (i : Inst) : String :=
  s!"name={String.ofList name} n={i.n} lb={i.lb} ub={i.ub} sym={i.sym} dtype={i.dtype.name} M={cMatrix i.stored}"

def fmt? (s : String) : Option Fmt :=
  match s with
  | "FULL_MATRIX" => some .full | "UPPER_ROW" => some .upperRow
  | "LOWER_DIAG_ROW" => some .lowerDiag | "UPPER_DIAG_ROW" => some .upperDiag | _ => none

def metric? (s : String) : Option Metric :=
  match s with
  | "EUC_2D" => some .euc2d | "CEIL_2D" => some .ceil2d | "ATT" => some .att | _ => none

/-- strip trailing zero bits -/
partial def normDbl (m : Nat) (e : Int) : Nat × Int :=
  if m = 0 then (0, 0) else if m % 2 = 0 then normDbl (m / 2) (e + 1) else (m, e)

def showNum : Num → String
  | .int v => s!"i{v}"
  | .flt neg _ _ m e =>
    let (m', e') := normDbl m e
    s!"f{if neg then "-" else "+"}{m'}p{e'}"

/-- split `rest` into `k` blank-free arguments and the remaining text -/
def args (k : Nat) (rest : String) : Option (List String × String) :=
  let parts := rest.splitOn " "
  if parts.length < k + 1 then (if parts.length = k then some (parts, "") else none)
  else some (parts.take k, " ".intercalate (parts.drop k))

def handle (op rest : String) : Option String :=
  match op with
  | "load" => do
      let (a, c) ← args 1 rest
      let lb ← a[0]!.toInt?
      let ls ← content? c
      pure (match fromLines (cfgOf lb) ls with
        | some (name, i) => showInst name i
        | none => "ERR")
  | "sect" => do
      let (a, c) ← args 2 rest
      let f ← fmt? a[0]!
      let n ← a[1]!.toNat?
      let ls ← content? c
      pure (if n < 2 then "ERR" else
        match readNInts (f.need n) ls [] with
        | none => "ERR"
        | some (ints, _) => match buildMatrix f n ints with
          | none => "ERR"
          | some M => s!"M={cMatrix M}")
  | "write" => do
      let (a, c) ← args 4 rest
      let lb ← a[0]!.toInt?
      let mult ← a[1]!.toInt?
      let name := a[2]!.toList
      let M ← matrix? (a[3]!.replace "|" " | ")
      let comments ← content? c
      pure (match mkInstance lb M mult with
        | none => "ERR"
        | some i =>
          let ls := toLines name i comments
          let back := match fromLines (cfgOf lb) ls with
            | some (nm, j) => showInst nm j
            | none => "ERR"
          s!"L={esc ("\n".toList.intercalate ls)} ## {back}")
  | "tour" => do
      let ls ← content? rest
      pure (match parseTour ls with
        | some t =>
          let dt := match dtypeFor 0 ((t.length : Int) - 1) with | some d => d.name | none => "none"
          s!"t={cNats t} dtype={dt} perm={isPermB t t.length}"
        | none => "ERR")
  | "tourchk" => do
      let (a, c) ← args 1 rest
      let lb ← a[0]!.toInt?
      match c.splitOn "%%" with
      | [ci, ct] =>
        let li ← content? ci
        let lt ← content? ct
        pure (match fromLines (cfgOf lb) li, parseTour lt with
          | some (_, i), some t =>
            s!"n={i.n} k={t.length} perm={isPermB t i.n} len={showOpt toString (tourLen? i.stored t)} lb={i.lb}"
          | none, _ => "ERR-inst"
          | _, none => "ERR-tour")
      | _ => none
  | "tourL" =>
      match fields rest with
      | [m, x] => do
          let d ← matrix? m
          let t ← nats? x
          pure s!"perm={isPermB t d.length} len={showOpt toString (tourLen? d t)}"
      | _ => none
  | "isperm" =>
      match fields rest with
      | [n, x] => do
          let k ← n.toNat?
          let t ← nats? x
          pure s!"perm={isPermB t k}"
      | _ => none
  | "nums" => do
      let ls ← content? rest
      match ls with
      | [l] => pure (match lineNums? l with
          | some ns => "N=" ++ ",".intercalate (ns.map showNum)
          | none => "ERR")
      | _ => none
  | "ints" => do
      let ls ← content? rest
      match ls with
      | [l] => pure (match lineInts? l with
          | some ns => "I=" ++ cInts ns
          | none => "ERR")
      | _ => none
  | "metric" => do
      -- metric KIND S D d : the spec predicate on an implementation value `d`
      let (a, _) ← args 4 rest
      let m ← metric? a[0]!
      let S ← a[1]!.toNat?
      let D ← a[2]!.toNat?
      let d ← a[3]!.toNat?
      pure s!"val={metricQ m S D} spec={metricSpecB m S D d} self={metricSpecB m S D (metricQ m S D)}"
  | "pdist" => do
      -- pdist KIND d <line with the four coordinate tokens ax ay bx by>
      let (a, c) ← args 2 rest
      let m ← metric? a[0]!
      let d ← a[1]!.toNat?
      let ls ← content? c
      match ls with
      | [l] => pure (match lineNums? l with
          | some [ax, ay, bx, b_y] =>
            let (q, S, D) := exactDist m (ax, ay) (bx, b_y)
            let allint := [ax, ay, bx, b_y].all fun x => match x with | .int _ => true | _ => false
            s!"val={showOpt toString (pointDist (cfgOf 0) m (ax, ay) (bx, b_y))} q={q} spec={metricSpecB m S D d} allint={allint}"
          | _ => "ERR")
      | _ => none
  | "lists" => do
      let M ← matrix? rest
      let n := M.length
      let ok := [Fmt.full, .upperRow, .lowerDiag, .upperDiag].all fun f =>
        buildMatrix f n (listOf f M) == some M && (listOf f M).length == f.need n
      pure s!"full={cInts (listFull M)} ur={cInts (listUpperRow M)} ld={cInts (listLowerDiag M)} ud={cInts (listUpperDiag M)} agree={ok}"
  | _ => none
end Drv.C18
