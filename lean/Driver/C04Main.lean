import Driver.Loop
import Driver.C04
def main : IO Unit := Driver.runLoop [Drv.C04.handle]
