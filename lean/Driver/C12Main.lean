import Driver.Loop
import Driver.C12
def main : IO Unit := Driver.runLoop [Drv.C12.handle]
