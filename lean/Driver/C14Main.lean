import Driver.Loop
import Driver.C14
def main : IO Unit := Driver.runLoop [Drv.C14.handle, Drv.C01.handle]
