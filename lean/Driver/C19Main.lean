import Driver.Loop
import Driver.C19
def main : IO Unit := Driver.runLoop [Drv.C19.handle]
