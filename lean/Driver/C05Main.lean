import Driver.Loop
import Driver.C05
def main : IO Unit := Driver.runLoop [Drv.C05.handle]
