import Model.Proto
import Model.Arith
import Model.ControlSpec
import Gen.Controllers
import Gen.Systems
/-!
driver ops for C16 (part A: translated straight-line kernels)

Numbers: in the exact channel (`…q`) a number is `n` or `n/d` (decimal integers) and is read
as a core `Rat`; in the float channel (`…f`) a number is the decimal `UInt64` bit pattern of a
binary64 (never float text).  Arrays are blank-separated lists.

* `kq kernel ; t ; state ; arg ; out`  — the translated kernel over `Rat` with the rational
  test functions of `ratOps`; answers `out=r,r,…` (the whole new `out`), `OOB` if an index used
  by the kernel lies outside one of the given arrays, `nokernel` if `Gen` has no such kernel.
* `kf …` — the same over `Float` with the libm functions.
* `monos d k` — the specification's monomials of degree `1..k` in `d` variables.
* `monoval d k ; state` — their values at a state (exact).
* `nearestq d k ; state ; params` / `nearestf` — `nearestAnchorLaw`.
* `specq name ; state ; arg` / `specf` — the other specifications of `ControlSpec`.
-/
namespace Drv.C16
open Proto Arith ControlSpec

/-! ### rationals -/

def rat? (s : String) : Option Rat :=
  match s.splitOn "/" with
  | [n] => n.toInt?.map (fun i => (i : Rat))
  | [n, d] => do
      let i ← n.toInt?
      let k ← d.toNat?
      if k = 0 then none else pure (mkRat i k)
  | _ => none

def rats? (s : String) : Option (List Rat) := (words s).mapM rat?

def showRat (r : Rat) : String := s!"{r.num}/{r.den}"
def showRats (l : List Rat) : String := ",".intercalate (l.map showRat)

/-- exact rational *test functions* stand in for the transcendental symbols (distinct cubic
polynomials, so that exchanging two symbols or dropping one is visible); `pi` is 22/7.
`harness/c16.py` executes the kernels' source text over `Fraction`s with the same functions. -/
def ratOps : Ops Rat where
  add := (· + ·)
  sub := (· - ·)
  mul := (· * ·)
  div := (· / ·)
  neg := (- ·)
  ofRat := fun n d => mkRat n d
  lt := fun a b => decide (a < b)
  le := fun a b => decide (a ≤ b)
  eq := fun a b => a == b
  pi := mkRat 22 7
  exp := fun x => x * x * x + 2 * x + 1
  arctan := fun x => x * x * x + x
  tanh := fun x => x * x * x + 3 * x
  sin := fun x => 2 * x * x * x + x
  cos := fun x => x * x * x + 5 * x + 2

/-! ### binary64 -/

def float? (s : String) : Option Float := s.toNat?.bind fun n =>
  if n < 2 ^ 64 then some (Float.ofBits n.toUInt64) else none

def floats? (s : String) : Option (List Float) := (words s).mapM float?

def showFloats (l : List Float) : String := ",".intercalate (l.map (fun f => toString f.toBits.toNat))

def floatOps : Ops Float where
  add := (· + ·)
  sub := (· - ·)
  mul := (· * ·)
  div := (· / ·)
  neg := (- ·)
  ofRat := fun n d => Float.ofInt n / Float.ofNat d
  lt := fun a b => decide (a < b)
  le := fun a b => decide (a ≤ b)
  eq := fun a b => a == b
  pi := Float.ofBits 0x400921FB54442D18
  exp := Float.exp
  arctan := Float.atan
  tanh := Float.tanh
  sin := Float.sin
  cos := Float.cos

/-! ### kernels -/

def allKernels {K : Type} (o : Ops K) : List (String × Kernel K) :=
  Gen.Controllers.kernels o ++ Gen.Systems.kernels o

def allInfos : List KernelInfo := Gen.Controllers.infos ++ Gen.Systems.infos

def runKernel {K : Type} (o : Ops K) (z : K) (name : String) (t : K) (state arg out : List K) :
    Option (Option (List K)) :=
  match (allKernels o).lookup name, allInfos.find? (·.name = name) with
  | some f, some inf =>
    if allBelow inf.stateIdx state.length && allBelow inf.argIdx arg.length
        && allBelow inf.outIdx out.length then
      let r := f (ofList z state) t (ofList z arg) (ofList z out)
      some (some ((List.range out.length).map r))
    else some none
  | _, _ => none

def showRun {K : Type} (sh : List K → String) : Option (Option (List K)) → String
  | none => "nokernel"
  | some none => "OOB"
  | some (some l) => s!"out={sh l}"

/-! ### specifications -/

def cExps (m : List (List Nat)) : String := "|".intercalate (m.map cNats)

def specOut {K : Type} (o : Ops K) (z : K) (name : String) (state arg : List K) : Option (List K) :=
  let s := ofList z state
  let a := ofList z arg
  let need (ns na : Nat) (v : List K) : Option (List K) :=
    if ns ≤ state.length && na ≤ arg.length then some v else none
  match name with
  | "peaks_2_1" => need 2 4 [peaksSpec o 2 1 a s]
  | "peaks_2_2" => need 2 8 [peaksSpec o 2 2 a s]
  | "peaks_2_3" => need 2 12 [peaksSpec o 2 3 a s]
  | "peaks_3_1" => need 3 5 [peaksSpec o 3 1 a s]
  | "peaks_3_2" => need 3 10 [peaksSpec o 3 2 a s]
  | "peaks_3_3" => need 3 15 [peaksSpec o 3 3 a s]
  | "cornejo_maceda" => need 2 3 [cornejoMaceda o a s]
  | "table_3_1_ga" => need 2 2 [table31ga o a s]
  | "table_3_1_lgpc" => need 1 4 [table31lgpc o a s]
  | "stuart_landau" => need 2 1 (stuartLandau o s (a 0))
  | "lorenz" => need 3 1 (lorenz o s (a 0))
  | "3oscillators" => need 6 1 (oscillators o s (a 0))
  | _ => none

def handle (op rest : String) : Option String :=
  match op, fields rest with
  | "kq", [name, t, st, ar, ou] => do
      let t ← rat? t
      pure (showRun showRats (runKernel ratOps 0 name t (← rats? st) (← rats? ar) (← rats? ou)))
  | "kf", [name, t, st, ar, ou] => do
      let t ← float? t
      pure (showRun showFloats (runKernel floatOps 0 name t (← floats? st) (← floats? ar) (← floats? ou)))
  | "monos", [dk] => do
      match ← nats? dk with
      | [d, k] =>
        let m := monomials d k
        pure s!"n={m.length} count={monomialCount d k} exps={cExps m}"
      | _ => none
  | "monoval", [dk, st] => do
      let s ← rats? st
      match ← nats? dk with
      | [d, k] =>
        if s.length < d then pure "OOB" else
        pure s!"vals={showRats ((monomials d k).map (fun e => monoVal ratOps e (ofList 0 s)))}"
      | _ => none
  | "nearestq", [dk, st, pa] => do
      let s ← rats? st
      let p ← rats? pa
      match ← nats? dk with
      | [d, k] =>
        if s.length < d || p.length < 2 * d * k then pure "OOB" else
        let θ := ofList 0 p
        let σ := ofList 0 s
        pure (match firstNearest ratOps d k θ σ with
          | some j => s!"j={j} law={showRat (law ratOps d θ σ j)} dists={showRats ((List.range k).map (sqDist ratOps d θ σ))}"
          | none => "none")
      | _ => none
  | "nearestf", [dk, st, pa] => do
      let s ← floats? st
      let p ← floats? pa
      match ← nats? dk with
      | [d, k] =>
        if s.length < d || p.length < 2 * d * k then pure "OOB" else
        let θ := ofList 0 p
        let σ := ofList 0 s
        pure (match firstNearest floatOps d k θ σ with
          | some j => s!"j={j} law={showFloats [law floatOps d θ σ j]} dists={showFloats ((List.range k).map (sqDist floatOps d θ σ))}"
          | none => "none")
      | _ => none
  | "specq", [name, st, ar] => do
      pure (match specOut ratOps 0 name (← rats? st) (← rats? ar) with
        | some l => s!"out={showRats l}"
        | none => "nospec")
  | "specf", [name, st, ar] => do
      pure (match specOut floatOps 0 name (← floats? st) (← floats? ar) with
        | some l => s!"out={showFloats l}"
        | none => "nospec")
  | _, _ => none

end Drv.C16
